#!/bin/sh
# Builds the monitors offline from files on disk. Run once after a restore.
set -e
cd "$(dirname "$0")/harness"
export CARGO_NET_OFFLINE=true
cp /repo/Cargo.lock Cargo.lock
mkdir -p ../.build ../evidence ../replays
CARGO_TARGET_DIR=../.build/native cargo build --profile verif --bin vcheck
CARGO_TARGET_DIR=../.build/native cargo build --release --bin vcheck
CARGO_TARGET_DIR=../.build/native cargo build --profile verif --features compat --bin vcheck-compat
CARGO_TARGET_DIR=../.build/asan RUSTFLAGS="-Zsanitizer=address -Cforce-frame-pointers=yes" \
  cargo +nightly build --target x86_64-unknown-linux-gnu --bin vcheck
CARGO_TARGET_DIR=../.build/miri MIRIFLAGS="-Zmiri-disable-isolation" \
  cargo +nightly miri run --bin vcheck -- NOOP
echo setup done
