//! C09 libFuzzer target "rrdp": the first input octet selects the file kind
//! (notification, snapshot, delta), the parser (owned parse or parse_limited /
//! the harness' collecting ProcessSnapshot / ProcessDelta) and the reader
//! chunking; the rest is the document. No panic, and an accepted value must
//! survive write_xml + parse (same code as the mutation workload of the
//! native stage).
#![no_main]

use libfuzzer_sys::fuzz_target;

fuzz_target!(|data: &[u8]| {
    rpki_verif::c09::fuzz_one("rrdp", data);
});
