//! C11 libFuzzer target "xml": the first input octet selects one of the six
//! CA protocol XML parsers (provisioning / publication Message::decode, the
//! four RFC 8183 parse functions), the rest is the document. No panic in the
//! parser, in re-writing an accepted value, or in parsing that again (same code
//! as the mutant workload of the native stage).
#![no_main]

use libfuzzer_sys::fuzz_target;

fuzz_target!(|data: &[u8]| {
    rpki_verif::c11::fuzz_one("xml", data);
});
