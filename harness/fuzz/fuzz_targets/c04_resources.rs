//! C04 libFuzzer target "resources": first input byte selects the entry point inside
//! the group, the rest is the byte string handed to the decoder; an accepted
//! value gets the full accessor sweep (same code as the native stage).
#![no_main]

use libfuzzer_sys::fuzz_target;

#[global_allocator]
static ALLOC: rpki_verif::alloc::CountingAlloc = rpki_verif::alloc::CountingAlloc;

fuzz_target!(|data: &[u8]| {
    rpki_verif::c04::c04_eval::fuzz_one(rpki_verif::c04::c04_eval::FUZZ_RESOURCES, data);
});
