//! C07 libFuzzer target "pdu": the first input octet selects the RTR read
//! entry point (typed read / try_read, Payload::read, Header::read +
//! read_payload / skip_payload / SerialQueryPayload::read, dispatch on the type
//! octet), the second the delivery pattern (all at once, byte-wise with
//! Pending, chunk script); the rest is the stream, which ends where the input
//! ends. Judged by the damage oracle of the native stage (same code).
#![no_main]

use libfuzzer_sys::fuzz_target;

fuzz_target!(|data: &[u8]| {
    rpki_verif::c07::fuzz_one("pdu", data);
});
