//! C03, "its ... serde forms parse back to an equal set" — through every
//! transport a serde data format may use.
//!
//! A `Deserialize` implementation sees its input through visitor calls whose
//! flavour is the format's choice: a string may be lent for the lifetime of
//! the input (`visit_borrowed_str`: serde_json::from_str / from_slice over
//! text without escapes), lent for the call only (`visit_str`: from_reader,
//! any string with an escape sequence) or handed over (`visit_string`:
//! serde_json::Value, most binary formats); a struct may arrive as a map or
//! as a sequence; the format may or may not call itself human-readable. The
//! base workload reads every serde form back with serde_json::from_str only.
//!
//! Here every serde-implementing resource type (AsBlocks, Ipv4Blocks,
//! Ipv6Blocks, ResourceSet, ResourceDiff, AsResources, ResourcesChoice,
//! RequestResourceLimit, and std containers of them) is serialised and read
//! back through
//!
//! * serde_json: from_str, from_slice, from_reader (whole and one octet per
//!   read), to_value + from_value, pretty text, and the same JSON document
//!   re-spelt with escapes (`\/`, `\u002f`, every character of every string
//!   as `\uXXXX`) through from_str / from_slice / from_reader;
//! * the harness token format (`crate::serde_tok`), human-readable and
//!   compact, with every transport of `De::all`.
//!
//! Each result must be the value that was serialised (same blocks by
//! observation, and `==`). Then the token tree is damaged leaf by leaf
//! (`serde_tok::damage_leaf`, plus text-level damages: items in reverse
//! order, repeated, a range with swapped ends, other separators): an error is
//! fine, an accepted value must hold canonical collections only, and where
//! the damaged text still spells the same set it must be that set.

use crate::c03::{check_set, obs_json, observe_as, Obs};
use crate::c03_gen::{canonical_defect, sequence, Flavour};
use crate::c03_ip::{lib_block, observe_ip};
use crate::core::{Ctx, Rng, Stage, Tier};
use crate::serde_tok::{self as st, De, Tok};
use rpki::ca::provisioning::RequestResourceLimit;
use rpki::repository::resources::{
    AsBlock, AsBlocks, AsBlocksBuilder, AsResources, AsResourcesBuilder, Asn, IpBlock, IpBlocks, IpBlocksBuilder, Ipv4Blocks, Ipv6Blocks, ResourceDiff,
    ResourceSet, ResourcesChoice,
};
use serde::de::DeserializeOwned;
use serde::Serialize;
use serde_json::{json, Value};
use std::collections::BTreeMap;
use std::fmt::Write as _;

//------------ what is compared ------------------------------------------------

/// A value with a serde form whose block collections can be observed.
pub trait Subject: Serialize + DeserializeOwned {
    fn type_name() -> String;
    /// Flavour used in signatures ("as", "v4", "v6", "set").
    fn flavour() -> &'static str;
    /// `None` if `other` is the same value: same blocks by observation and `==` both ways.
    fn differs(&self, other: &Self) -> Option<String>;
    /// The first canonical-form defect of a block collection inside the value.
    fn defect(&self) -> Option<String>;
    /// The literal value for a report.
    fn show(&self) -> Value;
    /// Whether the value's struct form is positional (no field left out when serialising).
    fn positional(&self) -> bool {
        true
    }
    /// Whether every string leaf of the serde form is a block list (so that a list re-spelt in
    /// another order must come back as the same value).
    fn strings_are_lists() -> bool {
        true
    }
    /// Whether the type is one of the block collections (or a composition of them) whose serde
    /// form the statement speaks about. For other types that merely carry collections a
    /// rejection by a transport other than JSON is recorded, not reported.
    fn is_collection() -> bool {
        true
    }
}

fn obs_diff(what: &str, a: &Obs, b: &Obs) -> Option<String> {
    if a != b {
        Some(format!("{}: blocks {} became {}", what, obs_json(a), obs_json(b)))
    } else {
        None
    }
}

fn eq_diff<T: PartialEq>(what: &str, a: &T, b: &T) -> Option<String> {
    if a != b || b != a {
        Some(format!("{}: == says the values differ", what))
    } else {
        None
    }
}

impl Subject for AsBlocks {
    fn type_name() -> String {
        "AsBlocks".into()
    }
    fn flavour() -> &'static str {
        "as"
    }
    fn differs(&self, other: &Self) -> Option<String> {
        obs_diff("AsBlocks", &observe_as(self), &observe_as(other)).or_else(|| eq_diff("AsBlocks", self, other))
    }
    fn defect(&self) -> Option<String> {
        canonical_defect(&observe_as(self), false).map(|d| format!("AsBlocks:{}", d))
    }
    fn show(&self) -> Value {
        obs_json(&observe_as(self))
    }
}

impl Subject for Ipv4Blocks {
    fn type_name() -> String {
        "Ipv4Blocks".into()
    }
    fn flavour() -> &'static str {
        "v4"
    }
    fn differs(&self, other: &Self) -> Option<String> {
        obs_diff("Ipv4Blocks", &observe_ip(self), &observe_ip(other)).or_else(|| eq_diff("Ipv4Blocks", self, other))
    }
    fn defect(&self) -> Option<String> {
        canonical_defect(&observe_ip(self), true).map(|d| format!("Ipv4Blocks:{}", d))
    }
    fn show(&self) -> Value {
        obs_json(&observe_ip(self))
    }
}

impl Subject for Ipv6Blocks {
    fn type_name() -> String {
        "Ipv6Blocks".into()
    }
    fn flavour() -> &'static str {
        "v6"
    }
    fn differs(&self, other: &Self) -> Option<String> {
        obs_diff("Ipv6Blocks", &observe_ip(self), &observe_ip(other)).or_else(|| eq_diff("Ipv6Blocks", self, other))
    }
    fn defect(&self) -> Option<String> {
        canonical_defect(&observe_ip(self), true).map(|d| format!("Ipv6Blocks:{}", d))
    }
    fn show(&self) -> Value {
        obs_json(&observe_ip(self))
    }
}

impl Subject for ResourceSet {
    fn type_name() -> String {
        "ResourceSet".into()
    }
    fn flavour() -> &'static str {
        "set"
    }
    fn differs(&self, other: &Self) -> Option<String> {
        self.asn().differs(other.asn()).or_else(|| self.ipv4().differs(other.ipv4())).or_else(|| self.ipv6().differs(other.ipv6())).or_else(|| eq_diff("ResourceSet", self, other))
    }
    fn defect(&self) -> Option<String> {
        self.asn().defect().or_else(|| self.ipv4().defect()).or_else(|| self.ipv6().defect())
    }
    fn show(&self) -> Value {
        json!({"asn": self.asn().show(), "ipv4": self.ipv4().show(), "ipv6": self.ipv6().show()})
    }
}

/// The two sets of a `ResourceDiff` (it has no accessors): read from its
/// Display form `+added -removed` is not possible either, so they are taken
/// from its serde form held as a `Value`.
fn diff_parts(d: &ResourceDiff) -> Option<(ResourceSet, ResourceSet)> {
    let v = serde_json::to_value(d).ok()?;
    let part = |k: &str| -> Option<ResourceSet> {
        let p = v.get(k)?;
        ResourceSet::from_strs(p.get("asn")?.as_str()?, p.get("ipv4")?.as_str()?, p.get("ipv6")?.as_str()?).ok()
    };
    Some((part("added")?, part("removed")?))
}

impl Subject for ResourceDiff {
    fn type_name() -> String {
        "ResourceDiff".into()
    }
    fn flavour() -> &'static str {
        "set"
    }
    fn differs(&self, other: &Self) -> Option<String> {
        match (diff_parts(self), diff_parts(other)) {
            (Some(a), Some(b)) => a.0.differs(&b.0).or_else(|| a.1.differs(&b.1)),
            _ => None,
        }
        .or_else(|| eq_diff("ResourceDiff", self, other))
        .or_else(|| if self.to_string() != other.to_string() { Some("ResourceDiff: Display differs".into()) } else { None })
    }
    fn defect(&self) -> Option<String> {
        diff_parts(self).and_then(|(a, r)| a.defect().or_else(|| r.defect()))
    }
    fn show(&self) -> Value {
        json!(self.to_string())
    }
}

impl Subject for AsResources {
    fn type_name() -> String {
        "AsResources".into()
    }
    fn flavour() -> &'static str {
        "as"
    }
    fn differs(&self, other: &Self) -> Option<String> {
        if self.is_inherited() != other.is_inherited() || self.is_present() != other.is_present() {
            return Some("AsResources: another choice (missing / inherit / blocks)".into());
        }
        match (self.to_blocks(), other.to_blocks()) {
            (Ok(a), Ok(b)) => a.differs(&b),
            (Err(_), Err(_)) => None,
            _ => Some("AsResources: to_blocks differs".into()),
        }
        .or_else(|| eq_diff("AsResources", self, other))
    }
    fn defect(&self) -> Option<String> {
        self.to_blocks().ok().and_then(|b| b.defect())
    }
    fn show(&self) -> Value {
        json!({"inherited": self.is_inherited(), "present": self.is_present(), "blocks": self.to_blocks().ok().map(|b| b.show())})
    }
}

impl<T: Subject + PartialEq + Clone> Subject for ResourcesChoice<T> {
    fn type_name() -> String {
        format!("ResourcesChoice<{}>", T::type_name())
    }
    fn flavour() -> &'static str {
        T::flavour()
    }
    fn differs(&self, other: &Self) -> Option<String> {
        match (self, other) {
            (ResourcesChoice::Missing, ResourcesChoice::Missing) | (ResourcesChoice::Inherit, ResourcesChoice::Inherit) => None,
            (ResourcesChoice::Blocks(a), ResourcesChoice::Blocks(b)) => a.differs(b),
            _ => Some("ResourcesChoice: another variant".into()),
        }
        .or_else(|| eq_diff("ResourcesChoice", self, other))
    }
    fn defect(&self) -> Option<String> {
        match self {
            ResourcesChoice::Blocks(b) => b.defect(),
            _ => None,
        }
    }
    fn show(&self) -> Value {
        match self {
            ResourcesChoice::Missing => json!("Missing"),
            ResourcesChoice::Inherit => json!("Inherit"),
            ResourcesChoice::Blocks(b) => json!({"Blocks": b.show()}),
        }
    }
}

fn opt_differs<T: Subject>(what: &str, a: Option<&T>, b: Option<&T>) -> Option<String> {
    match (a, b) {
        (None, None) => None,
        (Some(a), Some(b)) => a.differs(b),
        _ => Some(format!("{}: present on one side only", what)),
    }
}

impl Subject for RequestResourceLimit {
    fn type_name() -> String {
        "RequestResourceLimit".into()
    }
    fn flavour() -> &'static str {
        "set"
    }
    fn differs(&self, other: &Self) -> Option<String> {
        opt_differs("limit.asn", self.asn(), other.asn())
            .or_else(|| opt_differs("limit.ipv4", self.ipv4(), other.ipv4()))
            .or_else(|| opt_differs("limit.ipv6", self.ipv6(), other.ipv6()))
            .or_else(|| eq_diff("RequestResourceLimit", self, other))
    }
    fn defect(&self) -> Option<String> {
        self.asn().and_then(|b| b.defect()).or_else(|| self.ipv4().and_then(|b| b.defect())).or_else(|| self.ipv6().and_then(|b| b.defect()))
    }
    fn show(&self) -> Value {
        json!({"asn": self.asn().map(|b| b.show()), "ipv4": self.ipv4().map(|b| b.show()), "ipv6": self.ipv6().map(|b| b.show())})
    }
    fn positional(&self) -> bool {
        // fields that are None are left out of the serialised struct (skip_serializing_if), so a
        // sequence of the remaining fields no longer says which is which; that is a property of
        // the attribute, not of the sets
        self.asn().is_some() && self.ipv4().is_some() && self.ipv6().is_some()
    }
    fn is_collection() -> bool {
        // the limit carries collections but is none; its Option fields are written as
        // `Some(text)` and read by a deserialize_with that takes a bare string, which only
        // formats with a transparent `Some` (JSON) can satisfy. Recorded, not reported.
        false
    }
}

impl<T: Subject> Subject for Vec<T> {
    fn type_name() -> String {
        format!("Vec<{}>", T::type_name())
    }
    fn flavour() -> &'static str {
        T::flavour()
    }
    fn differs(&self, other: &Self) -> Option<String> {
        if self.len() != other.len() {
            return Some(format!("Vec: {} elements became {}", self.len(), other.len()));
        }
        self.iter().zip(other.iter()).find_map(|(a, b)| a.differs(b))
    }
    fn defect(&self) -> Option<String> {
        self.iter().find_map(|a| a.defect())
    }
    fn show(&self) -> Value {
        Value::Array(self.iter().map(|a| a.show()).collect())
    }
    fn positional(&self) -> bool {
        self.iter().all(|a| a.positional())
    }
}

impl<T: Subject> Subject for Option<T> {
    fn type_name() -> String {
        format!("Option<{}>", T::type_name())
    }
    fn flavour() -> &'static str {
        T::flavour()
    }
    fn differs(&self, other: &Self) -> Option<String> {
        opt_differs("Option", self.as_ref(), other.as_ref())
    }
    fn defect(&self) -> Option<String> {
        self.as_ref().and_then(|a| a.defect())
    }
    fn show(&self) -> Value {
        self.as_ref().map(|a| a.show()).unwrap_or(Value::Null)
    }
    fn positional(&self) -> bool {
        self.as_ref().map(|a| a.positional()).unwrap_or(true)
    }
}

impl<A: Subject, B: Subject, C: Subject> Subject for (A, B, C) {
    fn type_name() -> String {
        format!("({}, {}, {})", A::type_name(), B::type_name(), C::type_name())
    }
    fn flavour() -> &'static str {
        "set"
    }
    fn differs(&self, other: &Self) -> Option<String> {
        self.0.differs(&other.0).or_else(|| self.1.differs(&other.1)).or_else(|| self.2.differs(&other.2))
    }
    fn defect(&self) -> Option<String> {
        self.0.defect().or_else(|| self.1.defect()).or_else(|| self.2.defect())
    }
    fn show(&self) -> Value {
        json!([self.0.show(), self.1.show(), self.2.show()])
    }
}

impl<T: Subject> Subject for BTreeMap<String, T> {
    fn type_name() -> String {
        format!("BTreeMap<String, {}>", T::type_name())
    }
    fn flavour() -> &'static str {
        T::flavour()
    }
    fn differs(&self, other: &Self) -> Option<String> {
        if self.keys().ne(other.keys()) {
            return Some("BTreeMap: other keys".into());
        }
        self.iter().zip(other.iter()).find_map(|((_, a), (_, b))| a.differs(b))
    }
    fn defect(&self) -> Option<String> {
        self.values().find_map(|a| a.defect())
    }
    fn show(&self) -> Value {
        Value::Object(self.iter().map(|(k, a)| (k.clone(), a.show())).collect())
    }
    fn strings_are_lists() -> bool {
        false
    }
}

//------------ JSON text in other spellings -------------------------------------

/// Re-spells the strings of a JSON document with escape sequences; the
/// document stays the same JSON value.
/// mode 0: `/` as `\/`; 1: `/` as `\u002f`; 2: every character as `\uXXXX`;
/// 3: the first character of every string as `\uXXXX`.
pub fn respell(text: &str, mode: u8) -> String {
    let mut out = String::with_capacity(text.len() * 2);
    let mut in_str = false;
    let mut first = false;
    let mut chars = text.chars();
    while let Some(c) = chars.next() {
        if !in_str {
            if c == '"' {
                in_str = true;
                first = true;
            }
            out.push(c);
            continue;
        }
        match c {
            '"' => {
                in_str = false;
                out.push(c);
            }
            '\\' => {
                out.push(c);
                if let Some(n) = chars.next() {
                    out.push(n);
                    if n == 'u' {
                        for _ in 0..4 {
                            if let Some(h) = chars.next() {
                                out.push(h)
                            }
                        }
                    }
                }
            }
            '/' if mode == 0 => out.push_str("\\/"),
            '/' if mode == 1 => out.push_str("\\u002f"),
            c if mode == 2 || (mode == 3 && first) => {
                let mut buf = [0u16; 2];
                for u in c.encode_utf16(&mut buf) {
                    let _ = write!(out, "\\u{:04x}", u);
                }
            }
            c => out.push(c),
        }
        first = false;
    }
    out
}

/// Hands out one octet per `read` call.
struct Dribble<'a>(&'a [u8]);

impl std::io::Read for Dribble<'_> {
    fn read(&mut self, buf: &mut [u8]) -> std::io::Result<usize> {
        if buf.is_empty() || self.0.is_empty() {
            return Ok(0);
        }
        buf[0] = self.0[0];
        self.0 = &self.0[1..];
        Ok(1)
    }
}

pub const JSON_TRANSPORTS: &[&str] = &[
    "json:from_str",
    "json:from_slice",
    "json:from_reader",
    "json:from_reader(one octet per read)",
    "json:to_value+from_value",
    "json:from_str(Value)+from_value",
    "json:pretty+from_str",
    "json:solidus as \\/ +from_str",
    "json:solidus as \\/ +from_slice",
    "json:solidus as \\/ +from_reader",
    "json:solidus as \\u002f +from_str",
    "json:solidus as \\u002f +from_reader",
    "json:every character as \\uXXXX +from_str",
    "json:every character as \\uXXXX +from_slice",
    "json:every character as \\uXXXX +from_reader",
    "json:first character as \\uXXXX +from_str",
];

/// How the strings of JSON transport `which` reach the visitor: lent for the lifetime of the
/// input (borrowed), for the call (transient: readers, and text with escape sequences, here
/// called escaped) or handed over (owned). Part of the violation signature; the transport
/// itself is in the detail.
fn json_strings(which: usize) -> &'static str {
    match which {
        0 | 1 | 6 => "borrowed",
        2 | 3 => "transient",
        4 | 5 => "owned",
        _ => "escaped",
    }
}

fn tok_strings(de: &De) -> &'static str {
    match de.strings {
        st::Strings::Borrowed => "borrowed",
        st::Strings::Transient => "transient",
        st::Strings::Owned => "owned",
    }
}

/// Reads `v` back through JSON transport `which`; returns the text that was read, too.
fn json_transport<T: Subject>(which: usize, v: &T) -> (String, Result<T, String>) {
    let es = |e: serde_json::Error| e.to_string();
    let text = match serde_json::to_string(v) {
        Ok(t) => t,
        Err(e) => return (String::new(), Err(format!("harness: serialising failed: {}", e))),
    };
    match which {
        0 => {
            let r = serde_json::from_str::<T>(&text).map_err(es);
            (text, r)
        }
        1 => {
            let r = serde_json::from_slice::<T>(text.as_bytes()).map_err(es);
            (text, r)
        }
        2 => {
            let r = serde_json::from_reader::<_, T>(text.as_bytes()).map_err(es);
            (text, r)
        }
        3 => {
            let r = serde_json::from_reader::<_, T>(Dribble(text.as_bytes())).map_err(es);
            (text, r)
        }
        4 => {
            let r = serde_json::to_value(v).map_err(es).and_then(|val| serde_json::from_value::<T>(val).map_err(es));
            (text, r)
        }
        5 => {
            let r = serde_json::from_str::<Value>(&text).map_err(es).and_then(|val| serde_json::from_value::<T>(val).map_err(es));
            (text, r)
        }
        6 => {
            let pretty = serde_json::to_string_pretty(v).unwrap_or_else(|_| text.clone());
            let r = serde_json::from_str::<T>(&pretty).map_err(es);
            (pretty, r)
        }
        _ => {
            let (mode, via) = match which {
                7 => (0, 0),
                8 => (0, 1),
                9 => (0, 2),
                10 => (1, 0),
                11 => (1, 2),
                12 => (2, 0),
                13 => (2, 1),
                14 => (2, 2),
                _ => (3, 0),
            };
            let t = respell(&text, mode);
            // the re-spelt document must still be the same JSON value: a harness check
            if serde_json::from_str::<Value>(&t).ok() != serde_json::from_str::<Value>(&text).ok() {
                return (t, Err("harness: re-spelling changed the document".into()));
            }
            let r = match via {
                0 => serde_json::from_str::<T>(&t).map_err(es),
                1 => serde_json::from_slice::<T>(t.as_bytes()).map_err(es),
                _ => serde_json::from_reader::<_, T>(t.as_bytes()).map_err(es),
            };
            (t, r)
        }
    }
}

//------------ text-level damage ------------------------------------------------

/// Another spelling of a block list. Returns the text and whether it still
/// denotes the same set (then an accepted value must equal the original).
fn respell_list(s: &str, pick: u64) -> Option<(String, bool)> {
    let items: Vec<&str> = s.split(',').map(|x| x.trim()).filter(|x| !x.is_empty()).collect();
    if items.is_empty() {
        return None;
    }
    match pick % 6 {
        0 => {
            if items.len() < 2 {
                return None;
            }
            let mut v = items.clone();
            v.reverse();
            Some((v.join(", "), true))
        }
        1 => {
            // a range with its ends swapped (v4-mapped IPv6 text holds no '-' either)
            let i = items.iter().position(|x| x.matches('-').count() == 1)?;
            let (a, b) = items[i].split_once('-')?;
            let mut v: Vec<String> = items.iter().map(|x| x.to_string()).collect();
            v[i] = format!("{}-{}", b, a);
            Some((v.join(", "), false))
        }
        2 => {
            let mut v = items.clone();
            v.push(items[0]);
            Some((v.join(", "), true))
        }
        3 => Some((items.join(","), true)),
        4 => Some((items.join(" , "), true)),
        _ => {
            if items.len() < 2 {
                return None;
            }
            let mut v = items.clone();
            let l = v.len() - 1;
            v.swap(0, l);
            v.insert(1, items[0]);
            Some((v.join(", "), true))
        }
    }
}

//------------ the driver ---------------------------------------------------------

#[derive(Clone, Copy, PartialEq, Eq)]
pub enum Depth {
    /// every transport, no damage
    Transports,
    /// every transport and every damaged token tree
    Full,
    /// a handful of transports (Miri)
    Light,
}

fn tok_text(t: &Tok) -> String {
    let s = format!("{:?}", t);
    if s.len() > 4000 {
        format!("{} ... ({} octets)", &s[..4000], s.len())
    } else {
        s
    }
}

fn clip(s: &str) -> String {
    if s.len() > 6000 {
        let mut end = 6000;
        while !s.is_char_boundary(end) {
            end -= 1;
        }
        format!("{} ... ({} octets)", &s[..end], s.len())
    } else {
        s.to_string()
    }
}

/// Judges what a transport made of the serde form of `v`.
fn judge<T: Subject>(ctx: &mut Ctx, v: &T, transport: &str, strings: &str, r: Option<Result<T, String>>, input: &dyn Fn() -> Value) {
    ctx.eval();
    let ty = T::type_name();
    match r {
        Some(Ok(back)) => {
            if let Some(why) = v.differs(&back) {
                ctx.violation(
                    &format!("C03:{}:serde-roundtrip:{}:{}-strings:differs", T::flavour(), ty, strings),
                    "the serde form of a value parses back to a different value",
                    json!({"type": ty, "transport": transport, "strings_reach_the_visitor": strings, "value": v.show(), "came_back_as": back.show(), "difference": why, "input": input()}),
                );
            }
        }
        Some(Err(e)) => {
            if e.starts_with("harness:") {
                ctx.notes.push(format!("{} via {}: {}", ty, transport, e));
                return;
            }
            ctx.violation(
                &format!("C03:{}:serde-roundtrip:{}:{}-strings:rejected", T::flavour(), ty, strings),
                "the serde form of a value is rejected when it is read back",
                json!({"type": ty, "transport": transport, "strings_reach_the_visitor": strings, "value": v.show(), "error": e, "input": input()}),
            );
        }
        None => {}
    }
}

/// Serialises `v` and reads it back through every transport; with
/// `Depth::Full` also through damaged token trees.
pub fn drive<T: Subject>(ctx: &mut Ctx, rng: &mut Rng, v: &T, depth: Depth) {
    let ty = T::type_name();
    // the subject itself must be sound, or nothing below means anything
    if let Some(d) = v.defect() {
        ctx.notes.push(format!("serde subject {} is not canonical ({}); reported by the constructor checks", ty, d));
        return;
    }
    let which: Vec<usize> = if depth == Depth::Light { vec![0, 2, 4, 7] } else { (0..JSON_TRANSPORTS.len()).collect() };
    for w in which {
        let name = JSON_TRANSPORTS[w];
        let d = || json!({"type": ty, "transport": name, "value": v.show()});
        let mut text = String::new();
        let r = ctx.no_panic(&format!("serde:{}:{}", ty, name), d, || {
            let (t, r) = json_transport::<T>(w, v);
            text = t;
            r
        });
        judge(ctx, v, name, json_strings(w), r, &|| json!(clip(&text)));
        ctx.obs("serde_json_roundtrips", 1);
    }
    ctx.sig(&format!("serde {} json transports", ty));
    for hr in [true, false] {
        let mode = if hr { "human-readable" } else { "compact" };
        let tok = match ctx.no_panic(&format!("serde:{}:serialize", ty), || json!({"type": ty, "value": v.show()}), || st::to_tok(v, hr)) {
            Some(Ok(t)) => t,
            Some(Err(e)) => {
                ctx.violation(&format!("C03:{}:serde:{}:serialize-failed", T::flavour(), ty), "serialising a value fails", json!({"type": ty, "value": v.show(), "error": e.to_string(), "mode": mode}));
                continue;
            }
            None => continue,
        };
        let des: Vec<De> = if depth == Depth::Light { De::all(hr).into_iter().filter(|d| !d.structs_as_seq).collect() } else { De::all(hr) };
        for de in &des {
            if de.structs_as_seq && !v.positional() {
                ctx.obs("serde_seq_transport_not_applicable(skipped fields)", 1);
                continue;
            }
            let name = format!("tok:{}", de.describe());
            let d = || json!({"type": ty, "transport": name, "value": v.show(), "tokens": tok_text(&tok)});
            let r = ctx.no_panic(&format!("serde:{}:{}", ty, name), d, || st::from_tok::<T>(&tok, *de).map_err(|e| e.to_string()));
            if !T::is_collection() && matches!(r, Some(Err(_))) {
                ctx.obs(&format!("serde_tok_transport_rejects_{}(observation)", ty), 1);
                continue;
            }
            judge(ctx, v, &name, tok_strings(de), r, &|| json!(tok_text(&tok)));
            ctx.obs("serde_tok_roundtrips", 1);
        }
        ctx.sig(&format!("serde {} tok {} transports", ty, mode));
        if depth != Depth::Full {
            continue;
        }
        // damaged token trees
        let leaves = tok.leaves();
        let mut leaf_order: Vec<usize> = (0..leaves).collect();
        if leaves > 6 {
            rng.shuffle(&mut leaf_order);
            leaf_order.truncate(6);
        }
        for leaf in leaf_order {
            for pick in 0..12u64 {
                let mut t = tok.clone();
                let mut changed = false;
                // (text of the leaf still denotes the same set)
                let mut same_set = false;
                t.edit_leaf(leaf, &mut |x| {
                    if pick < 6 {
                        changed = st::damage_leaf(x, pick);
                    } else if !T::strings_are_lists() {
                    } else if let Tok::Str(s) = x {
                        if let Some((n, same)) = respell_list(s, pick - 6) {
                            *s = n;
                            same_set = same;
                            changed = true;
                        }
                    }
                });
                if !changed || t == tok {
                    continue;
                }
                let de = des[rng.usize_below(des.len())];
                if de.structs_as_seq && !v.positional() {
                    continue;
                }
                ctx.obs("serde_damaged_token_trees", 1);
                ctx.eval();
                let name = format!("tok:{}", de.describe());
                let d = || json!({"type": ty, "transport": name, "original": v.show(), "tokens": tok_text(&t)});
                match ctx.no_panic(&format!("serde:{}:damaged", ty), d, || st::from_tok::<T>(&t, de)) {
                    Some(Ok(x)) => {
                        ctx.obs("serde_damaged_accepted", 1);
                        if let Some(defect) = x.defect() {
                            ctx.violation(
                                &format!("C03:{}:serde-damaged:{}:non-canonical:{}", T::flavour(), ty, defect),
                                "a value accepted from a damaged serde form holds a collection that is not canonical",
                                json!({"type": ty, "transport": name, "tokens": tok_text(&t), "accepted_as": x.show()}),
                            );
                        } else if same_set {
                            ctx.obs("serde_respelt_lists_accepted", 1);
                            if let Some(why) = v.differs(&x) {
                                ctx.violation(
                                    &format!("C03:{}:serde-respelt-list:{}:differs", T::flavour(), ty),
                                    "a block list spelt in another order / with repeated items was accepted as a different set",
                                    json!({"type": ty, "transport": name, "tokens": tok_text(&t), "original": v.show(), "accepted_as": x.show(), "difference": why}),
                                );
                            }
                        }
                    }
                    Some(Err(_)) => ctx.obs("serde_damaged_rejected", 1),
                    None => {}
                }
            }
        }
        ctx.sig(&format!("serde {} tok {} damaged", ty, mode));
    }
}

//------------ subjects -------------------------------------------------------------

fn as_set(ctx: &mut Ctx, rng: &mut Rng, max_len: usize) -> Option<AsBlocks> {
    let fl = Flavour::As;
    let seq = sequence(fl, rng, max_len);
    let model = fl.model(&seq.blocks);
    let items = seq.blocks.iter().map(|(a, b)| AsBlock::from((Asn::from_u32(*a as u32), Asn::from_u32(*b as u32))));
    let set = match rng.below(3) {
        0 => AsBlocks::from_iter(items),
        1 => {
            let mut b = AsBlocksBuilder::new();
            for x in items {
                b.push(x)
            }
            b.finalize()
        }
        _ => {
            let mut b = AsBlocksBuilder::new();
            b.extend(items);
            b.finalize()
        }
    };
    check_set(ctx, fl, "serde-subject", &observe_as(&set), &model, || json!({"blocks": crate::c03::blocks_json(&seq.blocks)})).then_some(set)
}

fn ip_set(ctx: &mut Ctx, rng: &mut Rng, fl: Flavour, max_len: usize) -> Option<IpBlocks> {
    let seq = sequence(fl, rng, max_len);
    let model = fl.model(&seq.blocks);
    let items: Vec<IpBlock> = seq.blocks.iter().map(|(a, b)| lib_block(fl, *a, *b, rng.below(3))).collect();
    let set = match rng.below(3) {
        0 => IpBlocks::from_iter(items),
        1 => {
            let mut b = IpBlocksBuilder::new();
            for x in items {
                b.push(x)
            }
            b.finalize()
        }
        _ => {
            let mut b = IpBlocksBuilder::new();
            b.extend(items);
            b.finalize()
        }
    };
    check_set(ctx, fl, "serde-subject", &observe_ip(&set), &model, || json!({"flavour": fl.name(), "blocks": crate::c03::blocks_json(&seq.blocks)})).then_some(set)
}

/// One case: three generated collections and everything with a serde form that can be made of them.
fn case(ctx: &mut Ctx, rng: &mut Rng, depth: Depth) {
    let n = if rng.chance(1, 6) { 40 } else { 8 };
    let (Some(a), Some(a2)) = (as_set(ctx, rng, n), as_set(ctx, rng, 6)) else { return };
    let (Some(f), Some(f2)) = (ip_set(ctx, rng, Flavour::V4, n), ip_set(ctx, rng, Flavour::V4, 6)) else { return };
    let (Some(s), Some(s2)) = (ip_set(ctx, rng, Flavour::V6, n), ip_set(ctx, rng, Flavour::V6, 6)) else { return };
    let (f, f2, s, s2) = (Ipv4Blocks::from(f), Ipv4Blocks::from(f2), Ipv6Blocks::from(s), Ipv6Blocks::from(s2));
    let part = |rng: &mut Rng| rng.chance(3, 4);
    let rs = ResourceSet::new(
        if part(rng) { a.clone() } else { AsBlocks::empty() },
        if part(rng) { f.clone() } else { Ipv4Blocks::empty() },
        if part(rng) { s.clone() } else { Ipv6Blocks::empty() },
    );
    let rs2 = ResourceSet::new(a2.clone(), f2.clone(), s2.clone());
    if depth == Depth::Light {
        match rng.below(3) {
            0 => drive(ctx, rng, &f, depth),
            1 => drive(ctx, rng, &s, depth),
            _ => drive(ctx, rng, &rs, depth),
        }
        return;
    }
    drive(ctx, rng, &a, depth);
    drive(ctx, rng, &f, depth);
    drive(ctx, rng, &s, depth);
    drive(ctx, rng, &rs, depth);
    // the rest in turn
    match rng.below(9) {
        0 => drive(ctx, rng, &rs.difference(&rs2), depth),
        1 => {
            let ar = match rng.below(4) {
                0 => AsResources::inherit(),
                1 => AsResources::missing(),
                2 => AsResources::blocks(a.clone()),
                _ => {
                    let mut b = AsResourcesBuilder::new();
                    b.blocks(|b| {
                        for x in a.iter() {
                            b.push(x)
                        }
                    });
                    b.finalize()
                }
            };
            drive(ctx, rng, &ar, depth)
        }
        2 => {
            let c = match rng.below(3) {
                0 => ResourcesChoice::Missing,
                1 => ResourcesChoice::Inherit,
                _ => ResourcesChoice::Blocks(f.clone()),
            };
            drive(ctx, rng, &c, depth)
        }
        3 => drive(ctx, rng, &ResourcesChoice::Blocks(s.clone()), depth),
        4 => {
            let mut l = RequestResourceLimit::new();
            let mask = rng.below(8);
            if mask & 1 != 0 {
                l.with_asn(a.clone())
            }
            if mask & 2 != 0 {
                l.with_ipv4(f.clone())
            }
            if mask & 4 != 0 {
                l.with_ipv6(s.clone())
            }
            drive(ctx, rng, &l, depth)
        }
        5 => drive(ctx, rng, &vec![f.clone(), Ipv4Blocks::empty(), f2.clone()], depth),
        6 => {
            let o = if rng.chance(3, 4) { Some(s.clone()) } else { None };
            drive(ctx, rng, &o, depth)
        }
        7 => drive(ctx, rng, &(a.clone(), f2.clone(), s2.clone()), depth),
        _ => {
            let mut m = BTreeMap::new();
            m.insert("child/1".to_string(), rs.clone());
            m.insert("child-2".to_string(), rs2.clone());
            drive(ctx, rng, &m, depth)
        }
    }
    ctx.obs("serde_cases", 1);
    ctx.drain_chain_hook(|| json!({"serde-case": rs.to_string()}));
}

pub fn run_serde(ctx: &mut Ctx) {
    let mut rng = ctx.rng("serde");
    // the constants first: empty and everything
    if ctx.shard == 0 && ctx.stage != Stage::Miri {
        drive(ctx, &mut rng, &AsBlocks::empty(), Depth::Full);
        drive(ctx, &mut rng, &AsBlocks::all(), Depth::Full);
        drive(ctx, &mut rng, &Ipv4Blocks::empty(), Depth::Full);
        drive(ctx, &mut rng, &Ipv4Blocks::all(), Depth::Full);
        drive(ctx, &mut rng, &Ipv6Blocks::empty(), Depth::Full);
        drive(ctx, &mut rng, &Ipv6Blocks::all(), Depth::Full);
        drive(ctx, &mut rng, &ResourceSet::empty(), Depth::Full);
        drive(ctx, &mut rng, &ResourceSet::all(), Depth::Full);
        drive(ctx, &mut rng, &ResourceSet::all().difference(&ResourceSet::empty()), Depth::Full);
        drive(ctx, &mut rng, &RequestResourceLimit::new(), Depth::Full);
    }
    let cases = ctx.stage_budget((4_800, 160_000), 640, 4, 0);
    let depth = if ctx.stage == Stage::Miri { Depth::Light } else { Depth::Full };
    let _ = Tier::Quick;
    for _ in 0..cases {
        case(ctx, &mut rng, depth);
    }
}
