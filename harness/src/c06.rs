//! C06 — RTR: after any completed exchange the client holds exactly the
//! server's data.
//!
//! Workload: the real `Client` against the real `Server::run`, joined by
//! in-memory duplex pipes with tiny buffers and a byte-level middlebox
//! (`c06_net`), on a current-thread tokio runtime with the clock paused. The
//! harness' `PayloadSource` (`c06_src`) keeps an immutable snapshot per
//! (session, serial). Histories are random op sequences (updates, notifies,
//! steps, reconnects with all kinds of initial client state, new sessions,
//! serial jumps across the u32 wrap, updates while a response is suspended).
//! A second family of histories (`c06_big`) runs the same driver and the same
//! oracle over large data sets, large diffs and single very large PDUs, for
//! every path that depends on the size of a response. A third family
//! (`c06_foreign`) puts the real client in front of a scripted cache that is
//! not the library's server and uses the freedoms the RFCs give a sender
//! (reserved flag bits and fields, any order, items with a history inside one
//! answer, timing at the ends of its ranges); it has its own model of what a
//! transcript prescribes, written from the documents.
//!
//! Oracle (from the statement): after every `Client::step()` that returned
//! `Ok`, replay the (action, payload) log the target was handed on the
//! client's previous data (reset => start empty, announce inserts / replaces
//! the ASPA of that customer, withdraw removes) and compare with the snapshot
//! the source recorded for the (session, serial) in the End of Data PDU seen
//! on the wire, restricted to the payload types of the version in that PDU;
//! `Client::state()` must be that state; for version >= 1 the timing handed to
//! `PayloadTarget::apply` must be the source's. Steps ending in `Err` assert
//! nothing.

use crate::c06_net::{Eod, Listener, Middlebox, ServerSock, TapLog};
use crate::c06_src::{from_lib, render_item, Data, DiffStyle, Item, KeyK, OriginK, Snap, Source, StepObs, TimingT, Window};
use crate::core::{panic_location, take_last_panic, Ctx, Rng, Stage, Tier};
use rpki::rtr::client::{Client, PayloadError, PayloadTarget, PayloadUpdate};
use rpki::rtr::payload::{Action, Payload, Timing};
use rpki::rtr::server::{NotifySender, Server};
use rpki::rtr::state::{Serial, State};
use serde_json::{json, Value};
use std::sync::{Arc, Mutex};
use std::time::Duration;
use tokio::io::DuplexStream;
use tokio::sync::mpsc::{unbounded_channel, UnboundedSender};
use tokio::task::JoinHandle;

#[path = "c06_keys.rs"]
mod c06_keys;
use c06_keys::{has_maxlen_neighbours, run_laws, RefTargets};

#[path = "c06_big.rs"]
mod c06_big;
use c06_big::{BigKind, BigPlan};

#[path = "c06_foreign.rs"]
mod c06_foreign;

//------------ target --------------------------------------------------------

pub struct Upd {
    reset: bool,
    items: Vec<(Action, Payload)>,
}

impl PayloadUpdate for Upd {
    fn push_update(&mut self, action: Action, payload: Payload) -> Result<(), PayloadError> {
        self.items.push((action, payload));
        Ok(())
    }
}

pub struct Applied {
    reset: bool,
    items: Vec<(Action, Payload)>,
    timing: Timing,
}

#[derive(Default)]
pub struct Target {
    applied: Vec<Applied>,
    starts: u32,
}

impl PayloadTarget for Target {
    type Update = Upd;

    fn start(&mut self, reset: bool) -> Upd {
        self.starts += 1;
        Upd { reset, items: Vec::new() }
    }

    fn apply(&mut self, update: Upd, timing: Timing) -> Result<(), PayloadError> {
        self.applied.push(Applied { reset: update.reset, items: update.items, timing });
        Ok(())
    }
}

//------------ history description -------------------------------------------

#[derive(Clone, Copy, Debug, PartialEq, Eq)]
enum ConnKind {
    KeepStateAndData,
    StaleState,
    ForeignSession,
    NoState,
}

impl ConnKind {
    fn name(self) -> &'static str {
        match self {
            ConnKind::KeepStateAndData => "keep",
            ConnKind::StaleState => "stale",
            ConnKind::ForeignSession => "foreign",
            ConnKind::NoState => "nostate",
        }
    }
}

#[derive(Clone, Debug)]
enum Op {
    Update { changes: u8 },
    Notify { settle: u8 },
    Step,
    Reconnect { kind: ConnKind, v_c: u8, cap: u8 },
    NewSession { keep_data: bool },
    SerialJump,
    UpdateDuringResponse { yields: u8, notify: bool, changes: u8 },
    /// an update of a large data set (histories of `c06_big` only)
    Big(BigKind),
}

impl Op {
    fn kind(&self) -> &'static str {
        match self {
            Op::Update { .. } => "U",
            Op::Notify { .. } => "N",
            Op::Step => "S",
            Op::Reconnect { .. } => "R",
            Op::NewSession { .. } => "X",
            Op::SerialJump => "J",
            Op::UpdateDuringResponse { .. } => "D",
            Op::Big(_) => "B",
        }
    }
}

#[derive(Clone, Debug)]
struct Cfg {
    seed: u64,
    v_c: u8,
    cap: u8,
    c_buf: usize,
    s_buf: usize,
    window: Window,
    style: DiffStyle,
    aspa_wd_with_providers: bool,
    first_kind: ConnKind,
    pre_updates: u8,
    first_serial: u32,
    first_session: u16,
    /// reduced sizes for the slow instruments (Miri)
    light: bool,
    /// a history over large data sets (`c06_big`)
    big: Option<BigPlan>,
    ops: Vec<Op>,
}

fn pick_version(rng: &mut Rng) -> u8 {
    // version 2 most often (it carries every payload type)
    match rng.below(6) {
        0 => 0,
        1 | 2 => 1,
        _ => 2,
    }
}

fn pick_cap(rng: &mut Rng) -> u8 {
    match rng.below(5) {
        0 => 0,
        1 => 1,
        _ => 2,
    }
}

fn pick_conn_kind(rng: &mut Rng) -> ConnKind {
    match rng.below(8) {
        0..=2 => ConnKind::KeepStateAndData,
        3 | 4 => ConnKind::StaleState,
        5 => ConnKind::ForeignSession,
        _ => ConnKind::NoState,
    }
}

fn pick_buf(rng: &mut Rng) -> usize {
    match rng.below(10) {
        0 => 1,
        1 => rng.range(2, 7) as usize,
        2 => 8,
        3 => rng.range(9, 15) as usize,
        4 => 12,
        5 => rng.range(16, 40) as usize,
        6 => 20,
        7 => rng.range(41, 200) as usize,
        8 => 64,
        _ => 4096,
    }
}

fn pick_buf_light(rng: &mut Rng) -> usize {
    *rng.pick(&[5usize, 8, 12, 20, 33, 64, 4096])
}

fn gen_cfg(seed: u64, max_ops: u64, light: bool) -> Cfg {
    let mut rng = Rng::new(seed);
    let window = match rng.below(6) {
        0 => Window::Never,
        1 => Window::Last(1),
        2 => Window::Last(rng.range(2, 4) as usize),
        _ => Window::Unbounded,
    };
    let style = match rng.below(4) {
        0 => DiffStyle::AspaWithdrawFirst,
        1 => DiffStyle::Concatenated,
        _ => DiffStyle::Minimal,
    };
    let first_serial = match rng.below(8) {
        0 => 0,
        1 => u32::MAX - rng.below(4) as u32,
        2 => 0x7FFF_FFFF - rng.below(3) as u32,
        3 => 0x8000_0000 + rng.below(3) as u32,
        4 => 1,
        _ => rng.next_u32(),
    };
    let nops = rng.range(if light { 2 } else { 4 }, max_ops.max(4));
    let mut ops = Vec::new();
    for _ in 0..nops {
        let op = match rng.below(100) {
            0..=31 => Op::Step,
            32..=54 => Op::Update { changes: rng.below(7) as u8 },
            55..=67 => {
                let yields = match rng.below(10) {
                    0..=3 => rng.below(3),
                    4..=6 => rng.range(3, 8),
                    7 | 8 => rng.range(8, 24),
                    _ => rng.range(24, 80),
                } as u8;
                Op::UpdateDuringResponse { yields, notify: rng.chance(1, 3), changes: rng.range(1, 6) as u8 }
            }
            68..=74 => Op::Notify { settle: rng.below(4) as u8 },
            75..=86 => Op::Reconnect { kind: pick_conn_kind(&mut rng), v_c: pick_version(&mut rng), cap: pick_cap(&mut rng) },
            87..=91 => Op::NewSession { keep_data: rng.bool() },
            _ => Op::SerialJump,
        };
        ops.push(op);
    }
    // every history ends with a step so that the last updates are observed
    ops.push(Op::Step);
    Cfg {
        seed,
        v_c: pick_version(&mut rng),
        cap: pick_cap(&mut rng),
        c_buf: if light { pick_buf_light(&mut rng) } else { pick_buf(&mut rng) },
        s_buf: if light { pick_buf_light(&mut rng) } else { pick_buf(&mut rng) },
        window,
        style,
        aspa_wd_with_providers: rng.bool(),
        first_kind: pick_conn_kind(&mut rng),
        pre_updates: rng.below(4) as u8,
        first_serial,
        first_session: rng.next_u32() as u16,
        light,
        big: None,
        ops,
    }
}

fn cfg_json(cfg: &Cfg) -> Value {
    let large = match &cfg.big {
        Some(p) => json!({
            "matrix_index": p.index,
            "negotiated_version": p.version,
            "size_class": p.class,
            "payload_octets_aimed_at": p.target_octets,
            "shape": format!("{:?}", p.shape),
        }),
        None => Value::Null,
    };
    json!({
        "history_seed": cfg.seed,
        "large_data": large,
        "client_initial_version": cfg.v_c,
        "old_cache_cap": cfg.cap,
        "client_pipe": cfg.c_buf,
        "server_pipe": cfg.s_buf,
        "diff_window": format!("{:?}", cfg.window),
        "diff_style": format!("{:?}", cfg.style),
        "aspa_withdraw_with_providers": cfg.aspa_wd_with_providers,
        "first_connection": cfg.first_kind.name(),
        "updates_before_first_connection": cfg.pre_updates,
        "first_state": format!("{}:{}", cfg.first_session, cfg.first_serial),
        "light": cfg.light,
        "ops": cfg.ops.iter().map(|o| format!("{:?}", o)).collect::<Vec<_>>(),
    })
}

//------------ payload universe ----------------------------------------------

struct Universe {
    origins: Vec<OriginK>,
    /// groups of origins that are each other's closest neighbours as
    /// collection keys: same prefix and ASN with different max length (one of
    /// them max length = prefix length, built without explicit max length when
    /// the ASN is even), same prefix and max length with the next ASN
    families: Vec<Vec<OriginK>>,
    keys: Vec<KeyK>,
    customers: Vec<u32>,
    providers: Vec<u32>,
    light: bool,
}

fn pick_asn(rng: &mut Rng) -> u32 {
    match rng.below(8) {
        0 => 0,
        1 => u32::MAX,
        2 => 65_535,
        3 => 65_536,
        4 => 23_456,
        _ => rng.next_u32(),
    }
}

fn gen_universe(rng: &mut Rng, light: bool) -> Universe {
    let mut origins: Vec<OriginK> = Vec::new();
    for i in 0..7 {
        let len = match i {
            0 => 0,
            1 => 32,
            2 => 24,
            _ => rng.range(1, 31) as u8,
        };
        let addr = if len == 0 { 0 } else { rng.next_u32() & (u32::MAX << (32 - len as u32)) };
        let maxlen = match rng.below(3) {
            0 => len,
            1 => 32,
            _ => rng.range(len as u64, 32) as u8,
        };
        origins.push((false, addr as u128, len, maxlen, pick_asn(rng)));
    }
    for i in 0..6 {
        let len = match i {
            0 => 0,
            1 => 128,
            2 => 96,
            3 => 48,
            _ => rng.range(1, 127) as u8,
        };
        let mut addr = if len == 0 { 0 } else { rng.next_u128() & (u128::MAX << (128 - len as u32)) };
        if i == 2 {
            addr = 0xffffu128 << 32; // ::ffff:0:0/96
        }
        let maxlen = match rng.below(3) {
            0 => len,
            1 => 128,
            _ => rng.range(len as u64, 128) as u8,
        };
        origins.push((true, addr, len, maxlen, pick_asn(rng)));
    }
    // near-duplicates: same prefix, other max length or other asn
    for _ in 0..4 {
        let mut k = *rng.pick(&origins);
        let fam_max = if k.0 { 128 } else { 32 };
        if rng.bool() && k.2 < fam_max {
            k.3 = if k.3 == fam_max { k.2 } else { k.3 + 1 };
        } else {
            k.4 = k.4.wrapping_add(1);
        }
        if !origins.contains(&k) {
            origins.push(k);
        }
    }
    // neighbour families (both address families): what an ordered or hashed
    // collection at the client's target has to keep apart / find again
    let mut families: Vec<Vec<OriginK>> = Vec::new();
    for v6 in [false, true] {
        let fam_max: u8 = if v6 { 128 } else { 32 };
        let len = rng.range(8, fam_max as u64 - 2) as u8;
        let addr = if v6 {
            rng.next_u128() & (u128::MAX << (128 - len as u32))
        } else {
            (rng.next_u32() & (u32::MAX << (32 - len as u32))) as u128
        };
        let even = pick_asn(rng) & !1;
        let mut fam: Vec<OriginK> = Vec::new();
        for (ml, asn) in [(len, even), (len + 1, even), (fam_max, even), (len, even | 1), (len + 1, even | 1)] {
            let k = (v6, addr, len, ml, asn);
            fam.push(k);
            if !origins.contains(&k) {
                origins.push(k);
            }
        }
        families.push(fam);
    }
    let mut keys: Vec<KeyK> = Vec::new();
    for i in 0..4 {
        let mut ski = [0u8; 20];
        ski.copy_from_slice(&rng.bytes(20));
        let len = match i {
            0 => 91,
            1 => 0,
            2 => 1,
            _ => rng.range(2, 220) as usize,
        };
        keys.push((ski, pick_asn(rng), rng.bytes(len)));
    }
    let mut k = keys[0].clone();
    k.1 = k.1.wrapping_add(1);
    keys.push(k);
    let mut k = keys[0].clone();
    k.2[90] ^= 1;
    keys.push(k);
    let mut k = keys[0].clone();
    k.0[19] ^= 1;
    keys.push(k);
    let mut customers = vec![pick_asn(rng), rng.next_u32(), rng.next_u32(), 0, u32::MAX];
    customers.sort();
    customers.dedup();
    let providers = (0..8).map(|_| pick_asn(rng)).collect();
    Universe { origins, families, keys, customers, providers, light }
}

fn gen_providers(rng: &mut Rng, uni: &Universe) -> Vec<u32> {
    let n = match rng.below(20) {
        0 => 0,
        1 if !uni.light => rng.range(50, 300),
        _ => rng.range(1, 5),
    };
    (0..n).map(|_| if n > 8 { rng.next_u32() } else { *rng.pick(&uni.providers) }).collect()
}

fn toggle_origin(d: &mut Data, rng: &mut Rng, uni: &Universe) {
    let k = *rng.pick(&uni.origins);
    if !d.origins.remove(&k) {
        d.origins.insert(k);
    }
}

fn next_data(cur: &Data, changes: u8, rng: &mut Rng, uni: &Universe) -> Data {
    let mut d = cur.clone();
    match rng.below(24) {
        0 => d = Data::default(),
        1 => d.origins.clear(),
        2 => d.aspas.clear(),
        3 => d.keys.clear(),
        4 if !uni.light => {
            d.origins.extend(uni.origins.iter().copied());
            d.keys.extend(uni.keys.iter().cloned());
        }
        5 | 6 | 7 => {
            // a whole neighbour family at once; later toggles take single
            // members out again
            d.origins.extend(rng.pick(&uni.families).iter().copied());
        }
        _ => {}
    }
    for _ in 0..changes {
        match rng.below(8) {
            0 | 1 | 2 => toggle_origin(&mut d, rng, uni),
            3 => {
                let k = rng.pick(&uni.keys).clone();
                if !d.keys.remove(&k) {
                    d.keys.insert(k);
                }
            }
            4 | 5 => {
                let c = *rng.pick(&uni.customers);
                if d.aspas.remove(&c).is_none() {
                    d.aspas.insert(c, gen_providers(rng, uni));
                }
            }
            6 => {
                // provider change of an existing ASPA (or a new one)
                let c = match d.aspas.keys().nth(rng.usize_below(d.aspas.len().max(1))) {
                    Some(c) => *c,
                    None => *rng.pick(&uni.customers),
                };
                let mut p = gen_providers(rng, uni);
                if d.aspas.get(&c) == Some(&p) {
                    p.push(1);
                }
                d.aspas.insert(c, p);
            }
            _ => {
                // replace: one origin out, one in
                if let Some(k) = d.origins.iter().nth(rng.usize_below(d.origins.len().max(1))).copied() {
                    d.origins.remove(&k);
                }
                toggle_origin(&mut d, rng, uni);
            }
        }
    }
    d
}

fn gen_timing(rng: &mut Rng) -> TimingT {
    match rng.below(12) {
        0 => (0, 0, 0),
        1 => (30_000_000, u32::MAX, u32::MAX),
        2 => (3600, 600, 7200),
        3 => (1, 1, 600),
        4 => (86_400, 7200, 172_800),
        _ => (rng.range(1, 86_400) as u32, rng.range(1, 7200) as u32, rng.range(600, 172_800) as u32),
    }
}

//------------ driver --------------------------------------------------------

struct Conn {
    client: Client<DuplexStream, Target>,
    tap: Arc<Mutex<TapLog>>,
    mb: JoinHandle<()>,
    kind: ConnKind,
    v_c: u8,
    cap: u8,
    broken: bool,
    ok_steps: u32,
}

/// Virtual-time guard around one step. The refresh values the source hands
/// out stay below 30 000 000 s and the guard below tokio's timer wheel range
/// (2^36 ms, about 795 days): timers beyond that range corrupt the wheel of
/// tokio 1.52 under the paused clock (use after free at runtime shutdown),
/// which is not the code under test.
const STEP_GUARD: Duration = Duration::from_secs(40_000_000);

struct Driver<'a> {
    ctx: &'a mut Ctx,
    cfg: &'a Cfg,
    rng: Rng,
    uni: Universe,
    source: Source,
    notify: NotifySender,
    conn_tx: UnboundedSender<ServerSock>,
    server_updates: Arc<Mutex<Vec<(u16, u32, bool)>>>,
    conn: Option<Conn>,
    /// the data the client holds according to everything it was handed
    cdata: Data,
    /// protocol version `cdata` belongs to
    cdata_version: u8,
    /// the same data held in three reference targets keyed by the library's
    /// `Eq`, `Ord` and `Hash` (see `c06_keys`)
    refs: RefTargets,
    trace: Vec<String>,
    since_step: Vec<&'static str>,
    steps: u64,
    ok_steps: u64,
    aborted: u64,
    wrapped: bool,
    dead: bool,
}

enum StepResult {
    Ok,
    Err(String),
    Stalled,
}

impl<'a> Driver<'a> {
    fn state_str(s: Option<State>) -> String {
        match s {
            Some(s) => format!("{}:{}", s.session(), u32::from(s.serial())),
            None => "none".into(),
        }
    }

    fn new_snap(&mut self, data: Data, new_session: bool, jump: bool) -> Snap {
        let cur = self.source.current();
        let timing = if rng_keep(&mut self.rng) { cur.timing } else { gen_timing(&mut self.rng) };
        let (session, mut serial) = if new_session {
            let mut s = self.rng.next_u32() as u16;
            while self.source.session_used(s) {
                s = s.wrapping_add(1);
            }
            let serial = match self.rng.below(4) {
                0 => cur.serial,
                1 => 0,
                2 => u32::MAX,
                _ => self.rng.next_u32(),
            };
            (s, serial)
        } else if jump {
            let serial = match self.rng.below(4) {
                0 => u32::MAX - self.rng.below(3) as u32,
                1 => cur.serial.wrapping_add(0x7FFF_FFFF),
                2 => cur.serial.wrapping_add(self.rng.range(2, 1000) as u32),
                _ => cur.serial.wrapping_add(self.rng.range(2, 0x7FFF_FFFF) as u32),
            };
            (cur.session, serial)
        } else {
            (cur.session, cur.serial.wrapping_add(1))
        };
        while self.source.knows(session, serial) {
            serial = serial.wrapping_add(1);
        }
        if !new_session && serial < cur.serial {
            self.wrapped = true;
        }
        Snap::new(session, serial, timing, data, &mut self.rng)
    }

    fn describe_change(old: &Data, new: &Data) -> String {
        let o = (new.origins.difference(&old.origins).count(), old.origins.difference(&new.origins).count());
        let k = (new.keys.difference(&old.keys).count(), old.keys.difference(&new.keys).count());
        let mut aa = 0;
        let mut ar = 0;
        let mut ac = 0;
        for (c, p) in &new.aspas {
            match old.aspas.get(c) {
                None => aa += 1,
                Some(q) if q != p => ac += 1,
                _ => {}
            }
        }
        for c in old.aspas.keys() {
            if !new.aspas.contains_key(c) {
                ar += 1;
            }
        }
        format!("origins +{} -{}, keys +{} -{}, aspas +{} -{} ~{}", o.0, o.1, k.0, k.1, aa, ar, ac)
    }

    fn do_update(&mut self, changes: u8, new_session: bool, keep_data: bool, jump: bool) {
        let cur = self.source.current();
        let data = if keep_data { cur.data.clone() } else { next_data(&cur.data, changes, &mut self.rng, &self.uni) };
        let what = Self::describe_change(&cur.data, &data);
        let snap = self.new_snap(data, new_session, jump);
        self.trace.push(format!(
            "{} -> {}:{} ({}; {} items; timing {:?})",
            if new_session { "new-session" } else if jump { "serial-jump" } else { "update" },
            snap.session, snap.serial, what, snap.data.len(), snap.timing
        ));
        self.source.commit(snap, new_session);
    }

    /// One update of a large data set (two commits for a flap).
    fn do_big_update(&mut self, kind: &BigKind) {
        let plan = match &self.cfg.big {
            Some(p) => p.clone(),
            None => return,
        };
        let cur = self.source.current();
        let sets = c06_big::big_next(&cur.data, kind, &plan, &mut self.rng);
        let mut prev: Data = cur.data.clone();
        for data in sets {
            let what = Self::describe_change(&prev, &data);
            let octets = c06_big::data_octets(&data, plan.version);
            let snap = self.new_snap(data.clone(), false, false);
            self.trace.push(format!(
                "large update {:?} -> {}:{} ({}; {} items, about {} octets of payload PDUs under version {}; timing {:?})",
                kind, snap.session, snap.serial, what, snap.data.len(), octets, plan.version, snap.timing
            ));
            self.source.commit(snap, false);
            prev = data;
        }
    }

    fn junk(&mut self) -> Data {
        match self.rng.below(3) {
            0 => Data::default(),
            1 => {
                let all = self.source.all();
                self.rng.pick(&all).data.clone()
            }
            _ => next_data(&Data::default(), 6, &mut self.rng, &self.uni),
        }
    }

    async fn connect(&mut self, kind: ConnKind, v_c: u8, cap: u8) {
        let neg = v_c.min(cap).min(2);
        let prev: Option<Option<State>> = self.conn.take().map(|c| {
            c.mb.abort();
            c.client.state()
        });
        let (state, data): (Option<State>, Data) = match kind {
            ConnKind::KeepStateAndData => match prev {
                Some(Some(st)) => {
                    if self.cdata_version == neg {
                        (Some(st), self.cdata.clone())
                    } else if let Some(snap) = self.source.lookup(st.session(), u32::from(st.serial())) {
                        // the data belonging to a state depends on the version
                        (Some(st), snap.data.restrict(neg))
                    } else {
                        (None, self.cdata.clone())
                    }
                }
                Some(None) => (None, self.cdata.clone()),
                None => {
                    // a client that synchronised with this server earlier
                    let cur = self.source.current();
                    (Some(State::from_parts(cur.session, Serial::from(cur.serial))), cur.data.restrict(neg))
                }
            },
            ConnKind::StaleState => {
                let chain = self.source.chain();
                let snap = self.rng.pick(&chain).clone();
                (Some(State::from_parts(snap.session, Serial::from(snap.serial))), snap.data.restrict(neg))
            }
            ConnKind::ForeignSession => {
                let cur = self.source.current();
                let all = self.source.all();
                let others: Vec<_> = all.iter().filter(|s| s.session != cur.session).collect();
                let (session, serial) = if !others.is_empty() && self.rng.bool() {
                    let s = self.rng.pick(&others);
                    (s.session, s.serial)
                } else {
                    let mut s = self.rng.next_u32() as u16;
                    while self.source.session_used(s) {
                        s = s.wrapping_add(1);
                    }
                    (s, if self.rng.bool() { cur.serial } else { self.rng.next_u32() })
                };
                (Some(State::from_parts(session, Serial::from(serial))), self.junk())
            }
            ConnKind::NoState => (None, self.junk()),
        };
        if self.cfg.big.is_none() {
            self.refs = RefTargets::from_data(&data);
        }
        self.cdata = data;
        self.cdata_version = neg;
        let (c_end, mb_c) = tokio::io::duplex(self.cfg.c_buf);
        let (mb_s, s_end) = tokio::io::duplex(self.cfg.s_buf);
        let tap = Arc::new(Mutex::new(TapLog::default()));
        let mb = tokio::spawn(Middlebox::new(mb_c, mb_s, cap, tap.clone()));
        let _ = self.conn_tx.send(ServerSock::new(s_end, self.server_updates.clone()));
        let client = Client::with_initial_version(v_c, c_end, Target::default(), state);
        self.trace.push(format!(
            "connect {} client-version={} old-cache-cap={} state={} data={} items",
            kind.name(), v_c, cap, Self::state_str(state), self.cdata.len()
        ));
        self.ctx.obs(&format!("connect_{}", kind.name()), 1);
        self.conn = Some(Conn { client, tap, mb, kind, v_c, cap, broken: false, ok_steps: 0 });
        for _ in 0..self.rng.below(3) {
            tokio::task::yield_now().await;
        }
    }

    /// Runs one `Client::step()`; returns the result and the source-side
    /// observation taken the moment the step returned.
    async fn raw_step(&mut self) -> (StepResult, StepObs) {
        let conn = self.conn.as_mut().unwrap();
        {
            let mut t = conn.tap.lock().unwrap();
            let partial = t.partial_writes;
            *t = TapLog::default();
            t.partial_writes = partial;
        }
        self.source.begin_step();
        self.server_updates.lock().unwrap().clear();
        let r = tokio::time::timeout(STEP_GUARD, conn.client.step()).await;
        let obs = self.source.step_obs();
        let r = match r {
            Err(_) => StepResult::Stalled,
            Ok(Err(e)) => StepResult::Err(format!("{:?}: {}", e.kind(), e)),
            Ok(Ok(())) => StepResult::Ok,
        };
        (r, obs)
    }

    async fn step(&mut self, updater: Option<(u8, bool, u8)>) {
        if self.conn.as_ref().map(|c| c.broken).unwrap_or(true) {
            // a failed step ends a connection (as `Client::run` does)
            let (kind, v_c, cap) = match &self.conn {
                Some(c) => (pick_conn_kind(&mut self.rng), c.v_c, c.cap),
                None => (self.cfg.first_kind, self.cfg.v_c, self.cfg.cap),
            };
            self.connect(kind, v_c, cap).await;
        }
        let mut handle = None;
        if let Some((yields, notify, changes)) = updater {
            let cur = self.source.current();
            let data = next_data(&cur.data, changes, &mut self.rng, &self.uni);
            let what = Self::describe_change(&cur.data, &data);
            let snap = self.new_snap(data, false, false);
            self.trace.push(format!(
                "updater armed: {} scheduler rounds after the response starts -> {}:{} ({}; timing {:?}){}",
                yields, snap.session, snap.serial, what, snap.timing, if notify { " + notify" } else { "" }
            ));
            let src = self.source.clone();
            let mut ntf = self.notify.clone();
            let trigger = self.source.arm();
            handle = Some(tokio::spawn(async move {
                // wait for the server to start its response, then let the
                // other tasks run `yields` scheduler rounds
                trigger.notified().await;
                for _ in 0..yields {
                    tokio::task::yield_now().await;
                }
                let during = src.commit(snap, false);
                if notify {
                    ntf.notify();
                }
                during
            }));
        }
        self.steps += 1;
        let (res, obs) = self.raw_step().await;
        let mut udr_hit = false;
        if let Some(h) = handle {
            self.source.disarm();
            udr_hit = h.await.unwrap_or(false);
            self.since_step.push(if udr_hit { "D!" } else { "D" });
        }
        match res {
            StepResult::Ok => {
                self.ok_steps += 1;
                self.check_step(&obs, udr_hit);
                if let Some(c) = self.conn.as_mut() {
                    c.ok_steps += 1;
                }
            }
            StepResult::Err(text) => {
                self.aborted += 1;
                let conn = self.conn.as_mut().unwrap();
                conn.broken = true;
                let tap = conn.tap.lock().unwrap().clone();
                let class = abort_class(&text);
                self.ctx.obs("aborted_steps", 1);
                self.ctx.obs(&format!("aborted:{}", class), 1);
                if tap.notifies > 0 {
                    self.ctx.obs("aborted_steps_with_serial_notify_in_the_way", 1);
                }
                self.trace.push(format!("step -> Err({}) [notify pdus seen {}, server errors {:?}]", text, tap.notifies, tap.server_errors));
                if self.ctx.wants_sample("aborted-step") {
                    let v = json!({"history": cfg_json(self.cfg), "trace": self.trace.clone()});
                    self.ctx.sample("aborted-step", || v);
                }
            }
            StepResult::Stalled => {
                self.aborted += 1;
                self.conn.as_mut().unwrap().broken = true;
                self.ctx.obs("aborted_steps", 1);
                self.ctx.obs("stalled_steps", 1);
                self.trace.push("step -> stalled (virtual-time guard fired)".into());
            }
        }
        self.since_step.clear();
    }

    fn violation(&mut self, sig: &str, desc: &str, extra: Value) {
        let detail = json!({
            "history": cfg_json(self.cfg),
            "trace": self.trace.clone(),
            "failing_step": extra,
        });
        self.ctx.violation(sig, desc, detail);
        self.dead = true;
    }

    fn check_step(&mut self, obs: &StepObs, udr_hit: bool) {
        let conn = self.conn.as_mut().unwrap();
        let applied: Vec<Applied> = std::mem::take(&mut conn.client.target_mut().applied);
        let tap = conn.tap.lock().unwrap().clone();
        let cstate = conn.client.state();
        let kind = conn.kind;
        let first_on_conn = conn.ok_steps == 0;
        if tap.desync {
            self.ctx.notes.push("C06: the tap lost PDU framing on a completed step; step not evaluated".into());
            self.dead = true;
            return;
        }
        let eod: Eod = match tap.eods.last() {
            Some(e) => e.clone(),
            None => {
                self.ctx.notes.push("C06: a step completed without an End of Data PDU crossing the tap; step not evaluated".into());
                self.dead = true;
                return;
            }
        };
        self.ctx.eval();
        let ver = eod.version;
        // ---- replay the target's log on the previous data
        let prev = self.cdata.clone();
        let mut got = prev.clone();
        let mut redundant_announce = 0u64;
        let mut redundant_withdraw = 0u64;
        let mut n_items = 0usize;
        let mut any_reset = false;
        for a in &applied {
            if a.reset {
                got = Data::default();
                any_reset = true;
            }
            for (action, payload) in &a.items {
                n_items += 1;
                let item: Item = from_lib(payload);
                let announce = match action {
                    Action::Announce => true,
                    Action::Withdraw => false,
                };
                if !got.apply(announce, &item) {
                    if announce {
                        redundant_announce += 1;
                    } else {
                        redundant_withdraw += 1;
                    }
                }
            }
        }
        let fallback = tap.cache_resets > 0;
        let resp = if any_reset {
            if fallback { "fallback-reset" } else { "reset" }
        } else {
            "serial"
        };
        let states = obs.states.clone();
        let big = self.cfg.big.is_some();
        let step_desc = |applied: &[Applied]| -> Value {
            let mut log_text: Vec<String> = Vec::new();
            // a large history is regenerated from its seed; its detail names
            // the differing items literally and keeps the rest short
            let cap = if big { 16 } else { 400 };
            for a in applied {
                log_text.push(format!("apply(reset={}, timing=({},{},{}))", a.reset, a.timing.refresh, a.timing.retry, a.timing.expire));
                for (action, payload) in a.items.iter().take(cap) {
                    log_text.push(format!("{} {}", if matches!(action, Action::Announce) { "announce" } else { "withdraw" }, short(render_item(&from_lib(payload)))));
                }
                if a.items.len() > cap {
                    log_text.push(format!("... {} more items", a.items.len() - cap));
                }
            }
            json!({
                "negotiated_version": ver,
                "response": resp,
                "end_of_data": {"session": eod.session, "serial": eod.serial, "timing": format!("{:?}", eod.timing)},
                "client_state_after": Self::state_str(cstate),
                "source_states_during_step": states.iter().map(|s| format!("{}:{}", s.0, s.1)).collect::<Vec<_>>(),
                "update_during_response": udr_hit,
                "target_log": log_text,
                "previous_data": if big { prev.render_bounded(8) } else { prev.render() },
                "payload_pdus_in_response": tap.payload_pdus,
                "payload_octets_in_response": tap.payload_octets,
                "longest_payload_pdu": tap.max_payload_pdu,
            })
        };
        // ---- the snapshot named by End of Data
        let snap = match self.source.lookup(eod.session, eod.serial) {
            Some(s) => s,
            None => {
                self.violation(
                    "C06:end-of-data-names-state-the-source-never-reported",
                    &format!("End of Data names {}:{} but the source never reported that state", eod.session, eod.serial),
                    step_desc(&applied),
                );
                return;
            }
        };
        let want = snap.data.restrict(ver);
        if got != want {
            let class_list = got.diff_classes(&want);
            let classes = class_list.join("+");
            // signature: payload types affected (not the missing/extra detail,
            // which would fan one defect out over dozens of signatures)
            let mut types: Vec<&str> = class_list.iter().map(|c| c.split('-').next().unwrap_or(c)).collect();
            types.dedup();
            let types = types.join("+");
            let mut d = step_desc(&applied);
            let mut where_text = String::new();
            if big {
                d["replayed_client_data"] = got.render_bounded(8);
                d["source_snapshot_restricted"] = want.render_bounded(8);
                let (list, text) = self.locate_differences(&got, &want, &snap, any_reset, ver);
                d["differing_items"] = list;
                where_text = text;
            } else {
                d["replayed_client_data"] = got.render();
                d["source_snapshot_restricted"] = want.render();
            }
            self.violation(
                &format!("C06:client-data-differs-from-source-snapshot:v{}:{}:{}", ver, resp, types),
                &format!(
                    "after a completed {} step (version {}) the target's log applied to the previous data differs from the source snapshot {}:{} ({}){}",
                    resp, ver, eod.session, eod.serial, classes, where_text
                ),
                d,
            );
            self.cdata = got;
            return;
        }
        // ---- the same log applied at targets that key the payload by the
        // library's own Eq / Ord / Hash
        // (not for the large data sets: the `==`-only target is quadratic)
        let implicit_before = self.refs.implicit_maxlen_held;
        if !big {
            for a in &applied {
                if a.reset {
                    self.refs.clear();
                }
                for (action, payload) in &a.items {
                    self.refs.apply(*action, payload);
                }
            }
        }
        for (which, data, held) in if big { Vec::new() } else { self.refs.read_back() } {
            if data != want || held != want.len() {
                let class_list = data.diff_classes(&want);
                let mut types: Vec<&str> = class_list.iter().map(|c| c.split('-').next().unwrap_or(c)).collect();
                types.dedup();
                let types = if types.is_empty() { "duplicates".to_string() } else { types.join("+") };
                let mut d = step_desc(&applied);
                d["reference_target"] = json!(which);
                d["reference_target_holds"] = self.refs.render(which);
                d["reference_target_elements"] = json!(held);
                d["source_snapshot_restricted"] = want.render();
                self.violation(
                    &format!("C06:client-data-differs-from-source-snapshot-at-{}-target:{}:{}", which, resp, types),
                    &format!(
                        "after a completed {} step (version {}) a target that keeps the payload handed to it in a {} holds {} elements ({}) while the source snapshot {}:{} has {}: the library's key comparison collapses, duplicates or loses items",
                        resp, ver, which, held, if class_list.is_empty() { "same items counted twice".to_string() } else { class_list.join("+") }, eod.session, eod.serial, want.len()
                    ),
                    d,
                );
                self.cdata = got;
                return;
            }
        }
        if !big {
            self.ctx.obs("reference_target_comparisons", 3);
        }
        if has_maxlen_neighbours(&want) {
            self.ctx.obs("steps_with_same_prefix_and_asn_under_two_max_lengths", 1);
        }
        if !big && implicit_before > self.refs.implicit_maxlen_held && !any_reset {
            self.ctx.obs("serial_steps_removing_an_origin_held_without_explicit_max_length", 1);
        }
        // ---- stored state
        let state_ok = match cstate {
            Some(s) => s.session() == eod.session && u32::from(s.serial()) == eod.serial,
            None => false,
        };
        if !state_ok {
            self.violation(
                &format!("C06:client-state-differs-from-end-of-data:{}", resp),
                &format!("Client::state() is {} after a completed step whose End of Data named {}:{}", Self::state_str(cstate), eod.session, eod.serial),
                step_desc(&applied),
            );
            self.cdata = got;
            return;
        }
        // ---- timing (version 1 and up)
        if ver >= 1 {
            if let Some(a) = applied.last() {
                let t = (a.timing.refresh, a.timing.retry, a.timing.expire);
                let mut acceptable: Vec<TimingT> = vec![snap.timing];
                // the source's timing while the exchange ran (it may have moved
                // on to a newer state before End of Data was written)
                for (se, sn) in &obs.states {
                    if let Some(s) = self.source.lookup(*se, *sn) {
                        acceptable.push(s.timing);
                    }
                }
                if !acceptable.contains(&t) {
                    let mut d = step_desc(&applied);
                    d["timing_handed_to_target"] = json!(format!("{:?}", t));
                    d["source_timing"] = json!(format!("{:?}", acceptable));
                    self.violation(
                        &format!("C06:timing-differs-from-source:v{}:{}", ver, resp),
                        &format!("version {}: timing handed to the target {:?} is not the source's {:?}", ver, t, snap.timing),
                        d,
                    );
                    self.cdata = got;
                    return;
                }
                if t != snap.timing {
                    // observation, not a verdict: the server reads the
                    // source's timing when it writes End of Data, i.e. possibly
                    // after the source moved on from the state it names
                    self.ctx.obs("timing_of_newer_state_than_end_of_data", 1);
                    if self.ctx.wants_sample("timing-of-newer-state") {
                        let v = json!({
                            "history": cfg_json(self.cfg),
                            "trace": self.trace.clone(),
                            "end_of_data_names": format!("{}:{}", eod.session, eod.serial),
                            "timing_of_that_state": format!("{:?}", snap.timing),
                            "timing_handed_to_target": format!("{:?}", t),
                            "source_states_during_step": states.iter().map(|s| format!("{}:{}", s.0, s.1)).collect::<Vec<_>>(),
                        });
                        self.ctx.sample("timing-of-newer-state", || v);
                    }
                }
            }
        }
        // ---- accounting
        let changed_data = got != prev;
        self.cdata = got;
        self.cdata_version = ver;
        let ctx = &mut *self.ctx;
        ctx.obs(&format!("completed_steps_v{}", ver), 1);
        ctx.obs(&format!("response_{}", resp.replace('-', "_")), 1);
        if applied.len() != 1 {
            ctx.obs("steps_with_other_than_one_apply", 1);
        }
        if tap.downgrades > 0 {
            ctx.obs("downgrades", 1);
            ctx.obs(&format!("downgrade_to_v{}", ver), 1);
        }
        if udr_hit {
            ctx.obs("update_during_response_hits", 1);
            if (snap.session, snap.serial) != (self.source.current().session, self.source.current().serial) {
                ctx.obs("update_during_response_hits_where_end_of_data_names_the_older_state", 1);
            }
        }
        if redundant_announce > 0 {
            ctx.obs("steps_with_redundant_announce", 1);
        }
        if redundant_withdraw > 0 {
            ctx.obs("steps_with_withdraw_of_absent_item", 1);
        }
        if tap.notifies > 0 {
            ctx.obs("completed_steps_started_by_serial_notify", 1);
        }
        if tap.partial_writes > 0 {
            ctx.obs("steps_with_suspended_transfer", 1);
        }
        ctx.obs_max("items_in_one_response", n_items as u64);
        ctx.obs_max("bytes_in_one_response", tap.bytes_to_client);
        if let Some(plan) = &self.cfg.big {
            // which size regions the large histories reached
            let po = tap.payload_octets;
            let rk = if any_reset { "reset" } else { "serial" };
            ctx.obs("large_data_steps_completed", 1);
            ctx.obs(&format!("large_data_steps_completed_v{}", ver), 1);
            for (limit, name) in c06_big::REGIONS {
                if po > limit {
                    ctx.obs(&format!("large_v{}_{}_responses_over_{}", ver, rk, name), 1);
                }
            }
            if n_items >= 65_536 {
                ctx.obs(&format!("large_v{}_{}_responses_with_65536_items_or_more", ver, rk), 1);
            }
            for (limit, name) in [(4096u32, "4KiB"), (16_384, "16KiB"), (65_536, "64KiB"), (262_144, "256KiB"), (1 << 20, "1MiB")] {
                if tap.max_payload_pdu > limit {
                    ctx.obs(&format!("large_responses_with_a_single_pdu_over_{}", name), 1);
                }
            }
            if tap.max_payload_pdu as usize > self.cfg.s_buf.min(self.cfg.c_buf) {
                ctx.obs("large_responses_with_a_pdu_longer_than_a_pipe", 1);
            }
            ctx.obs_max("payload_octets_in_one_response", po);
            ctx.obs_max("longest_payload_pdu", tap.max_payload_pdu as u64);
            if po > 0 {
                ctx.sig(&format!(
                    "L v{} {} octets={} items={} longest-pdu={} shape={:?}",
                    ver, resp, c06_big::octet_class(po), c06_big::count_class(n_items as u64), c06_big::pdu_class(tap.max_payload_pdu as u64), plan.shape
                ));
                ctx.sig(&format!(
                    "M v{} {} octets={} client-pipe={} server-pipe={}",
                    ver, rk, c06_big::octet_class(po), c06_big::pipe_class(self.cfg.c_buf), c06_big::pipe_class(self.cfg.s_buf)
                ));
            }
        }
        let wrap = self.wrapped;
        if wrap {
            ctx.obs("completed_steps_after_serial_wrap", 1);
        }
        let trivial = resp == "serial" && n_items == 0;
        if trivial {
            ctx.obs("empty_diff_steps", 1);
        }
        self.trace.push(format!(
            "step -> Ok v{} {} eod={}:{} items={} data={} {}{}{}",
            ver, resp, eod.session, eod.serial, n_items, self.cdata.len(),
            if tap.downgrades > 0 { "downgraded " } else { "" },
            if udr_hit { "update-during-response " } else { "" },
            if fallback { "after-cache-reset" } else { "" },
        ));
        if !trivial {
            let win = match self.source.window() {
                Window::Never => "never",
                Window::Last(_) => "last-k",
                Window::Unbounded => "all",
            };
            let conn_class = if first_on_conn { kind.name() } else { "same-conn" };
            ctx.sig(&format!(
                "A v{} {} win={} conn={} downgrade={} udr={} wrap={} diff-offered={}",
                ver, resp, win, conn_class, tap.downgrades > 0, udr_hit, wrap, obs.diff_some > 0
            ));
            let cls = |add: bool, rem: bool| match (add, rem) {
                (false, false) => '.',
                (true, false) => '+',
                (false, true) => '-',
                (true, true) => '*',
            };
            let (mut oa, mut or, mut ka, mut kr, mut aa, mut ar) = (false, false, false, false, false, false);
            for a in &applied {
                for (action, p) in &a.items {
                    let ann = matches!(action, Action::Announce);
                    match p {
                        Payload::Origin(_) => if ann { oa = true } else { or = true },
                        Payload::RouterKey(_) => if ann { ka = true } else { kr = true },
                        Payload::Aspa(_) => if ann { aa = true } else { ar = true },
                    }
                }
            }
            ctx.sig(&format!(
                "B v{} {} style={:?} origins{} keys{} aspas{} changed={}",
                ver, resp, self.cfg.style, cls(oa, or), cls(ka, kr), cls(aa, ar), changed_data
            ));
            let bc = |b: usize| match b {
                1 => "1",
                2..=7 => "2-7",
                8..=15 => "8-15",
                16..=63 => "16-63",
                64..=4095 => "64+",
                _ => "4096",
            };
            let ic = match n_items {
                0 => "0",
                1..=4 => "1-4",
                5..=16 => "5-16",
                _ => "17+",
            };
            ctx.sig(&format!("D v{} {} client-pipe={} server-pipe={} items={}", ver, resp, bc(self.cfg.c_buf), bc(self.cfg.s_buf), ic));
            let n = self.since_step.len();
            let pre: Vec<&str> = self.since_step[n.saturating_sub(2)..].to_vec();
            ctx.sig(&format!("C v{} {} after=[{}]", ver, resp, pre.join(",")));
        }
        // samples (literal histories with what was observed)
        let kind_key = if big {
            if any_reset { "large-data-reset" } else { "large-data-serial" }
        } else if udr_hit {
            "update-during-response"
        } else if tap.downgrades > 0 {
            "downgrade"
        } else if fallback {
            "fallback-to-reset"
        } else if wrap && resp == "serial" {
            "serial-after-wrap"
        } else if resp == "serial" && !trivial {
            "serial"
        } else {
            "reset"
        };
        if ctx.wants_sample(kind_key) && !trivial {
            let v = json!({"history": cfg_json(self.cfg), "trace": self.trace.clone()});
            ctx.sample(kind_key, || v);
        }
    }

    /// Where in the response the items are that the client lacks or has in
    /// excess (large histories): position in the order the source presented
    /// them and the octets of payload PDUs before them. Information for the
    /// reader of a report, not part of the verdict.
    fn locate_differences(&self, got: &Data, want: &Data, snap: &Snap, reset: bool, ver: u8) -> (Value, String) {
        const CAP: usize = 12;
        let mut missing: Vec<Item> = Vec::new();
        let mut extra: Vec<Item> = Vec::new();
        for k in want.origins.difference(&got.origins) {
            missing.push(Item::Origin(*k));
        }
        for k in got.origins.difference(&want.origins) {
            extra.push(Item::Origin(*k));
        }
        for k in want.keys.difference(&got.keys) {
            missing.push(Item::Key(k.clone()));
        }
        for k in got.keys.difference(&want.keys) {
            extra.push(Item::Key(k.clone()));
        }
        for (c, p) in &want.aspas {
            if got.aspas.get(c) != Some(p) {
                missing.push(Item::Aspa(*c, p.clone()));
            }
        }
        for (c, p) in &got.aspas {
            if want.aspas.get(c) != Some(p) {
                extra.push(Item::Aspa(*c, p.clone()));
            }
        }
        let (n_missing, n_extra) = (missing.len(), extra.len());
        missing.truncate(CAP);
        extra.truncate(CAP);
        // the response as the source presented it
        let presented: Vec<(bool, Item)> = if reset {
            snap.items.iter().map(|p| (true, from_lib(p))).collect()
        } else {
            match self.source.last_diff() {
                Some(d) => d.iter().map(|(p, a)| (matches!(a, Action::Announce), from_lib(p))).collect(),
                None => Vec::new(),
            }
        };
        let same = |a: &Item, b: &Item| match (a, b) {
            (Item::Aspa(x, _), Item::Aspa(y, _)) => x == y,
            _ => a == b,
        };
        let mut out: Vec<Value> = Vec::new();
        let mut first_text = String::new();
        let mut pdus = 0u64;
        let mut octets = 0u64;
        for (announce, item) in &presented {
            let w = c06_big::wire_octets(item, ver);
            if w == 0 {
                continue;
            }
            for (list, what) in [(&missing, "the client lacks it"), (&extra, "the client has it in excess")] {
                if list.iter().any(|m| same(m, item)) {
                    if first_text.is_empty() {
                        first_text = format!(
                            "; {} item(s) lacking and {} in excess at the client; the first one affected was payload PDU number {} of the response, after {} octets of payload PDUs",
                            n_missing, n_extra, pdus + 1, octets
                        );
                    }
                    out.push(json!({
                        "item": short(render_item(item)),
                        "presented_by_the_source_as": if *announce { "announce" } else { "withdraw" },
                        "outcome": what,
                        "payload_pdu_number_in_response": pdus + 1,
                        "payload_octets_before_it": octets,
                        "its_octets": w,
                    }));
                }
            }
            pdus += 1;
            octets += w;
        }
        if first_text.is_empty() {
            first_text = format!("; {} item(s) lacking and {} in excess at the client", n_missing, n_extra);
        }
        let v = json!({
            "lacking_at_the_client": n_missing,
            "in_excess_at_the_client": n_extra,
            "first_lacking": missing.iter().map(|i| short(render_item(i))).collect::<Vec<_>>(),
            "first_in_excess": extra.iter().map(|i| short(render_item(i))).collect::<Vec<_>>(),
            "where_the_source_presented_them": out,
            "payload_pdus_presented": pdus,
            "payload_octets_presented": octets,
        });
        (v, first_text)
    }

    async fn run_ops(&mut self) {
        let ops = self.cfg.ops.clone();
        for op in &ops {
            if self.dead {
                break;
            }
            if !matches!(op, Op::Step | Op::UpdateDuringResponse { .. }) {
                self.since_step.push(op.kind());
            }
            match op {
                Op::Update { changes } => self.do_update(*changes, false, false, false),
                Op::NewSession { keep_data } => self.do_update(3, true, *keep_data, false),
                Op::SerialJump => self.do_update(2, false, false, true),
                Op::Notify { settle } => {
                    self.notify.notify();
                    self.trace.push("notify".into());
                    for _ in 0..*settle {
                        tokio::task::yield_now().await;
                    }
                }
                Op::Reconnect { kind, v_c, cap } => self.connect(*kind, *v_c, *cap).await,
                Op::Big(kind) => self.do_big_update(kind),
                Op::Step => self.step(None).await,
                Op::UpdateDuringResponse { yields, notify, changes } => self.step(Some((*yields, *notify, *changes))).await,
            }
        }
    }
}

/// Stable class of a step error for the evidence counters: numbers are
/// replaced (after a cancelled partial read the client sees arbitrary PDU
/// types / error codes), except PDU type 0 (a Serial Notify in the way).
fn abort_class(text: &str) -> String {
    if text.ends_with("unexpected PDU 0") {
        return "unexpected PDU 0 (Serial Notify where a response was expected)".into();
    }
    let mut out = String::new();
    let mut in_num = false;
    for ch in text.chars().take(80) {
        if ch.is_ascii_digit() {
            if !in_num {
                out.push('N');
            }
            in_num = true;
        } else {
            in_num = false;
            out.push(ch);
        }
    }
    out
}

/// Rendered items of the large histories can be very long (thousands of
/// providers): keep the head.
fn short(s: String) -> String {
    if s.len() <= 300 {
        s
    } else {
        let head: String = s.chars().take(280).collect();
        format!("{}... ({} characters)", head, s.len())
    }
}

fn rng_keep(rng: &mut Rng) -> bool {
    rng.chance(3, 5)
}

struct HistStats {
    steps: u64,
    ok: u64,
}

fn run_history(ctx: &mut Ctx, cfg: &Cfg) -> HistStats {
    let rt = tokio::runtime::Builder::new_current_thread()
        .enable_time()
        .start_paused(true)
        .build()
        .expect("tokio runtime");
    let stats = rt.block_on(async {
        let mut rng = Rng::new(cfg.seed ^ 0x5EED_C06);
        let uni = gen_universe(&mut rng, cfg.light);
        let first_data = next_data(&Data::default(), rng.below(if cfg.light { 5 } else { 9 }) as u8, &mut rng, &uni);
        let first = Snap::new(cfg.first_session, cfg.first_serial, gen_timing(&mut rng), first_data, &mut rng);
        let source = Source::new(first, cfg.window, cfg.style, cfg.aspa_wd_with_providers, Rng::new(cfg.seed ^ 0xD1FF));
        let (conn_tx, conn_rx) = unbounded_channel();
        let notify = NotifySender::new();
        let server = Server::new(Listener(conn_rx), notify.clone(), source.clone());
        let server_task = tokio::spawn(server.run());
        let mut d = Driver {
            ctx,
            cfg,
            rng,
            uni,
            source,
            notify,
            conn_tx,
            server_updates: Arc::new(Mutex::new(Vec::new())),
            conn: None,
            cdata: Data::default(),
            cdata_version: 2,
            refs: RefTargets::default(),
            trace: Vec::new(),
            since_step: Vec::new(),
            steps: 0,
            ok_steps: 0,
            aborted: 0,
            wrapped: false,
            dead: false,
        };
        for _ in 0..cfg.pre_updates {
            let n = d.rng.range(1, 5) as u8;
            d.do_update(n, false, false, false);
        }
        d.run_ops().await;
        for f in d.source.self_check_failures() {
            d.ctx.notes.push(format!("C06 HARNESS BUG: source self check failed: {}", f));
        }
        if let Some(c) = d.conn.take() {
            c.mb.abort();
        }
        server_task.abort();
        HistStats { steps: d.steps, ok: d.ok_steps }
    });
    drop(rt);
    stats
}

pub fn run(ctx: &mut Ctx) {
    let miri_total = if ctx.tier == Tier::Quick { 16 } else { 48 };
    let n = ctx.stage_budget((192_000, 4_800_000), 240_000, miri_total, 0);
    let light = ctx.stage == Stage::Miri;
    // the payload types as collection keys: Eq / Ord / Hash coherence
    let triples = ctx.stage_budget((96_000, 2_400_000), 96_000, 480, 0);
    run_laws(ctx, triples);
    let max_ops: u64 = if light { 5 } else { 14 };
    let mut steps = 0u64;
    let mut ok = 0u64;
    let mut histories = 0u64;
    let mut large_steps = 0u64;
    let mut large_ok = 0u64;
    let mut exec = |ctx: &mut Ctx, cfg: &Cfg| {
        take_last_panic();
        let before = ctx.violation_count();
        let res = crate::core::catch(|| run_history(ctx, cfg));
        match res {
            Ok(s) => {
                steps += s.steps;
                ok += s.ok;
                if cfg.big.is_some() {
                    large_steps += s.steps;
                    large_ok += s.ok;
                }
            }
            Err(text) => {
                let sig = format!("C06:panic:history:{}", panic_location(&text));
                ctx.violation(&sig, &format!("panic while running a history: {}", text), cfg_json(cfg));
            }
        }
        // a panic inside a spawned task (server connection) is swallowed by
        // tokio; the hook still remembers it
        if let Some(text) = take_last_panic() {
            if ctx.violation_count() == before {
                let sig = format!("C06:panic:task:{}", panic_location(&text));
                ctx.violation(&sig, &format!("panic inside a runtime task: {}", text), cfg_json(cfg));
            }
        }
        histories += 1;
    };
    // histories over large data sets: a matrix of size class x version x
    // shape walked by index, every index run by exactly one shard (native and
    // ASan only: a response of a megabyte takes hours under Miri)
    let (large_total, classes): (u64, u64) = match (ctx.stage, ctx.tier) {
        (Stage::Native, Tier::Quick) => (150, 5),
        (Stage::Native, Tier::Thorough) => (720, 6),
        (Stage::Asan, _) => (45, 5),
        _ => (0, 5),
    };
    let mut large = 0u64;
    for index in 0..large_total {
        if !ctx.mine(index) {
            continue;
        }
        let seed = Rng::derive(ctx.seed, &["C06", "large-data-history"], &[index]).next_u64();
        let cfg = c06_big::gen_big_cfg(index, seed, classes);
        ctx.breadcrumb(&format!("large-data history {} seed {}: {}", index, seed, cfg_json(&cfg)));
        exec(ctx, &cfg);
        large += 1;
    }
    if large_total > 0 {
        ctx.obs("large_data_histories", large);
    }
    // the real client against a scripted cache that is not the library's
    // server (reserved flag bits and fields, any order, items with a history
    // inside one answer, timing at the ends of the ranges)
    c06_foreign::run_foreign(ctx);
    let mut rng = ctx.rng("histories");
    for i in 0..n {
        let seed = rng.next_u64();
        let cfg = gen_cfg(seed, max_ops, light);
        if i % 64 == 0 {
            ctx.breadcrumb(&format!("history {} seed {}: {}", i, seed, cfg_json(&cfg)));
        }
        exec(ctx, &cfg);
    }
    ctx.obs("histories", histories);
    ctx.obs("steps_attempted", steps);
    ctx.obs("steps_completed", ok);
    if large_total > 0 {
        ctx.obs("large_data_steps_attempted", large_steps);
        if large_ok * 2 < large_steps {
            ctx.notes.push(format!(
                "C06: only {} of {} steps over large data sets completed; the property is conditional on completion, so the large responses were observed too little",
                large_ok, large_steps
            ));
        }
    }
    if steps > 0 && ok * 2 < steps {
        ctx.notes.push(format!(
            "C06: only {} of {} steps completed; the property is conditional on completion, so this run observed too little",
            ok, steps
        ));
    }
}
