//! C05 — structural encoders into part-writing and refusing sinks.
//!
//! The encoders the library hands out (`encode_ref()`, `encode()`,
//! `x509_encode()`, ...) write into any `io::Write`. `to_captured()` and all
//! the other in-memory paths only ever meet writers that take everything they
//! are offered; a pipe, a socket, a fixed buffer or a rate-limiting writer
//! does not. The statement says that the built object *encodes to DER that
//! the library's own decoder accepts* and that its decoded twin re-encodes to
//! the same octets; it does not say "into a Vec". This part therefore streams
//! every structural encoder of the built object and of its decoded twin
//!
//!  * the object itself (`Cert`, `Crl`, `Roa`, `Aspa`, `Manifest`, `Csr`,
//!    `IdCert`, `SignedMessage`),
//!  * what is inside it and has an encoder of its own: the to-be-signed part
//!    (`TbsCert`, `TbsCertList`, `TbsIdCert`), the `SignedData` wrapper with
//!    the signature value, the content (`RouteOriginAttestation`,
//!    `AsProviderAttestation`, `ManifestContent`, `RevokedCertificates`), the
//!    generic `SignedObject` and `SignedData` decoded from the same octets,
//!    the EE certificate of a signed object with its own parts,
//!  * the leaf encoders reachable from accessors: names, keys, key
//!    identifiers, validity, serial, times, URIs as GeneralName, resource
//!    sets, algorithm identifiers, key usage, manifest entries,
//!
//! into sinks of the harness that
//!
//!  * take at most 1 / 7 / 64 / 200 / 256 / a seed-chosen varying number of
//!    octets per call (`Ok(n)` with `n < len`), some answering every n-th call
//!    with `ErrorKind::Interrupted`,
//!  * have room for R octets and refuse everything after (error or `Ok(0)`),
//!    R anywhere in the encoding, with emphasis on its tail (the signature),
//!  * answer one chosen call with an error or `Ok(0)` and then carry on,
//!  * are std's own: `&mut [u8]`, `Cursor<&mut [u8]>` (too small / exact),
//!    `BufWriter` over a part-writing sink.
//!
//! Law (the only one): an encoder that reports `Ok(())` has delivered exactly
//! the octets of the object. The expectation is not taken from the streamed
//! path: for the object it is `to_captured()` of the built value (which the
//! other oracles of C05 have decoded, validated with aws-lc and re-encoded),
//! for the inner structural encoders it is the corresponding TLV cut out of
//! those octets by a TLV reader of the harness, for leaf encoders it is what
//! the same encoder delivers into a `Vec`. What an encoder reports when the
//! sink refused is open as long as it is not `Ok` with other octets; an error
//! although nothing was refused is counted, not judged.

use crate::core::{catch, panic_location, Ctx, Rng};
use bcder::encode::{PrimitiveContent, Values};
use bcder::Mode;
use rpki::ca::csr::RpkiCaCsr;
use rpki::ca::idcert::{IdCert, TbsIdCert};
use rpki::ca::sigmsg::SignedMessage;
use rpki::crypto::signature::RpkiSignatureAlgorithm;
use rpki::repository::aspa::Aspa;
use rpki::repository::cert::{Cert, TbsCert};
use rpki::repository::crl::Crl;
use rpki::repository::manifest::Manifest;
use rpki::repository::roa::Roa;
use rpki::repository::sigobj::SignedObject;
use rpki::repository::x509::SignedData;
use serde_json::{json, Value};
use std::cell::RefCell;
use std::collections::BTreeMap;
use std::io;

//------------ the sink --------------------------------------------------------

/// What a sink answers when it refuses.
#[derive(Clone, Copy, PartialEq, Eq, Debug)]
pub enum Edge {
    /// `Err(..)` (not `Interrupted`)
    Error,
    /// `Ok(0)` (what a fixed slice does)
    Zero,
}

/// An `io::Write` of the harness. Every `write` takes at most as many octets
/// as the next entry of `pattern` (cycled) allows; there is room for `room`
/// octets altogether, after which every call is refused; call number
/// `fail_call` is refused once (the sink carries on afterwards); every
/// `interrupt_every`-th call is answered with `ErrorKind::Interrupted`.
pub struct Sink {
    out: Vec<u8>,
    pattern: Vec<usize>,
    room: usize,
    partial_at_edge: bool,
    at_edge: Edge,
    fail_call: Option<(usize, Edge)>,
    interrupt_every: usize,
    calls: usize,
    refused: u64,
    short: u64,
    interrupted: u64,
}

const EVERYTHING: usize = usize::MAX;

impl Sink {
    fn new(pattern: Vec<usize>) -> Self {
        Sink {
            out: Vec::new(),
            pattern,
            room: usize::MAX,
            partial_at_edge: true,
            at_edge: Edge::Error,
            fail_call: None,
            interrupt_every: 0,
            calls: 0,
            refused: 0,
            short: 0,
            interrupted: 0,
        }
    }

    fn spec(&self) -> Value {
        let per_call: Vec<Value> = self.pattern.iter().map(|&k| if k == EVERYTHING { json!("everything offered") } else { json!(k) }).collect();
        json!({
            "octets_taken_per_call": per_call,
            "room": if self.room == usize::MAX { json!("unbounded") } else { json!(self.room) },
            "takes_the_part_that_fits_at_the_edge": self.partial_at_edge,
            "answer_when_full": format!("{:?}", self.at_edge),
            "call_refused_once": self.fail_call.map(|(c, e)| json!({"call": c, "answer": format!("{:?}", e)})),
            "interrupted_every_nth_call": self.interrupt_every,
            "calls_seen": self.calls,
            "calls_refused": self.refused,
            "calls_taken_short": self.short,
            "calls_interrupted": self.interrupted,
        })
    }
}

impl io::Write for Sink {
    fn write(&mut self, buf: &[u8]) -> io::Result<usize> {
        if buf.is_empty() {
            return Ok(0);
        }
        let c = self.calls;
        self.calls += 1;
        if self.interrupt_every > 0 && c % self.interrupt_every == self.interrupt_every - 1 {
            self.interrupted += 1;
            return Err(io::Error::new(io::ErrorKind::Interrupted, "try again"));
        }
        if let Some((fc, edge)) = self.fail_call {
            if fc == c {
                self.refused += 1;
                return match edge {
                    Edge::Error => Err(io::Error::other("sink failed (this call only)")),
                    Edge::Zero => Ok(0),
                };
            }
        }
        let lim = self.pattern[c % self.pattern.len()].max(1);
        let mut n = buf.len().min(lim);
        let left = self.room.saturating_sub(self.out.len());
        if left == 0 || (n > left && !self.partial_at_edge) {
            self.refused += 1;
            return match self.at_edge {
                Edge::Error => Err(io::Error::other("sink is full")),
                Edge::Zero => Ok(0),
            };
        }
        n = n.min(left);
        if n < buf.len() {
            self.short += 1;
        }
        self.out.extend_from_slice(&buf[..n]);
        Ok(n)
    }

    fn flush(&mut self) -> io::Result<()> {
        // no second chance to notice a failure
        Ok(())
    }
}

//------------ an object-safe view of `Values` ----------------------------------

/// `Values::write_encoded` is generic over the writer; this is the same
/// thing for the five writers of this part, so that encoders of different
/// types can go through one sweep.
trait Stream {
    fn to_vec(&self, mode: Mode, out: &mut Vec<u8>) -> io::Result<()>;
    fn to_sink(&self, mode: Mode, out: &mut Sink) -> io::Result<()>;
    fn to_slice(&self, mode: Mode, out: &mut &mut [u8]) -> io::Result<()>;
    fn to_cursor(&self, mode: Mode, out: &mut io::Cursor<&mut [u8]>) -> io::Result<()>;
    fn to_buffered(&self, mode: Mode, out: &mut io::BufWriter<Sink>) -> io::Result<()>;
}

impl<V: Values> Stream for V {
    fn to_vec(&self, mode: Mode, out: &mut Vec<u8>) -> io::Result<()> {
        self.write_encoded(mode, out)
    }
    fn to_sink(&self, mode: Mode, out: &mut Sink) -> io::Result<()> {
        self.write_encoded(mode, out)
    }
    fn to_slice(&self, mode: Mode, out: &mut &mut [u8]) -> io::Result<()> {
        self.write_encoded(mode, out)
    }
    fn to_cursor(&self, mode: Mode, out: &mut io::Cursor<&mut [u8]>) -> io::Result<()> {
        self.write_encoded(mode, out)
    }
    fn to_buffered(&self, mode: Mode, out: &mut io::BufWriter<Sink>) -> io::Result<()> {
        self.write_encoded(mode, out)
    }
}

//------------ counters ----------------------------------------------------------

#[derive(Default)]
struct Stats {
    encoders: u64,
    runs: u64,
    ok_complete: u64,
    ok_complete_after_short_calls: u64,
    err_after_refusal: u64,
    err_after_interrupt_only: u64,
    err_nothing_refused: u64,
    err_complete: u64,
    der_mode_refused: u64,
    calls_taken_short: u64,
    calls_interrupted: u64,
    calls_refused: u64,
    max_len: u64,
    by_sink: BTreeMap<&'static str, u64>,
    by_encoder: BTreeMap<String, u64>,
    refusal_where: BTreeMap<String, u64>,
}

thread_local! {
    static STATS: RefCell<Stats> = RefCell::new(Stats::default());
    static CALLS: std::cell::Cell<u64> = const { std::cell::Cell::new(0) };
    /// samples taken so far: two counters of eight bits
    static SAMPLES: std::cell::Cell<u64> = const { std::cell::Cell::new(0) };
}

/// Moves the counters of this thread into the evidence. Called once at the
/// end of the run.
pub fn finish(ctx: &mut Ctx) {
    let st = STATS.with(|s| std::mem::take(&mut *s.borrow_mut()));
    if st.runs == 0 {
        return;
    }
    ctx.obs("stream:encoders_swept", st.encoders);
    ctx.obs("stream:sink_runs", st.runs);
    ctx.obs("stream:ok_with_exactly_the_octets", st.ok_complete);
    ctx.obs("stream:ok_with_exactly_the_octets_after_calls_taken_short", st.ok_complete_after_short_calls);
    ctx.obs("stream:error_after_a_refusal", st.err_after_refusal);
    ctx.obs("stream:error_after_interrupts_only(not judged)", st.err_after_interrupt_only);
    ctx.obs("stream:error_although_nothing_was_refused(not judged)", st.err_nothing_refused);
    ctx.obs("stream:error_although_everything_arrived(not judged)", st.err_complete);
    ctx.obs("stream:der_mode_refused_for_relaxed_captured_part(streamed in BER mode)", st.der_mode_refused);
    ctx.obs("stream:calls_taken_short", st.calls_taken_short);
    ctx.obs("stream:calls_interrupted", st.calls_interrupted);
    ctx.obs("stream:calls_refused", st.calls_refused);
    ctx.obs_max("stream:octets_of_one_encoding", st.max_len);
    for (k, n) in &st.by_sink {
        ctx.obs(&format!("stream:sink:{}", k), *n);
    }
    for (k, n) in &st.by_encoder {
        ctx.obs(&format!("stream:encoder:{}", k), *n);
    }
    for (k, n) in &st.refusal_where {
        ctx.obs(&format!("stream:refused_in:{}", k), *n);
    }
}

//------------ a TLV reader for cutting the expectation out of the object ------

/// (tag, offset of content, offset past the value) of the definite-length TLV at `pos`.
fn tlv_at(data: &[u8], pos: usize) -> Option<(u8, usize, usize)> {
    let tag = *data.get(pos)?;
    if tag & 0x1f == 0x1f {
        return None;
    }
    let l0 = *data.get(pos + 1)? as usize;
    let (len, cs) = if l0 < 0x80 {
        (l0, pos + 2)
    } else {
        let k = l0 & 0x7f;
        if k == 0 || k > 4 {
            return None;
        }
        let mut len = 0usize;
        for i in 0..k {
            len = (len << 8) | *data.get(pos + 2 + i)? as usize;
        }
        (len, pos + 2 + k)
    };
    let end = cs.checked_add(len)?;
    if end > data.len() {
        return None;
    }
    Some((tag, cs, end))
}

/// Follows child indexes from the TLV at offset 0. Returns (start, content start, end).
fn tlv_path(data: &[u8], path: &[usize]) -> Option<(usize, usize, usize)> {
    let (_, mut cs, mut end) = tlv_at(data, 0)?;
    let mut start = 0usize;
    for &idx in path {
        let mut pos = cs;
        let mut i = 0;
        loop {
            if pos >= end {
                return None;
            }
            let (_, ccs, cend) = tlv_at(data, pos)?;
            if i == idx {
                start = pos;
                cs = ccs;
                end = cend;
                break;
            }
            pos = cend;
            i += 1;
        }
    }
    Some((start, cs, end))
}

/// The whole TLV at `path`.
fn cut<'a>(data: &'a [u8], path: &[usize]) -> Option<&'a [u8]> {
    let (s, _, e) = tlv_path(data, path)?;
    Some(&data[s..e])
}

/// The content octets of the TLV at `path`.
fn cut_content<'a>(data: &'a [u8], path: &[usize]) -> Option<&'a [u8]> {
    let (_, cs, e) = tlv_path(data, path)?;
    Some(&data[cs..e])
}

/// Which top-level part of a TLV an offset falls into (for the evidence).
fn where_in(expected: &[u8], off: usize) -> String {
    let Some((_, cs, end)) = tlv_at(expected, 0) else { return "octets".into() };
    if end != expected.len() {
        return "octets".into();
    }
    if off < cs {
        return "outer-header".into();
    }
    let mut pos = cs;
    let mut i = 0;
    while pos < end {
        let Some((_, ccs, cend)) = tlv_at(expected, pos) else { break };
        if off < cend {
            // parts beyond the eighth are the elements of a list
            let part = if i < 8 { format!("part{}", i) } else { "part8-or-later".to_string() };
            return format!("{}-{}", part, if off < ccs { "header" } else { "content" });
        }
        pos = cend;
        i += 1;
    }
    "end".into()
}

//------------ the sweep ----------------------------------------------------------

/// One encoder of one value.
struct Enc<'a> {
    /// object kind of the workload (`cert-ca`, `reissue-roa`, ...): evidence only
    kind: &'a str,
    /// `built` / `decoded`
    side: &'a str,
    /// stable name: type and accessor path
    name: String,
    /// gets the full menu of sinks (else a handful)
    major: bool,
}

struct Sweep<'a> {
    ctx: &'a mut Ctx,
    rng: Rng,
    detail: &'a dyn Fn() -> Value,
}

fn hexs(d: &[u8]) -> String {
    super::c05_tab::hex(d)
}

fn clip_hex(d: &[u8]) -> String {
    if d.len() <= 600 {
        hexs(d)
    } else {
        format!("{}...[{} octets]...{}", hexs(&d[..300]), d.len(), hexs(&d[d.len() - 280..]))
    }
}

impl Sweep<'_> {
    fn panic(&mut self, e: &Enc, sink: &str, text: &str, spec: Value) {
        self.ctx.obs("panics_caught", 1);
        self.ctx.violation(
            &format!("C05:stream-panic:{}:{}:{}:{}", e.name, e.side, sink, panic_location(text)),
            &format!("{} of the {} value panics while writing into {} ({})", e.name, e.side, sink, panic_location(text)),
            json!({"encoder": e.name, "side": e.side, "panic": text, "sink": spec, "case": (self.detail)()}),
        );
    }

    /// The law of this part.
    #[allow(clippy::too_many_arguments)]
    fn judge(&mut self, e: &Enc, sink: &'static str, family: &'static str, mode: Mode, spec: &dyn Fn() -> Value, expected: &[u8], res: io::Result<()>, arrived: &[u8], refused: u64, short: u64, interrupted: u64) {
        self.ctx.eval();
        let ok = res.is_ok();
        STATS.with(|s| {
            let mut st = s.borrow_mut();
            st.runs += 1;
            *st.by_sink.entry(sink).or_insert(0) += 1;
            st.calls_taken_short += short;
            st.calls_interrupted += interrupted;
            st.calls_refused += refused;
            match &res {
                Ok(()) if arrived == expected => {
                    st.ok_complete += 1;
                    if short > 0 {
                        st.ok_complete_after_short_calls += 1;
                    }
                }
                Ok(()) => {}
                Err(_) if arrived == expected => st.err_complete += 1,
                Err(_) if refused > 0 => st.err_after_refusal += 1,
                Err(_) if interrupted > 0 => st.err_after_interrupt_only += 1,
                Err(_) => st.err_nothing_refused += 1,
            }
        });
        self.ctx.sig(&format!("stream {} {} {} {} -> {}", e.name, e.side, sink, if short > 0 { "some-calls-taken-short" } else { "no-call-taken-short" }, if ok { "ok" } else { "err" }));
        // a few literal runs for the reader of the evidence (spread over encoders)
        // (the key sorts before the object kinds: the evidence keeps the first 24 samples)
        let key = if refused > 0 { "!stream:refusing-sink" } else { "!stream:part-writing-sink" };
        let taken = SAMPLES.with(|c| c.get());
        let slot = if refused > 0 { 0 } else { 8 };
        if (taken >> slot) & 0xff < 2 && self.rng.chance(1, 40) {
            SAMPLES.with(|c| c.set(taken + (1 << slot)));
            let outcome = match &res {
                Ok(()) => "Ok(())".to_string(),
                Err(err) => format!("Err({})", err),
            };
            self.ctx.sample(key, || {
                json!({"encoder": e.name, "side": e.side, "object_kind": e.kind, "mode": format!("{:?}", mode), "sink_kind": sink, "sink": spec(),
                       "octets_of_the_encoding": expected.len(), "octets_arrived": arrived.len(), "arrived_is_a_prefix_of_the_encoding": expected.starts_with(arrived),
                       "result": outcome, "refused_at": if refused > 0 && arrived.len() < expected.len() { json!(where_in(expected, arrived.len())) } else { Value::Null }})
            });
        }
        match res {
            Ok(()) if arrived == expected => {}
            Ok(()) => {
                let what = match arrived.len().cmp(&expected.len()) {
                    std::cmp::Ordering::Less => "fewer-octets",
                    std::cmp::Ordering::Equal => "other-octets",
                    std::cmp::Ordering::Greater => "more-octets",
                };
                let at = arrived.iter().zip(expected.iter()).position(|(a, b)| a != b).unwrap_or(arrived.len().min(expected.len()));
                self.ctx.violation(
                    &format!("C05:stream:{}:{}:{}:ok-with-{}", e.name, e.side, family, what),
                    &format!(
                        "{} of the {} {} value, written with write_encoded into a sink ({}), returned Ok(()) although {} octets arrived where the object has {} (first difference at offset {}, in {}): what is on the other side is not the encoding of this object",
                        e.name,
                        e.side,
                        e.kind,
                        sink,
                        arrived.len(),
                        expected.len(),
                        at,
                        where_in(expected, at)
                    ),
                    json!({"encoder": e.name, "side": e.side, "object_kind": e.kind, "mode": format!("{:?}", mode), "sink_kind": sink, "sink": spec(), "result": "Ok(())",
                           "octets_expected": clip_hex(expected), "octets_arrived": clip_hex(arrived), "first_difference_at": at, "case": (self.detail)()}),
                );
            }
            Err(err) => {
                if arrived != expected && refused == 0 && interrupted == 0 {
                    let text = err.to_string();
                    self.ctx.sample("stream-error-although-nothing-was-refused", || json!({"encoder": e.name, "side": e.side, "sink_kind": sink, "sink": spec(), "error": text}));
                }
            }
        }
    }

    fn run_sink(&mut self, e: &Enc, v: &dyn Stream, mode: Mode, sink_kind: &'static str, family: &'static str, expected: &[u8], mut sink: Sink) -> usize {
        let res = catch(|| v.to_sink(mode, &mut sink));
        match res {
            Err(text) => {
                let spec = sink.spec();
                self.panic(e, sink_kind, &text, spec);
            }
            Ok(res) => {
                if sink.refused > 0 && sink.out.len() < expected.len() {
                    let w = where_in(expected, sink.out.len());
                    STATS.with(|s| *s.borrow_mut().refusal_where.entry(w).or_insert(0) += 1);
                }
                let (refused, short, interrupted) = (sink.refused, sink.short, sink.interrupted);
                let out = std::mem::take(&mut sink.out);
                self.judge(e, sink_kind, family, mode, &|| sink.spec(), expected, res, &out, refused, short, interrupted);
            }
        }
        sink.calls
    }

    /// One value through one encoder into the sinks of the part.
    fn sweep(&mut self, e: &Enc, v: &dyn Stream, object_octets: Option<&[u8]>) {
        // the same encoder into a Vec
        let mut reference: Vec<u8> = Vec::new();
        let mut mode_fixed: Option<Mode> = None;
        match catch(|| v.to_vec(Mode::Der, &mut reference)) {
            Ok(Ok(())) => {}
            Ok(Err(err)) => {
                self.ctx.violation(
                    &format!("C05:stream:{}:{}:vec:error", e.name, e.side),
                    &format!("{} of the {} value returns an error when writing into a Vec: {}", e.name, e.side, err),
                    json!({"encoder": e.name, "side": e.side, "error": err.to_string(), "case": (self.detail)()}),
                );
                return;
            }
            Err(text) if text.contains("incompatible mode") => {
                // a part captured from a relaxed-mode decoding: bcder refuses it in DER mode by
                // assertion (known, see the assumptions of C05); such values are streamed in BER mode
                STATS.with(|s| s.borrow_mut().der_mode_refused += 1);
                reference.clear();
                match catch(|| v.to_vec(Mode::Ber, &mut reference)) {
                    Ok(Ok(())) => mode_fixed = Some(Mode::Ber),
                    Ok(Err(_)) => return,
                    Err(text) => {
                        self.panic(e, "Vec<u8>", &text, json!("Vec<u8>, BER mode"));
                        return;
                    }
                }
            }
            Err(text) => {
                self.panic(e, "Vec<u8>", &text, json!("Vec<u8>"));
                return;
            }
        }
        self.ctx.eval();
        if let Some(o) = object_octets {
            if reference != o {
                let at = reference.iter().zip(o.iter()).position(|(a, b)| a != b).unwrap_or(reference.len().min(o.len()));
                self.ctx.violation(
                    &format!("C05:stream:{}:{}:vec-differs-from-the-octets-of-the-object", e.name, e.side),
                    &format!("{} of the {} {} value writes into a Vec something else than the octets this part has in to_captured() of the object (first difference at {})", e.name, e.side, e.kind, at),
                    json!({"encoder": e.name, "side": e.side, "object_kind": e.kind, "octets_into_a_vec": clip_hex(&reference), "octets_in_the_object": clip_hex(o), "first_difference_at": at, "case": (self.detail)()}),
                );
                return;
            }
        }
        let expected: &[u8] = &reference;
        let n = expected.len();
        if n == 0 {
            return; // an absent optional part
        }
        STATS.with(|s| {
            let mut st = s.borrow_mut();
            st.encoders += 1;
            st.max_len = st.max_len.max(n as u64);
            *st.by_encoder.entry(e.name.clone()).or_insert(0) += 1;
        });
        self.ctx.sig(&format!("stream {} {} of {}", e.name, e.side, e.kind));
        let pick_mode = |rng: &mut Rng| mode_fixed.unwrap_or(if rng.chance(1, 3) { Mode::Ber } else { Mode::Der });

        // (A) sinks that never refuse and take k octets per call
        let ks: Vec<(usize, &'static str)> = if e.major {
            vec![(1, "takes-1"), (7, "takes-7"), (64, "takes-64"), (200, "takes-200"), (256, "takes-256")]
        } else {
            vec![(1, "takes-1"), (*self.rng.pick(&[2usize, 3, 7, 16]), "takes-few")]
        };
        for (k, name) in ks {
            // large encodings (signed messages of 70 000 octets, long lists): the finest sinks on a quarter of them
            if n > 8192 && k < 64 && !self.rng.chance(1, 4) {
                continue;
            }
            let mode = pick_mode(&mut self.rng);
            self.run_sink(e, v, mode, name, "partial-writes", expected, Sink::new(vec![k]));
        }
        // (B) a seed-chosen varying pattern (incl. "everything" now and then)
        {
            let len = 2 + self.rng.usize_below(3);
            let top = n.min(300);
            let pattern: Vec<usize> = (0..len).map(|_| if self.rng.chance(1, 5) { EVERYTHING } else { 1 + self.rng.usize_below(top) }).collect();
            let mode = pick_mode(&mut self.rng);
            self.run_sink(e, v, mode, "takes-varying", "partial-writes", expected, Sink::new(pattern));
        }
        // (C) Interrupted now and then
        if e.major || self.rng.chance(1, 3) {
            let mut sink = Sink::new(vec![*self.rng.pick(&[EVERYTHING, 7, 200, 1])]);
            sink.interrupt_every = 2 + self.rng.usize_below(4);
            let mode = pick_mode(&mut self.rng);
            self.run_sink(e, v, mode, "interrupting", "partial-writes", expected, sink);
        }
        // (D) room for R octets, then refusal for good
        let rounds = if e.major { 3 } else { 1 };
        for r in 0..rounds {
            let room = match (r, self.rng.below(4)) {
                // the tail: where the signature value of a signed structure lives
                (0, _) if e.major => n - 1 - self.rng.usize_below(n.min(300)),
                (_, 0) => 0,
                (_, 1) => n - 1,
                _ => self.rng.usize_below(n),
            };
            let mut sink = Sink::new(vec![*self.rng.pick(&[EVERYTHING, EVERYTHING, 64, 5])]);
            sink.room = room;
            sink.partial_at_edge = self.rng.bool();
            sink.at_edge = if self.rng.bool() { Edge::Error } else { Edge::Zero };
            let name = if sink.at_edge == Edge::Error { "full-then-error" } else { "full-then-zero" };
            let mode = pick_mode(&mut self.rng);
            self.run_sink(e, v, mode, name, "refusing-sink", expected, sink);
        }
        // (E) one call refused, then the sink carries on
        {
            // how many calls the encoder makes when every call takes everything
            let mut probe = Sink::new(vec![EVERYTHING]);
            let mode = pick_mode(&mut self.rng);
            let calls = match catch(|| v.to_sink(mode, &mut probe)) {
                Ok(_) => probe.calls,
                Err(_) => 0,
            };
            let rounds = if e.major { 3 } else { 1 };
            for r in 0..rounds {
                if calls == 0 {
                    break;
                }
                let c = match r {
                    1 => calls - 1, // the last call: nothing after it can notice
                    _ => self.rng.usize_below(calls),
                };
                let edge = if self.rng.bool() { Edge::Error } else { Edge::Zero };
                let mut sink = Sink::new(vec![EVERYTHING]);
                sink.fail_call = Some((c, edge));
                let name = if edge == Edge::Error { "one-call-error" } else { "one-call-zero" };
                self.run_sink(e, v, mode, name, "refusing-sink", expected, sink);
            }
        }
        if !e.major {
            return;
        }
        // (F) std's fixed slice and cursor over a fixed slice: too small or exact
        for which in 0..2 {
            let size = if self.rng.chance(1, 3) { n } else { n - 1 - self.rng.usize_below(n.min(300)) };
            let mode = pick_mode(&mut self.rng);
            let mut buf = vec![0xa5u8; size];
            let (kind, res, written): (&'static str, _, usize) = if which == 0 {
                let mut target: &mut [u8] = &mut buf[..];
                let res = catch(|| v.to_slice(mode, &mut target));
                let left = target.len();
                ("fixed-slice", res, size - left)
            } else {
                let mut cur = io::Cursor::new(&mut buf[..]);
                let res = catch(|| v.to_cursor(mode, &mut cur));
                let pos = (cur.position() as usize).min(size);
                ("cursor-over-slice", res, pos)
            };
            match res {
                Err(text) => self.panic(e, kind, &text, json!({"octets_of_room": size})),
                Ok(res) => {
                    if size < n {
                        let w = where_in(expected, size);
                        STATS.with(|s| *s.borrow_mut().refusal_where.entry(w).or_insert(0) += 1);
                    }
                    self.judge(e, kind, "refusing-sink", mode, &|| json!({"kind": kind, "octets_of_room": size, "octets_written": written}), expected, res, &buf[..written], (size < n) as u64, 0, 0);
                }
            }
        }
        // (G) std's BufWriter (hands large writes through with the short count) over a part-writing sink
        {
            let cap = *self.rng.pick(&[1usize, 8, 32, 300]);
            let k = *self.rng.pick(&[1usize, 5, 100]);
            let mode = pick_mode(&mut self.rng);
            let mut bw = io::BufWriter::with_capacity(cap, Sink::new(vec![k]));
            let res = catch(|| v.to_buffered(mode, &mut bw));
            let flushed = catch(|| io::Write::flush(&mut bw).is_ok()).unwrap_or(false);
            match res {
                Err(text) => self.panic(e, "bufwriter-over-part-writing-sink", &text, json!({"capacity": cap, "inner_takes": k})),
                Ok(res) => {
                    if flushed {
                        let inner = bw.get_ref();
                        let out = inner.out.clone();
                        let (refused, short, interrupted) = (inner.refused, inner.short, inner.interrupted);
                        self.judge(e, "bufwriter-over-part-writing-sink", "partial-writes", mode, &|| json!({"kind": "std::io::BufWriter", "capacity": cap, "inner": inner.spec()}), expected, res, &out, refused, short, interrupted);
                    }
                }
            }
        }
    }
}

//------------ what is streamed, per type ---------------------------------------

struct Obj<'a> {
    sw: Sweep<'a>,
    kind: &'a str,
    side: &'a str,
}

impl Obj<'_> {
    fn major(&mut self, name: &str, v: &dyn Stream, octets: Option<&[u8]>) {
        let e = Enc { kind: self.kind, side: self.side, name: name.to_string(), major: true };
        self.sw.sweep(&e, v, octets);
    }

    fn minor(&mut self, name: &str, v: &dyn Stream) {
        let e = Enc { kind: self.kind, side: self.side, name: name.to_string(), major: false };
        self.sw.sweep(&e, v, None);
    }

    /// The leaf encoders reachable from the accessors of a certificate. A
    /// seed-chosen third of them per certificate: each is a few dozen octets
    /// and they are all reached by `TbsCert.encode_ref` as well.
    fn cert_leaves(&mut self, p: &str, c: &Cert) {
        let pick = self.sw.rng.usize_below(3);
        let mut i = 0usize;
        let mut want = move || {
            i += 1;
            i % 3 == pick
        };
        if want() {
            self.minor(&format!("{p}issuer.Name.encode_ref"), &c.issuer().encode_ref());
        }
        if want() {
            self.minor(&format!("{p}subject.Name.encode_ref"), &c.subject().encode_ref());
        }
        if want() {
            self.minor(&format!("{p}subject_public_key_info.PublicKey.encode_ref"), &c.subject_public_key_info().encode_ref());
        }
        if want() {
            self.minor(&format!("{p}subject_public_key_info.PublicKey.encode_subject_name"), &c.subject_public_key_info().encode_subject_name());
        }
        if want() {
            self.minor(&format!("{p}validity.Validity.encode"), &c.validity().encode());
        }
        if want() {
            self.minor(&format!("{p}serial_number.Serial.encode"), &c.serial_number().encode());
        }
        if want() {
            self.minor(&format!("{p}subject_key_identifier.KeyIdentifier.encode"), &c.subject_key_identifier().encode());
        }
        if want() {
            if let Some(k) = c.authority_key_identifier() {
                self.minor(&format!("{p}authority_key_identifier.KeyIdentifier.encode"), &k.encode());
            }
        }
        if want() {
            self.minor(&format!("{p}key_usage.KeyUsage.encode"), &c.key_usage().encode());
        }
        for (name, u) in [
            ("crl_uri", c.crl_uri()),
            ("ca_issuer", c.ca_issuer()),
            ("ca_repository", c.ca_repository()),
            ("rpki_manifest", c.rpki_manifest()),
            ("signed_object", c.signed_object()),
        ] {
            if want() {
                if let Some(u) = u {
                    self.minor(&format!("{p}{name}.Rsync.encode_general_name"), &u.encode_general_name());
                }
            }
        }
        if want() {
            if let Some(u) = c.rpki_notify() {
                self.minor(&format!("{p}rpki_notify.Https.encode_general_name"), &u.encode_general_name());
            }
        }
        if want() {
            self.minor(&format!("{p}v4_resources.IpResources.encode_ref"), &c.v4_resources().encode_ref());
        }
        if want() {
            self.minor(&format!("{p}v6_resources.IpResources.encode_ref"), &c.v6_resources().encode_ref());
        }
        if want() {
            self.minor(&format!("{p}as_resources.AsResources.encode_ref"), &c.as_resources().encode_ref());
        }
    }

    /// A certificate whose octets are `der` (on its own or inside an object).
    fn cert(&mut self, p: &str, c: &Cert, der: &[u8]) {
        self.major(&format!("{p}encode_ref"), &c.encode_ref(), Some(der));
        let tbs: &TbsCert = c.as_ref();
        self.major(&format!("{p}TbsCert.encode_ref"), &tbs.encode_ref(), cut(der, &[0]));
        self.cert_leaves(p, c);
    }
}

fn start<'a>(ctx: &'a mut Ctx, kind: &'a str, side: &'a str, detail: &'a dyn Fn() -> Value) -> Obj<'a> {
    let call = CALLS.with(|c| {
        let v = c.get();
        c.set(v + 1);
        v
    });
    let rng = Rng::derive(ctx.seed, &["C05", "sinks"], &[ctx.shard, call]);
    Obj { sw: Sweep { ctx, rng, detail }, kind, side }
}

/// The generic two-level wrapper decoded from the same octets: its encoder
/// is the one that writes the signature value of every X.509-like structure.
fn signed_data(o: &mut Obj, p: &str, der: &[u8]) {
    match catch(|| SignedData::<RpkiSignatureAlgorithm>::decode(der)) {
        Ok(Ok(sd)) => {
            o.major(&format!("{p}SignedData(decoded from the octets).encode_ref"), &sd.encode_ref(), Some(der));
            o.minor(&format!("{p}SignedData.signature.algorithm.x509_encode"), &sd.signature().algorithm().x509_encode());
        }
        _ => o.sw.ctx.obs("stream:signed_data_not_decodable(not judged)", 1),
    }
}

pub fn cert(ctx: &mut Ctx, kind: &str, built: &Cert, decoded: &Cert, detail: &dyn Fn() -> Value) {
    let Ok(der) = catch(|| built.to_captured().into_bytes().to_vec()) else { return };
    for (side, c) in [("built", built), ("decoded", decoded)] {
        let mut o = start(ctx, kind, side, detail);
        o.cert("Cert.", c, &der);
        if side == "decoded" {
            signed_data(&mut o, "Cert:", &der);
        }
    }
}

pub fn crl(ctx: &mut Ctx, kind: &str, built: &Crl, decoded: &Crl, detail: &dyn Fn() -> Value) {
    let Ok(der) = catch(|| built.to_captured().into_bytes().to_vec()) else { return };
    for (side, c) in [("built", built), ("decoded", decoded)] {
        let mut o = start(ctx, kind, side, detail);
        o.major("Crl.encode_ref", &c.encode_ref(), Some(&der));
        o.major("Crl.signed_data.SignedData.encode_ref", &c.signed_data().encode_ref(), Some(&der));
        o.major("Crl.as_cert_list.TbsCertList.encode_ref", &c.as_cert_list().encode_ref(), cut(&der, &[0]));
        o.major("Crl.revoked_certs.RevokedCertificates.encode_ref", &c.revoked_certs().encode_ref(), None);
        o.minor("Crl.issuer.Name.encode_ref", &c.issuer().encode_ref());
        o.minor("Crl.signature.RpkiSignatureAlgorithm.x509_encode", &c.signature().x509_encode());
        o.minor("Crl.authority_key_identifier.KeyIdentifier.encode", &c.authority_key_identifier().encode());
        o.minor("Crl.crl_number.Serial.encode", &c.crl_number().encode());
        o.minor("Crl.this_update.Time.encode_varied", &c.this_update().encode_varied());
        o.minor("Crl.next_update.Time.encode_varied", &c.next_update().encode_varied());
        if let Some(e) = c.revoked_certs().iter().next() {
            o.minor("Crl.revoked_certs.iter.CrlEntry.encode", &e.encode());
        }
        if side == "decoded" {
            signed_data(&mut o, "Crl:", &der);
        }
    }
}

/// Paths inside a CMS signed object (ContentInfo / SignedData).
const ECONTENT: &[usize] = &[1, 0, 2, 1, 0];
const EE_CERT: &[usize] = &[1, 0, 3, 0];

/// The parts every RPKI signed object has: the generic `SignedObject`
/// decoded from the same octets and the EE certificate.
fn signed_object_parts(o: &mut Obj, p: &str, ee: &Cert, der: &[u8]) {
    match cut(der, EE_CERT) {
        Some(cd) => o.cert(&format!("{p}.cert."), ee, cd),
        None => o.sw.ctx.obs("stream:ee_certificate_not_located(not judged)", 1),
    }
    if o.side == "decoded" {
        match catch(|| SignedObject::decode(der, true)) {
            Ok(Ok(so)) => {
                o.major(&format!("{p}:SignedObject(decoded from the octets).encode_ref"), &so.encode_ref(), Some(der));
                o.minor(&format!("{p}:SignedObject.content.OctetString.encode_ref"), &so.content().encode_ref());
                o.minor(&format!("{p}:SignedObject.signing_time.Time.encode_varied"), &so.signing_time().encode_varied());
            }
            _ => o.sw.ctx.obs("stream:signed_object_not_decodable_strictly(not judged)", 1),
        }
    }
}

pub fn manifest(ctx: &mut Ctx, kind: &str, built: &Manifest, decoded: &Manifest, detail: &dyn Fn() -> Value) {
    let Ok(der) = catch(|| built.to_captured().into_bytes().to_vec()) else { return };
    for (side, m) in [("built", built), ("decoded", decoded)] {
        let mut o = start(ctx, kind, side, detail);
        o.major("Manifest.encode_ref", &m.encode_ref(), Some(&der));
        o.major("Manifest.content.ManifestContent.encode_ref", &m.content().encode_ref(), cut_content(&der, ECONTENT));
        if let Some(f) = m.content().iter().next() {
            o.minor("Manifest.content.iter.FileAndHash.encode_ref", &f.encode_ref());
        }
        o.minor("Manifest.content.manifest_number.Serial.encode", &m.content().manifest_number().encode());
        signed_object_parts(&mut o, "Manifest", m.cert(), &der);
    }
}

pub fn roa(ctx: &mut Ctx, kind: &str, built: &Roa, decoded: &Roa, detail: &dyn Fn() -> Value) {
    let Ok(der) = catch(|| built.to_captured().into_bytes().to_vec()) else { return };
    for (side, r) in [("built", built), ("decoded", decoded)] {
        let mut o = start(ctx, kind, side, detail);
        o.major("Roa.encode_ref", &r.encode_ref(), Some(&der));
        o.major("Roa.content.RouteOriginAttestation.encode_ref", &r.content().encode_ref(), cut_content(&der, ECONTENT));
        signed_object_parts(&mut o, "Roa", r.cert(), &der);
    }
}

pub fn aspa(ctx: &mut Ctx, kind: &str, built: &Aspa, decoded: &Aspa, detail: &dyn Fn() -> Value) {
    let Ok(der) = catch(|| built.to_captured().into_bytes().to_vec()) else { return };
    for (side, a) in [("built", built), ("decoded", decoded)] {
        let mut o = start(ctx, kind, side, detail);
        o.major("Aspa.encode_ref", &a.encode_ref(), Some(&der));
        o.major("Aspa.content.AsProviderAttestation.encode_ref", &a.content().encode_ref(), cut_content(&der, ECONTENT));
        signed_object_parts(&mut o, "Aspa", a.cert(), &der);
    }
}

/// CSR builders return octets only: the two values are the decoded request
/// and the request decoded from its re-encoding.
pub fn csr(ctx: &mut Ctx, kind: &str, decoded: &RpkiCaCsr, twin: &RpkiCaCsr, detail: &dyn Fn() -> Value) {
    let Ok(der) = catch(|| decoded.to_captured().into_bytes().to_vec()) else { return };
    for (side, c) in [("decoded", decoded), ("decoded from the re-encoding", twin)] {
        let mut o = start(ctx, kind, side, detail);
        o.major("Csr.encode_ref", &c.encode_ref(), Some(&der));
        o.minor("Csr.subject.Name.encode_ref", &c.subject().encode_ref());
        o.minor("Csr.public_key.PublicKey.encode_ref", &c.public_key().encode_ref());
        for (name, u) in [("ca_repository", c.ca_repository()), ("rpki_manifest", c.rpki_manifest())] {
            if let Some(u) = u {
                o.minor(&format!("Csr.{name}.Rsync.encode_general_name"), &u.encode_general_name());
            }
        }
        if let Some(u) = c.rpki_notify() {
            o.minor("Csr.rpki_notify.Https.encode_general_name", &u.encode_general_name());
        }
        if side == "decoded" {
            signed_data(&mut o, "Csr:", &der);
        }
    }
}

pub fn idcert(ctx: &mut Ctx, kind: &str, built: &IdCert, decoded: &IdCert, detail: &dyn Fn() -> Value) {
    let Ok(der) = catch(|| built.to_captured().into_bytes().to_vec()) else { return };
    for (side, c) in [("built", built), ("decoded", decoded)] {
        let mut o = start(ctx, kind, side, detail);
        o.major("IdCert.encode_ref", &c.encode_ref(), Some(&der));
        let tbs: &TbsIdCert = c.as_ref();
        o.major("IdCert.TbsIdCert.encode_ref", &tbs.encode_ref(), cut(&der, &[0]));
        o.minor("IdCert.subject.Name.encode_ref", &c.subject().encode_ref());
        o.minor("IdCert.public_key.PublicKey.encode_ref", &c.public_key().encode_ref());
        o.minor("IdCert.validity.Validity.encode", &c.validity().encode());
        o.minor("IdCert.serial_number.Serial.encode", &c.serial_number().encode());
        o.minor("IdCert.subject_key_identifier.KeyIdentifier.encode", &c.subject_key_identifier().encode());
        if side == "decoded" {
            signed_data(&mut o, "IdCert:", &der);
        }
    }
}

pub fn sigmsg(ctx: &mut Ctx, kind: &str, built: &SignedMessage, decoded: &SignedMessage, detail: &dyn Fn() -> Value) {
    let Ok(der) = catch(|| built.to_captured().into_bytes().to_vec()) else { return };
    for (side, m) in [("built", built), ("decoded", decoded)] {
        let mut o = start(ctx, kind, side, detail);
        o.major("SignedMessage.encode_ref", &m.encode_ref(), Some(&der));
        o.major("SignedMessage.content.OctetString.encode_ref", &m.content().encode_ref(), cut(&der, ECONTENT));
        o.minor("SignedMessage.content_type.Oid.encode_ref", &m.content_type().encode_ref());
    }
}
