//! Reference model for every resource-set question: a set of u128 values
//! kept as sorted, disjoint, non-adjacent closed intervals. Written from the
//! mathematics, nothing shared with rpki-rs.

#[derive(Clone, Debug, PartialEq, Eq, Default)]
pub struct IntervalSet {
    /// sorted, disjoint, non-adjacent, lo <= hi
    pub iv: Vec<(u128, u128)>,
}

impl IntervalSet {
    pub fn empty() -> Self {
        IntervalSet { iv: Vec::new() }
    }

    pub fn from_ranges(ranges: &[(u128, u128)]) -> Self {
        let mut v: Vec<(u128, u128)> = ranges.iter().copied().filter(|(a, b)| a <= b).collect();
        v.sort();
        let mut out: Vec<(u128, u128)> = Vec::new();
        for (lo, hi) in v {
            if let Some(last) = out.last_mut() {
                // overlapping or adjacent
                if lo <= last.1 || (last.1 != u128::MAX && lo == last.1 + 1) {
                    if hi > last.1 {
                        last.1 = hi;
                    }
                    continue;
                }
            }
            out.push((lo, hi));
        }
        IntervalSet { iv: out }
    }

    pub fn is_empty(&self) -> bool {
        self.iv.is_empty()
    }

    pub fn contains(&self, x: u128) -> bool {
        self.iv.iter().any(|(lo, hi)| *lo <= x && x <= *hi)
    }

    pub fn contains_range(&self, lo: u128, hi: u128) -> bool {
        self.iv.iter().any(|(a, b)| *a <= lo && hi <= *b)
    }

    pub fn intersects_range(&self, lo: u128, hi: u128) -> bool {
        self.iv.iter().any(|(a, b)| *a <= hi && lo <= *b)
    }

    pub fn is_subset_of(&self, other: &IntervalSet) -> bool {
        self.iv.iter().all(|(lo, hi)| other.contains_range(*lo, *hi))
    }

    pub fn union(&self, other: &IntervalSet) -> IntervalSet {
        let mut all = self.iv.clone();
        all.extend_from_slice(&other.iv);
        IntervalSet::from_ranges(&all)
    }

    pub fn intersection(&self, other: &IntervalSet) -> IntervalSet {
        let mut out = Vec::new();
        for (a, b) in &self.iv {
            for (c, d) in &other.iv {
                let lo = (*a).max(*c);
                let hi = (*b).min(*d);
                if lo <= hi {
                    out.push((lo, hi));
                }
            }
        }
        IntervalSet::from_ranges(&out)
    }

    pub fn difference(&self, other: &IntervalSet) -> IntervalSet {
        let mut out = Vec::new();
        for (a, b) in &self.iv {
            let mut cur = *a;
            let mut done = false;
            for (c, d) in &other.iv {
                if *d < cur {
                    continue;
                }
                if *c > *b {
                    break;
                }
                if *c > cur {
                    out.push((cur, *c - 1));
                }
                if *d >= *b {
                    done = true;
                    break;
                }
                cur = *d + 1;
            }
            if !done && cur <= *b {
                out.push((cur, *b));
            }
        }
        IntervalSet::from_ranges(&out)
    }

    /// Number of elements if it fits into u128 (it does unless the set is everything).
    pub fn count(&self) -> Option<u128> {
        let mut n: u128 = 0;
        for (lo, hi) in &self.iv {
            let len = (hi - lo).checked_add(1)?;
            n = n.checked_add(len)?;
        }
        Some(n)
    }
}

#[cfg(test)]
mod test {
    use super::*;

    #[test]
    fn basics() {
        let a = IntervalSet::from_ranges(&[(10, 20), (30, 40), (15, 35)]);
        assert_eq!(a.iv, vec![(10, 40)]);
        let b = IntervalSet::from_ranges(&[(0, 4), (5, 9), (41, 41)]);
        assert_eq!(b.iv, vec![(0, 9), (41, 41)]);
        assert_eq!(a.union(&b).iv, vec![(0, 41)]);
        assert!(a.intersection(&b).is_empty());
        let c = IntervalSet::from_ranges(&[(12, 13), (20, 30), (40, 50)]);
        assert_eq!(a.difference(&c).iv, vec![(10, 11), (14, 19), (31, 39)]);
        assert_eq!(a.intersection(&c).iv, vec![(12, 13), (20, 30), (40, 40)]);
        let all = IntervalSet::from_ranges(&[(0, u128::MAX)]);
        assert_eq!(all.count(), None);
        assert_eq!(all.difference(&a).iv, vec![(0, 9), (41, u128::MAX)]);
        assert_eq!(a.count(), Some(31));
        let m = IntervalSet::from_ranges(&[(u128::MAX, u128::MAX), (u128::MAX - 1, u128::MAX - 1)]);
        assert_eq!(m.iv, vec![(u128::MAX - 1, u128::MAX)]);
    }
}
