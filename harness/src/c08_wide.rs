//! C08 (wide) — what lies outside one small connection.
//!
//! The statement is about *one* connection: its responses are a function of
//! the bytes its client sent and of the data source, and of nothing else. The
//! main monitor (`c08.rs`) varies how those bytes arrive. This part varies the
//! "nothing else":
//!
//! * **other connections and the listener** — several scripted connections on
//!   one `Server::run`, accepted at chosen moments, stalled (blocked writing,
//!   half a header delivered), misbehaving (garbage, client Error PDU, hanging
//!   up), while the listener stream yields an error or ends. Every connection
//!   is judged on its own against its single-connection reference, and every
//!   notification fired at a connection that is demonstrably idle must show up
//!   there as a Serial Notify, whatever the *other* connections are doing;
//! * **response size** — data sources whose payload items have variable parts
//!   of 1 .. 64 k octets (router key info, ASPA provider lists) around the
//!   powers of two, on plain, buffering and vectored sockets with output
//!   capacity granted in pieces. Here the output is not only compared with the
//!   trivial schedule (a deterministic corruption would be the same in both)
//!   but with the octets the protocol documents prescribe, built by the
//!   independent PDU encoder of `c07_io` from the harness' own description of
//!   the source (payload PDUs of one response compared as a multiset).

use super::io::{locate, settle_all, ConstSource, Place, ReadLabel, ScriptedSocket, ServerEnd, SourceData};
use super::{describe_pdus, read_labels, strip_notifies, SERIAL_NOW, SERIAL_OLD, SESSION};
use crate::c07_io::Pdu;
use crate::core::{hex, panic_location, take_last_panic, Ctx, Rng, Stage, Tier};
use futures_util::stream::Stream;
use rpki::resources::addr::{MaxLenPrefix, Prefix};
use rpki::resources::asn::Asn;
use rpki::rtr::payload::{Action, Aspa, Payload, RouteOrigin, RouterKey, Timing};
use rpki::rtr::pdu::{ProviderAsns, RouterKeyInfo};
use rpki::rtr::server::{NotifySender, Server};
use rpki::rtr::state::State;
use serde_json::{json, Value};
use std::collections::BTreeMap;
use std::io;
use std::net::{IpAddr, Ipv4Addr, Ipv6Addr};
use std::pin::Pin;
use std::sync::Arc;
use std::task::{Context, Poll};
use tokio::sync::mpsc::{unbounded_channel, UnboundedReceiver};

/// Largest key info the harness asks for (the library's own limit is checked by `RouterKeyInfo::new`).
const MAX_KEY_INFO: usize = 65000;

//------------ the source, described by the harness ---------------------------------

#[derive(Clone, Debug)]
pub enum MItem {
    V4 { plen: u8, mlen: u8, addr: u32, asn: u32 },
    V6 { plen: u8, mlen: u8, addr: u128, asn: u32 },
    Key { ski: [u8; 20], asn: u32, info: Vec<u8> },
    Aspa { customer: u32, providers: Vec<u32> },
}

impl MItem {
    fn min_version(&self) -> u8 {
        match self {
            MItem::V4 { .. } | MItem::V6 { .. } => 0,
            MItem::Key { .. } => 1,
            MItem::Aspa { .. } => 2,
        }
    }

    fn payload(&self) -> Payload {
        match self {
            MItem::V4 { plen, mlen, addr, asn } => {
                let p = Prefix::new(IpAddr::V4(Ipv4Addr::from(*addr)), *plen).expect("v4 prefix");
                Payload::Origin(RouteOrigin::new(MaxLenPrefix::new(p, Some(*mlen)).expect("maxlen"), Asn::from_u32(*asn)))
            }
            MItem::V6 { plen, mlen, addr, asn } => {
                let p = Prefix::new(IpAddr::V6(Ipv6Addr::from(*addr)), *plen).expect("v6 prefix");
                Payload::Origin(RouteOrigin::new(MaxLenPrefix::new(p, Some(*mlen)).expect("maxlen"), Asn::from_u32(*asn)))
            }
            MItem::Key { ski, asn, info } => Payload::RouterKey(RouterKey::new(
                (*ski).into(),
                Asn::from_u32(*asn),
                RouterKeyInfo::new(bytes::Bytes::from(info.clone())).expect("key info"),
            )),
            MItem::Aspa { customer, providers } => Payload::Aspa(Aspa::new(
                Asn::from_u32(*customer),
                ProviderAsns::try_from_iter(providers.iter().map(|p| Asn::from_u32(*p))).expect("providers"),
            )),
        }
    }

    /// The PDU the documents prescribe for this item.
    fn pdu(&self, v: u8, flags: u8) -> Pdu {
        match self {
            MItem::V4 { plen, mlen, addr, asn } => {
                Pdu::V4 { v, flags, plen: *plen, mlen: *mlen, addr: *addr, asn: *asn, via_item: true, explicit_max: true }
            }
            MItem::V6 { plen, mlen, addr, asn } => {
                Pdu::V6 { v, flags, plen: *plen, mlen: *mlen, addr: *addr, asn: *asn, via_item: true, explicit_max: true }
            }
            MItem::Key { ski, asn, info } => Pdu::RouterKey { v, flags, ski: *ski, asn: *asn, info: info.clone(), via_item: true },
            MItem::Aspa { customer, providers } => {
                Pdu::Aspa { v, flags, customer: *customer, providers: providers.clone(), via_item: true }
            }
        }
    }

    fn variable_octets(&self) -> usize {
        match self {
            MItem::Key { info, .. } => info.len(),
            MItem::Aspa { providers, .. } => providers.len() * 4,
            _ => 0,
        }
    }
}

#[derive(Clone, Debug)]
pub struct MSource {
    pub full: Vec<MItem>,
    /// (item, announce?)
    pub diff: Vec<(MItem, bool)>,
    pub timing: (u32, u32, u32),
}

impl MSource {
    fn to_const(&self) -> ConstSource {
        ConstSource(Arc::new(SourceData {
            ready: true,
            state: State::from_parts(SESSION, SERIAL_NOW.into()),
            diff_from: State::from_parts(SESSION, SERIAL_OLD.into()),
            timing: Timing { refresh: self.timing.0, retry: self.timing.1, expire: self.timing.2 },
            full: self.full.iter().map(|i| i.payload()).collect(),
            diff: self.diff.iter().map(|(i, a)| (i.payload(), if *a { Action::Announce } else { Action::Withdraw })).collect(),
        }))
    }

    fn max_variable(&self) -> usize {
        self.full.iter().chain(self.diff.iter().map(|d| &d.0)).map(|i| i.variable_octets()).max().unwrap_or(0)
    }
}

/// The small constant source of the main monitor, in model terms.
fn small_source() -> MSource {
    let v4a = MItem::V4 { plen: 24, mlen: 24, addr: 0xC000_0200, asn: 64496 };
    let v6a = MItem::V6 { plen: 32, mlen: 48, addr: 0x2001_0db8u128 << 96, asn: 64498 };
    MSource {
        full: vec![
            v4a.clone(),
            MItem::V4 { plen: 8, mlen: 16, addr: 0x0A00_0000, asn: 64497 },
            v6a.clone(),
            MItem::Key { ski: [0x5a; 20], asn: 64499, info: b"not a real subject public key info".to_vec() },
            MItem::Aspa { customer: 64500, providers: vec![64501, 64502] },
        ],
        diff: vec![(v4a, true), (MItem::V4 { plen: 24, mlen: 24, addr: 0xC633_6400, asn: 64503 }, false), (v6a, true)],
        timing: (300, 60, 900),
    }
}

/// Sizes of variable parts around the powers of two and the provider limit.
fn big_sizes(full: bool) -> Vec<usize> {
    let mut v = vec![0usize, 1, 3, 255, 256, 1020, 1024, 4092, 4096, 4100, 8188, 8192, 8196, 16380, 16384, 32768, 65000];
    if full {
        for k in [2048usize, 8184, 8200, 12288, 16376, 16388, 24576, 49152, 65480] {
            v.push(k);
        }
    }
    v.sort();
    v.dedup();
    v
}

/// A source with one router key and one ASPA whose variable parts have the given sizes (octets).
fn big_source(key_octets: usize, aspa_octets: usize, rng: &mut Rng) -> MSource {
    let key_octets = key_octets.min(MAX_KEY_INFO);
    let n_prov = (aspa_octets / 4).min(ProviderAsns::MAX_COUNT);
    let mut info = rng.bytes(key_octets);
    // make the variable part look like PDU headers now and then: a reader that lost its place would go far
    for i in (0..info.len()).step_by(64) {
        info[i] = (i / 64 % 3) as u8;
    }
    let providers: Vec<u32> = (0..n_prov as u32).map(|i| 70_000 + 3 * i).collect();
    let key = MItem::Key { ski: [0x77; 20], asn: 64511, info };
    let aspa = MItem::Aspa { customer: 64600, providers };
    let v4 = MItem::V4 { plen: 24, mlen: 24, addr: 0xC000_0200, asn: 64496 };
    let v6 = MItem::V6 { plen: 48, mlen: 64, addr: 0x2001_0db8_0001u128 << 80, asn: 64498 };
    let full = match rng.below(3) {
        0 => vec![v4.clone(), key.clone(), aspa.clone(), v6.clone()],
        1 => vec![key.clone(), aspa.clone()],
        _ => vec![v4.clone(), v6.clone(), aspa.clone(), key.clone(), MItem::V4 { plen: 8, mlen: 8, addr: 0x0A00_0000, asn: 1 }],
    };
    let diff = vec![(v4, false), (key, rng.bool()), (aspa, true), (v6, true)];
    MSource { full, diff, timing: (3600, 600, 7200) }
}

//------------ what the documents prescribe for a stream of well-formed queries ---------

#[derive(Clone, Copy, Debug, PartialEq, Eq)]
pub enum Q {
    Reset,
    SerialCurrent,
    SerialOld,
    SerialUnknown,
}

fn query_bytes(v: u8, q: Q) -> Vec<u8> {
    match q {
        Q::Reset => Pdu::ResetQuery { v }.encode(),
        Q::SerialCurrent => Pdu::SerialQuery { v, session: SESSION, serial: SERIAL_NOW }.encode(),
        Q::SerialOld => Pdu::SerialQuery { v, session: SESSION, serial: SERIAL_OLD }.encode(),
        Q::SerialUnknown => Pdu::SerialQuery { v, session: SESSION ^ 0x5555, serial: SERIAL_NOW }.encode(),
    }
}

struct Resp {
    head: Vec<u8>,
    items: Vec<Vec<u8>>,
    tail: Vec<u8>,
}

fn expected(v: u8, queries: &[Q], src: &MSource) -> Vec<Resp> {
    let eod = Pdu::EndOfData { v, session: SESSION, serial: SERIAL_NOW, refresh: src.timing.0, retry: src.timing.1, expire: src.timing.2 }.encode();
    let cr = Pdu::CacheResponse { v, session: SESSION }.encode();
    queries
        .iter()
        .map(|q| match q {
            Q::SerialUnknown => Resp { head: Pdu::CacheReset { v }.encode(), items: vec![], tail: vec![] },
            Q::SerialCurrent => Resp { head: cr.clone(), items: vec![], tail: eod.clone() },
            Q::Reset => {
                let mut items: Vec<Vec<u8>> = src.full.iter().filter(|i| i.min_version() <= v).map(|i| i.pdu(v, 1).encode()).collect();
                items.sort();
                Resp { head: cr.clone(), items, tail: eod.clone() }
            }
            Q::SerialOld => {
                let mut items: Vec<Vec<u8>> =
                    src.diff.iter().filter(|(i, _)| i.min_version() <= v).map(|(i, a)| i.pdu(v, *a as u8).encode()).collect();
                items.sort();
                Resp { head: cr.clone(), items, tail: eod.clone() }
            }
        })
        .collect()
}

/// Compares an output (Serial Notify already removed) with the prescribed responses.
fn match_prescribed(out: &[u8], resps: &[Resp]) -> Result<(), String> {
    let mut pos = 0usize;
    for (n, r) in resps.iter().enumerate() {
        if out.len() < pos + r.head.len() || out[pos..pos + r.head.len()] != r.head[..] {
            return Err(format!("response {}: does not start with the prescribed {} at output offset {}", n, describe_pdus(&r.head), pos));
        }
        pos += r.head.len();
        let mut got: Vec<Vec<u8>> = Vec::with_capacity(r.items.len());
        for _ in 0..r.items.len() {
            if out.len() < pos + 8 {
                return Err(format!("response {}: output ends after {} of {} payload PDUs", n, got.len(), r.items.len()));
            }
            let len = u32::from_be_bytes([out[pos + 4], out[pos + 5], out[pos + 6], out[pos + 7]]) as usize;
            if len < 8 || out.len() < pos + len {
                return Err(format!(
                    "response {}: payload PDU {} at output offset {} announces {} octets, {} are left",
                    n,
                    got.len(),
                    pos,
                    len,
                    out.len() - pos
                ));
            }
            got.push(out[pos..pos + len].to_vec());
            pos += len;
        }
        got.sort();
        if got != r.items {
            let k = got.iter().zip(r.items.iter()).position(|(a, b)| a != b).unwrap_or(0);
            return Err(format!(
                "response {}: payload PDUs differ from the source's items (as multisets); first difference: got {} ({} octets), prescribed {} ({} octets)",
                n,
                hex(&got[k][..got[k].len().min(40)]),
                got[k].len(),
                hex(&r.items[k][..r.items[k].len().min(40)]),
                r.items[k].len()
            ));
        }
        if out.len() < pos + r.tail.len() || out[pos..pos + r.tail.len()] != r.tail[..] {
            return Err(format!("response {}: not terminated by the prescribed End of Data at output offset {}", n, pos));
        }
        pos += r.tail.len();
    }
    if pos != out.len() {
        return Err(format!("{} octets after the last prescribed response", out.len() - pos));
    }
    Ok(())
}

//------------ scripts ---------------------------------------------------------------

#[derive(Clone, Copy, Debug, PartialEq, Eq)]
pub enum W {
    /// The listener yields connection k.
    Accept(u8),
    /// The listener yields an error (and is finished).
    ListenErr,
    /// The listener stream ends.
    ListenEnd,
    Deliver(u8, usize),
    Grant(u8, usize),
    Unlimit(u8),
    /// Client k closes its sending side.
    CloseClient(u8),
    Notify,
    DropSender,
    Settle,
}

#[derive(Clone, Debug)]
pub struct WConn {
    pub tag: String,
    pub stream: Vec<u8>,
    pub labels: Vec<ReadLabel>,
    pub credit: Option<usize>,
    pub buffered: bool,
    pub vectored: bool,
    /// Well-formed queries only: positions are exact, lower bound on Serial Notify applies.
    pub exact: bool,
}

impl WConn {
    fn new(tag: &str, stream: Vec<u8>, exact: bool) -> Self {
        let labels = read_labels(&stream);
        WConn { tag: tag.into(), stream, labels, credit: None, buffered: false, vectored: false, exact }
    }

    fn socket_text(&self) -> String {
        format!(
            "{}{}{}",
            match self.credit {
                None => "cap=inf".to_string(),
                Some(c) => format!("cap={}", c),
            },
            if self.buffered { " buffering" } else { "" },
            if self.vectored { " vectored" } else { "" }
        )
    }
}

#[derive(Clone, Debug)]
pub struct WScript {
    pub conns: Vec<WConn>,
    pub steps: Vec<W>,
    /// Output limit per socket.
    pub limit: usize,
}

impl WScript {
    fn to_text(&self) -> String {
        let mut s = String::new();
        for (k, c) in self.conns.iter().enumerate() {
            s.push_str(&format!("[conn{} {} {}] ", k, c.tag, c.socket_text()));
        }
        for st in &self.steps {
            match st {
                W::Accept(k) => s.push_str(&format!("accept{} ", k)),
                W::ListenErr => s.push_str("LISTENER-ERR "),
                W::ListenEnd => s.push_str("LISTENER-END "),
                W::Deliver(k, n) => s.push_str(&format!("D{}:{} ", k, n)),
                W::Grant(k, n) => s.push_str(&format!("G{}:{} ", k, n)),
                W::Unlimit(k) => s.push_str(&format!("U{} ", k)),
                W::CloseClient(k) => s.push_str(&format!("close{} ", k)),
                W::Notify => s.push_str("N "),
                W::DropSender => s.push_str("X "),
                W::Settle => s.push_str("S "),
            }
        }
        s.push_str("[rest S U S close S]");
        s
    }

    fn without(&self, drop: impl Fn(&W) -> bool) -> WScript {
        WScript { conns: self.conns.clone(), steps: self.steps.iter().copied().filter(|s| !drop(s)).collect(), limit: self.limit }
    }
}

pub struct WConnOut {
    pub out: Vec<u8>,
    pub accepted: bool,
    pub owed: usize,
    pub fired: usize,
    pub dropped: bool,
    pub overflow: bool,
    pub places: Vec<String>,
    pub unflushed_idle: Option<(usize, Vec<u8>)>,
    pub vectored_writes: u32,
}

pub struct WOut {
    pub conns: Vec<WConnOut>,
    pub bound_hit: bool,
    pub panic: Option<String>,
    /// What `Server::run` returned: Some(true) = Ok, Some(false) = Err.
    pub run_ok: Option<bool>,
}

struct Listener(UnboundedReceiver<Result<ServerEnd, io::Error>>);

impl Stream for Listener {
    type Item = Result<ServerEnd, io::Error>;
    fn poll_next(mut self: Pin<&mut Self>, cx: &mut Context<'_>) -> Poll<Option<Self::Item>> {
        self.0.poll_recv(cx)
    }
}

/// Runs the real `Server::run` with a scripted listener and several scripted connections.
pub fn run_wide(rt: &tokio::runtime::Runtime, source: &ConstSource, script: &WScript) -> WOut {
    take_last_panic();
    let n = script.conns.len();
    let socks: Vec<ScriptedSocket> =
        script.conns.iter().map(|c| ScriptedSocket::new_mode(c.credit, c.buffered, c.vectored, script.limit)).collect();
    let mut accepted = vec![false; n];
    let mut started = vec![false; n];
    let mut unconsumed = vec![false; n];
    let mut owed = vec![0usize; n];
    let mut fired = vec![0usize; n];
    let mut offset = vec![0usize; n];
    let mut places: Vec<Vec<String>> = vec![Vec::new(); n];
    let mut unflushed: Vec<Option<(usize, Vec<u8>)>> = vec![None; n];
    let mut cut_short = vec![false; n];
    let (bound_hit, run_ok) = rt.block_on(async {
        let (tx, rx) = unbounded_channel();
        let mut tx = Some(tx);
        let mut sender = Some(NotifySender::new());
        let server = Server::new(Listener(rx), sender.as_ref().unwrap().clone(), source.clone());
        let handle = tokio::spawn(server.run());
        let mut bound_hit = false;
        let mut settled = false;
        let idle_check = |k: usize, unflushed: &mut Vec<Option<(usize, Vec<u8>)>>| {
            let s = socks[k].snapshot();
            if unflushed[k].is_none() && s.polled && !s.dropped && s.parked_read_empty && s.pending_input == 0 && !s.parked_write {
                let p = socks[k].unflushed();
                if !p.is_empty() {
                    unflushed[k] = Some((s.out_len, p));
                }
            }
        };
        for step in &script.steps {
            let was_settled = settled;
            settled = false;
            match *step {
                W::Accept(k) => {
                    let k = k as usize;
                    if let Some(tx) = tx.as_ref() {
                        if !accepted[k] && tx.send(Ok(socks[k].server_end())).is_ok() {
                            accepted[k] = true;
                        }
                    }
                }
                W::ListenErr => {
                    if let Some(t) = tx.take() {
                        let _ = t.send(Err(io::Error::new(io::ErrorKind::Other, "accept failed: too many open files")));
                    }
                }
                W::ListenEnd => tx = None,
                W::Deliver(k, len) => {
                    let k = k as usize;
                    let end = (offset[k] + len).min(script.conns[k].stream.len());
                    socks[k].deliver(&script.conns[k].stream[offset[k]..end]);
                    offset[k] = end;
                }
                W::Grant(k, g) => socks[k as usize].grant(Some(g)),
                W::Unlimit(k) => socks[k as usize].grant(None),
                W::CloseClient(k) => {
                    // whatever the script has not delivered by now is never sent
                    let k = k as usize;
                    if offset[k] < script.conns[k].stream.len() {
                        cut_short[k] = true;
                        offset[k] = script.conns[k].stream.len();
                    }
                    socks[k].close()
                }
                W::DropSender => sender = None,
                W::Notify => {
                    if let Some(sender) = sender.as_mut() {
                        for k in 0..n {
                            if !accepted[k] {
                                continue;
                            }
                            fired[k] += 1;
                            let pos = locate(&socks[k], &script.conns[k].labels);
                            places[k].push(pos.place.name());
                            if started[k] && was_settled && !pos.same_tick && !unconsumed[k] {
                                match pos.place {
                                    Place::Idle | Place::Header(_) => owed[k] += 1,
                                    Place::MidResponse | Place::MidOtherPdu | Place::BlockedAtBoundary => {
                                        owed[k] += 1;
                                        unconsumed[k] = true;
                                    }
                                    Place::Payload(_) => unconsumed[k] = true,
                                    _ => {}
                                }
                            } else if !matches!(pos.place, Place::Closed) {
                                unconsumed[k] = true;
                            }
                        }
                        sender.notify();
                    }
                }
                W::Settle => {
                    bound_hit |= !settle_all(&socks).await;
                    settled = !bound_hit;
                    for k in 0..n {
                        idle_check(k, &mut unflushed);
                        if !accepted[k] {
                            continue;
                        }
                        let pos = locate(&socks[k], &script.conns[k].labels);
                        if settled && socks[k].snapshot().polled {
                            started[k] = true;
                        }
                        if settled && !pos.same_tick && matches!(pos.place, Place::Idle | Place::Header(_)) {
                            unconsumed[k] = false;
                        }
                    }
                }
            }
        }
        for k in 0..n {
            if accepted[k] {
                socks[k].deliver(&script.conns[k].stream[offset[k]..]);
            }
        }
        bound_hit |= !settle_all(&socks).await;
        for s in &socks {
            s.grant(None);
        }
        bound_hit |= !settle_all(&socks).await;
        for k in 0..n {
            idle_check(k, &mut unflushed);
        }
        for s in &socks {
            s.close();
        }
        bound_hit |= !settle_all(&socks).await;
        drop(tx);
        let run_ok = match handle.await {
            Ok(r) => Some(r.is_ok()),
            Err(_) => None,
        };
        (bound_hit, run_ok)
    });
    let conns = (0..n)
        .map(|k| {
            let snap = socks[k].snapshot();
            WConnOut {
                out: socks[k].output(),
                accepted: accepted[k] && !cut_short[k],
                owed: if script.conns[k].exact { owed[k] } else { 0 },
                fired: fired[k],
                dropped: snap.dropped,
                overflow: socks[k].overflowed(),
                places: places[k].clone(),
                unflushed_idle: unflushed[k].take(),
                vectored_writes: socks[k].vectored_writes(),
            }
        })
        .collect();
    WOut { conns, bound_hit, panic: take_last_panic(), run_ok }
}

//------------ judging ---------------------------------------------------------------

struct Judged {
    conn: usize,
    what: &'static str,
    desc: String,
}

fn judge_conn(k: usize, reference: &[u8], c: &WConnOut) -> Option<Judged> {
    let s = strip_notifies(&c.out);
    if let Some((delivered, held)) = &c.unflushed_idle {
        return Some(Judged {
            conn: k,
            what: "not-flushed-before-waiting",
            desc: format!("connection {} went back to waiting with {} written but not flushed (after {} delivered octets)", k, describe_pdus(held), delivered),
        });
    }
    if s.incomplete {
        return Some(Judged { conn: k, what: "serial-notify-incomplete", desc: format!("connection {}: incomplete Serial Notify", k) });
    }
    if s.rest != reference {
        return Some(Judged {
            conn: k,
            what: "output-differs",
            desc: format!(
                "connection {}: output (Serial Notify removed) is {} ({} octets), its single-connection reference is {} ({} octets)",
                k,
                short_pdus(&s.rest),
                s.rest.len(),
                short_pdus(reference),
                reference.len()
            ),
        });
    }
    if s.inside_response {
        return Some(Judged { conn: k, what: "serial-notify-inside-response", desc: format!("connection {}: Serial Notify between Cache Response and End of Data", k) });
    }
    if s.notifies > c.fired {
        return Some(Judged {
            conn: k,
            what: "serial-notify-more-than-fired",
            desc: format!("connection {}: {} Serial Notify PDUs for {} notifications fired after it was accepted", k, s.notifies, c.fired),
        });
    }
    if s.notifies < c.owed && !c.overflow {
        return Some(Judged {
            conn: k,
            what: "notification-lost",
            desc: format!(
                "connection {}: {} notifications were fired one at a time while it was parked between queries, inside a header or blocked writing (sender alive), but it sent only {} Serial Notify PDUs",
                k, c.owed, s.notifies
            ),
        });
    }
    None
}

fn short_pdus(data: &[u8]) -> String {
    let d = describe_pdus(data);
    if d.len() > 300 {
        format!("{} ...", &d[..300])
    } else {
        d
    }
}

fn judge_all(refs: &[Vec<u8>], out: &WOut) -> Option<Judged> {
    for (k, c) in out.conns.iter().enumerate() {
        if !c.accepted {
            continue;
        }
        if let Some(j) = judge_conn(k, &refs[k], c) {
            return Some(j);
        }
    }
    None
}

//------------ the monitor -----------------------------------------------------------

struct Wide<'a> {
    ctx: &'a mut Ctx,
    rt: tokio::runtime::Runtime,
    evals: u64,
    refs: BTreeMap<(String, String), Option<Vec<u8>>>,
    counts: BTreeMap<String, u64>,
}

impl<'a> Wide<'a> {
    fn count(&mut self, key: &str, n: u64) {
        *self.counts.entry(key.to_string()).or_insert(0) += n;
    }

    /// The single-connection reference: everything in one piece on a plain socket, no notification.
    fn reference(&mut self, src_tag: &str, source: &ConstSource, conn: &WConn, limit: usize) -> Option<Vec<u8>> {
        let key = (src_tag.to_string(), hex(&conn.stream));
        if let Some(r) = self.refs.get(&key) {
            return r.clone();
        }
        let mut plain = conn.clone();
        plain.credit = None;
        plain.buffered = false;
        plain.vectored = false;
        let script = WScript { conns: vec![plain], steps: vec![W::Accept(0), W::Settle], limit };
        let r = run_wide(&self.rt, source, &script);
        self.evals += 1;
        let res = if r.bound_hit {
            self.count("runs_without_verdict_settle_bound", 1);
            None
        } else if let Some(p) = &r.panic {
            self.ctx.violation(
                &format!("C08:panic:reference:{}", panic_location(p)),
                &format!("server task panicked: {}", p),
                json!({"stream": conn.tag, "stream_hex": hex(&conn.stream), "source": src_tag}),
            );
            None
        } else if r.conns[0].overflow {
            self.ctx.violation(
                "C08:reference-output-runaway",
                &format!("server wrote more than the {} octets the scripted socket allows for this source", limit),
                json!({"stream": conn.tag, "stream_hex": hex(&conn.stream), "source": src_tag}),
            );
            None
        } else {
            Some(r.conns[0].out.clone())
        };
        self.refs.insert(key, res.clone());
        res
    }

    fn detail(&self, script: &WScript, refs: &[Vec<u8>], out: &WOut, src_tag: &str) -> Value {
        let cap = |d: &[u8]| if d.len() > 600 { format!("{}..({} octets)", hex(&d[..600]), d.len()) } else { hex(d) };
        json!({
            "source": src_tag,
            "script": script.to_text(),
            "server_run_returned": match out.run_ok { Some(true) => "Ok", Some(false) => "Err", None => "task failed" },
            "connections": script.conns.iter().enumerate().map(|(k, c)| json!({
                "stream": c.tag, "stream_hex": cap(&c.stream), "socket": c.socket_text(),
                "accepted": out.conns[k].accepted,
                "notify_positions": out.conns[k].places,
                "notifications_fired_after_accept": out.conns[k].fired,
                "serial_notify_owed": out.conns[k].owed,
                "reference_output": short_pdus(&refs[k]), "reference_hex": cap(&refs[k]),
                "candidate_output": short_pdus(&out.conns[k].out), "candidate_hex": cap(&out.conns[k].out),
                "connection_task_gone_at_end": out.conns[k].dropped,
            })).collect::<Vec<_>>(),
        })
    }

    /// Runs a script and judges every connection. `prescribed`: per connection, the
    /// responses the documents prescribe (exact streams on model sources).
    fn candidate(&mut self, class: &str, src_tag: &str, source: &ConstSource, script: &WScript, prescribed: Option<&[Vec<Resp>]>) {
        let mut refs = Vec::new();
        for c in &script.conns {
            match self.reference(src_tag, source, c, script.limit) {
                Some(r) => refs.push(r),
                None => return,
            }
        }
        let out = run_wide(&self.rt, source, script);
        self.evals += 1;
        self.count(&format!("wide_scripts_{}", &class[..class.find(':').unwrap_or(class.len())]), 1);
        if script.steps.contains(&W::ListenErr) {
            self.count("listener_errors_injected", 1);
            if out.run_ok == Some(false) {
                self.count("server_run_returned_err_after_listener_error", 1);
            }
        }
        for c in &out.conns {
            if c.accepted {
                self.count("wide_connections_served", 1);
                self.count("wide_serial_notify_owed", c.owed as u64);
                self.count("wide_vectored_writes_seen", c.vectored_writes as u64);
            }
        }
        if out.bound_hit {
            self.count("runs_without_verdict_settle_bound", 1);
            return;
        }
        // evidence class
        let mut pl: Vec<String> = out.conns.iter().enumerate().flat_map(|(k, c)| c.places.iter().map(move |p| format!("{}@c{}", p, k))).collect();
        pl.sort();
        pl.dedup();
        let socks: Vec<String> = script
            .conns
            .iter()
            .map(|c| {
                format!(
                    "{}{}{}",
                    match c.credit {
                        None => "inf".to_string(),
                        Some(x) if x < 128 => x.to_string(),
                        Some(x) => format!("2^{}", usize::BITS - x.leading_zeros() - 1),
                    },
                    if c.buffered { "b" } else { "" },
                    if c.vectored { "v" } else { "" }
                )
            })
            .collect();
        self.ctx.sig(&format!(
            "wide | {} | {} | streams [{}] | sockets [{}] | notify at [{}]",
            class,
            src_tag,
            script.conns.iter().map(|c| c.tag.clone()).collect::<Vec<_>>().join(" ; "),
            socks.join(" "),
            pl.join(" ")
        ));
        if let Some(p) = &out.panic {
            let d = self.detail(script, &refs, &out, src_tag);
            self.ctx.violation(&format!("C08:panic:connection:{}", panic_location(p)), &format!("server task panicked: {}", p), d);
            return;
        }
        // prescribed octets (model oracle), on the candidate itself
        if let Some(pres) = prescribed {
            for (k, c) in out.conns.iter().enumerate() {
                if !c.accepted || c.overflow {
                    continue;
                }
                let s = strip_notifies(&c.out);
                if let Err(msg) = match_prescribed(&s.rest, &pres[k]) {
                    let d = self.detail(script, &refs, &out, src_tag);
                    let big = script.limit > super::io::OUTPUT_HARD_LIMIT;
                    self.ctx.violation(
                        if big { "C08:large-response-not-as-prescribed" } else { "C08:response-not-as-prescribed" },
                        &format!("connection {}: {}", k, msg),
                        d,
                    );
                    return;
                }
                self.count("responses_compared_with_prescribed_octets", pres[k].len() as u64);
            }
        }
        match judge_all(&refs, &out) {
            None => {
                let key = format!("wide-{}", &class[..class.find(':').unwrap_or(class.len())]);
                if self.ctx.wants_sample(&key) {
                    let d = json!({
                        "script": script.to_text(), "source": src_tag,
                        "server_run_returned": match out.run_ok { Some(true) => "Ok", Some(false) => "Err", None => "task failed" },
                        "outputs": out.conns.iter().map(|c| short_pdus(&c.out)).collect::<Vec<_>>(),
                        "notify_positions": out.conns.iter().map(|c| c.places.clone()).collect::<Vec<_>>(),
                        "verdict": "every connection equal to its single-connection reference after removing Serial Notify; Serial Notify counts within bounds",
                    });
                    self.ctx.sample(&key, || d);
                }
            }
            Some(j) => {
                // attribution: which ingredient of the script is needed
                let has_listener = script.steps.iter().any(|s| matches!(s, W::ListenErr | W::ListenEnd));
                let mut cause = "schedule";
                let mut shown = script.clone();
                let mut shown_out = None;
                if has_listener {
                    let v = script.without(|s| matches!(s, W::ListenErr | W::ListenEnd));
                    let o = run_wide(&self.rt, source, &v);
                    if !o.bound_hit && o.panic.is_none() && judge_all(&refs, &o).is_none() {
                        cause = if script.steps.contains(&W::ListenErr) { "listener-error" } else { "listener-end" };
                    } else {
                        shown = v;
                        shown_out = Some(o);
                    }
                }
                if cause == "schedule" && script.conns.len() > 1 {
                    // the failing connection alone, same steps
                    let k = j.conn as u8;
                    let mut solo = shown.without(|s| match s {
                        W::Accept(x) | W::Deliver(x, _) | W::Grant(x, _) | W::Unlimit(x) | W::CloseClient(x) => *x != k,
                        _ => false,
                    });
                    solo.conns = vec![script.conns[j.conn].clone()];
                    for s in solo.steps.iter_mut() {
                        match s {
                            W::Accept(x) | W::Deliver(x, _) | W::Grant(x, _) | W::Unlimit(x) | W::CloseClient(x) => *x = 0,
                            _ => {}
                        }
                    }
                    let o = run_wide(&self.rt, source, &solo);
                    if !o.bound_hit && o.panic.is_none() && judge_all(&refs[j.conn..j.conn + 1], &o).is_none() {
                        cause = "other-connection";
                    }
                }
                let out_for_detail = shown_out.as_ref().unwrap_or(&out);
                let mut d = self.detail(&shown, &refs, out_for_detail, src_tag);
                d["as_generated"] = json!(script.to_text());
                let big = script.limit > super::io::OUTPUT_HARD_LIMIT;
                let sig = match (j.what, cause) {
                    (w, "schedule") if big => format!("C08:large-response:{}", w),
                    (w, "schedule") => format!("C08:{}", w),
                    (w, c) => format!("C08:{}:{}", c, w),
                };
                self.ctx.violation(&sig, &format!("{} (needs: {})", j.desc, cause), d);
            }
        }
    }
}

//------------ workloads ---------------------------------------------------------------

fn stream_of(v: u8, qs: &[Q]) -> (String, Vec<u8>) {
    let mut b = Vec::new();
    let mut t = Vec::new();
    for q in qs {
        b.extend(query_bytes(v, *q));
        t.push(match q {
            Q::Reset => "RQ",
            Q::SerialCurrent => "SQcur",
            Q::SerialOld => "SQold",
            Q::SerialUnknown => "SQsess",
        });
    }
    (format!("v{}:{}", v, t.join(",")), b)
}

fn exact_conn(v: u8, qs: &[Q]) -> WConn {
    let (tag, bytes) = stream_of(v, qs);
    WConn::new(&tag, bytes, true)
}

/// Connections that misbehave: what they do must stay their own business.
fn rogue_conns() -> Vec<WConn> {
    let mut err = vec![1u8, 10, 0, 2, 0, 0, 0, 19, 0, 0, 0, 0, 0, 0, 0, 3];
    err.extend_from_slice(b"bye");
    vec![
        WConn::new("garbage", vec![0xde, 0xad, 0xbe, 0xef, 0x01, 0x02, 0x03, 0x04, 0x05], false),
        WConn::new("client-error-pdu", err, false),
        WConn::new("unsupported-version", Pdu::ResetQuery { v: 9 }.encode(), false),
        WConn::new("half-a-header-then-eof", vec![1, 2, 0], false),
        WConn::new("silent", vec![], false),
    ]
}

use W::{Accept as A, CloseClient as CL, Deliver as D, Grant as G, ListenEnd as LEND, ListenErr as LERR, Notify as N, Settle as S, Unlimit as U};

/// Enumerated two-connection and listener scripts around one connection of interest.
fn multi_scripts(main: &WConn, others: &[WConn], full: bool) -> Vec<(&'static str, WScript)> {
    let mut v: Vec<(&'static str, WScript)> = Vec::new();
    let len = main.stream.len();
    let limit = 0usize;
    let cuts: Vec<usize> = if full { (0..=len).collect() } else { (0..=len).filter(|c| matches!(c % 8, 0 | 3 | 7) || *c == len).collect() };
    let mk = |conns: Vec<WConn>, steps: Vec<W>| WScript { conns, steps, limit };
    // --- listener events while the connection is at a cut
    for &c in &cuts {
        v.push(("L1:cut,listener-error,rest,notify", mk(vec![main.clone()], vec![A(0), S, D(0, c), S, LERR, S, D(0, len - c), S, N, S])));
        v.push(("L2:cut,listener-end,rest,notify", mk(vec![main.clone()], vec![A(0), S, D(0, c), S, LEND, S, D(0, len - c), S, N, S])));
        v.push(("L3:cut+listener-error-same-tick", mk(vec![main.clone()], vec![A(0), S, D(0, c), LERR, S, N, S])));
        if c % 3 == 0 || full {
            v.push(("L4:accept+listener-error-same-tick", mk(vec![main.clone()], vec![A(0), LERR, D(0, c), S, N, S])));
            v.push(("L5:cut,notify,listener-error,notify", mk(vec![main.clone()], vec![A(0), S, D(0, c), S, N, S, LERR, S, N, S])));
        }
    }
    // --- listener error while the connection is blocked writing
    for cap in [0usize, 9, 28, 61, 120] {
        let mut m = main.clone();
        m.credit = Some(cap);
        v.push(("L6:blocked-writing,listener-error,drain", mk(vec![m.clone()], vec![A(0), S, D(0, len), S, LERR, S, N, S, G(0, 7), S, U(0), S, N, S])));
        v.push(("L7:blocked-writing,listener-end,drain", mk(vec![m], vec![A(0), S, D(0, len), S, LEND, S, N, S, U(0), S])));
    }
    // --- a second connection
    for (oi, other) in others.iter().enumerate() {
        let olen = other.stream.len();
        for &c in &cuts {
            if !full && (c + oi) % 2 == 1 {
                continue;
            }
            // other is accepted, served and hangs up while main is at the cut
            v.push((
                "M1:cut,other-connection-comes-and-goes,notify",
                mk(vec![main.clone(), other.clone()], vec![A(0), S, D(0, c), S, A(1), S, D(1, olen), S, N, S, CL(1), S, N, S, D(0, len - c), S, N, S]),
            ));
            // both there from the start, the other one idle: notifications at main's cut
            v.push((
                "M2:both-accepted,cut,notify-twice",
                mk(vec![main.clone(), other.clone()], vec![A(0), A(1), S, D(1, olen), S, D(0, c), S, N, S, N, S]),
            ));
        }
        // main stalled (blocked writing), the other idle: each notification is owed to the idle one
        for cap in [0usize, 9, 28, 61] {
            let mut m = main.clone();
            m.credit = Some(cap);
            v.push((
                "M3:main-blocked-writing,other-idle,notify-thrice",
                mk(vec![m.clone(), other.clone()], vec![A(0), A(1), S, D(1, olen), S, D(0, len), S, N, S, N, S, N, S, U(0), S, N, S]),
            ));
            // the other way round: the other one is stalled, main idle after its stream
            let mut o = other.clone();
            o.credit = Some(cap);
            v.push((
                "M4:other-blocked-writing,main-idle,notify-thrice",
                mk(vec![main.clone(), o], vec![A(0), A(1), S, D(0, len), S, D(1, olen), S, N, S, N, S, N, S, U(1), S, N, S]),
            ));
        }
        // main stalled inside a header / a serial-query payload, other idle
        for c in [1usize, 4, 7, 9, 11] {
            if c >= len {
                continue;
            }
            v.push((
                "M5:main-mid-pdu,other-idle,notify-thrice",
                mk(vec![main.clone(), other.clone()], vec![A(0), A(1), S, D(1, olen), S, D(0, c), S, N, S, N, S, N, S]),
            ));
            v.push((
                "M6:other-mid-pdu,main-idle,notify-thrice",
                mk(vec![main.clone(), other.clone()], vec![A(0), A(1), S, D(0, len), S, D(1, c.min(olen.saturating_sub(1))), S, N, S, N, S, N, S]),
            ));
        }
        // listener error with two established connections
        v.push((
            "L8:two-connections,listener-error,both-continue",
            mk(vec![main.clone(), other.clone()], vec![A(0), A(1), S, D(0, len / 2), D(1, olen / 2), S, LERR, S, N, S, D(0, len - len / 2), S, D(1, olen - olen / 2), S, N, S]),
        ));
    }
    v
}

fn random_multi(rng: &mut Rng, pool: &[WConn]) -> WScript {
    let n = rng.range(1, 3) as usize;
    let mut conns: Vec<WConn> = (0..n).map(|_| rng.pick(pool).clone()).collect();
    for c in conns.iter_mut() {
        if rng.chance(1, 3) {
            c.credit = Some(rng.below(130) as usize);
        }
        c.buffered = rng.chance(1, 6);
        c.vectored = rng.chance(1, 4);
    }
    let mut steps = Vec::new();
    let mut off = vec![0usize; n];
    let mut acc = vec![false; n];
    let p_settle = *rng.pick(&[50u64, 85, 100]);
    let listener_at = if rng.chance(1, 2) { Some(rng.below(30)) } else { None };
    let listener_err = rng.bool();
    let mut t = 0u64;
    // the first connection is accepted first so that a listener event never leaves the script empty
    steps.push(A(0));
    acc[0] = true;
    loop {
        t += 1;
        if t > 120 {
            break;
        }
        if Some(t) == listener_at {
            steps.push(if listener_err { LERR } else { LEND });
        }
        let k = rng.usize_below(n);
        match rng.below(10) {
            0 | 1 if !acc[k] => {
                steps.push(A(k as u8));
                acc[k] = true;
            }
            0..=4 => {
                let left = conns[k].stream.len() - off[k];
                if left > 0 {
                    let mx = *rng.pick(&[1u64, 3, 8, 12, 40]);
                    let m = (rng.range(1, mx) as usize).min(left);
                    steps.push(D(k as u8, m));
                    off[k] += m;
                }
            }
            5 | 6 => steps.push(N),
            7 => {
                if conns[k].credit.is_some() {
                    steps.push(G(k as u8, rng.range(1, 60) as usize));
                }
            }
            8 => {
                // a client hangs up only after it has sent what it has to send
                if off[k] == conns[k].stream.len() && acc[k] && rng.chance(1, 3) {
                    steps.push(CL(k as u8));
                }
            }
            _ => {
                if rng.chance(1, 20) {
                    steps.push(W::DropSender);
                }
            }
        }
        if rng.chance(p_settle, 100) {
            steps.push(S);
        }
        if (0..n).all(|i| off[i] == conns[i].stream.len()) && rng.chance(1, 4) {
            break;
        }
    }
    // connections never accepted before the listener finished are simply not part of the run
    for k in 0..n {
        if !acc[k] {
            steps.push(A(k as u8));
        }
    }
    steps.push(S);
    WScript { conns, steps, limit: 0 }
}

/// Scripts for one big source: the stream in one piece, output capacity in pieces.
fn big_scripts(conn: &WConn, out_len: usize, rng: &mut Rng, full: bool) -> Vec<(&'static str, WScript)> {
    let limit = out_len * 2 + 4096;
    let len = conn.stream.len();
    let mut v = Vec::new();
    let mk = |c: WConn, steps: Vec<W>| WScript { conns: vec![c], steps, limit };
    let modes: &[(bool, bool)] = &[(false, false), (true, false), (false, true), (true, true)];
    for &(buffered, vectored) in modes {
        let mut c = conn.clone();
        c.buffered = buffered;
        c.vectored = vectored;
        v.push(("B0:one-piece,unlimited", mk(c.clone(), vec![A(0), S, D(0, len), S, N, S])));
        // start capacities and grant sizes around the powers of two
        let mut caps: Vec<usize> = vec![0, 7, 8, 31, 32, 33, 4095, 4096, 8191, 8192, 8193, 16384];
        if full {
            caps.extend([1usize, 12, 20, 44, 4097, 12288, 65536]);
        }
        for &cap in &caps {
            if cap > out_len + 1 {
                continue;
            }
            let mut c = c.clone();
            c.credit = Some(cap);
            let g = *rng.pick(&[1usize, 5, 13, 31, 32, 33, 1000, 4096, 8191, 8192, 8193]);
            let mut steps = vec![A(0), S, D(0, len), S];
            let rounds = if g < 64 { 60 } else { ((out_len / g) + 2).min(200) };
            for r in 0..rounds {
                steps.push(G(0, g));
                if r % 5 == 2 {
                    steps.push(N);
                }
                steps.push(S);
            }
            steps.extend([U(0), S]);
            v.push(("B1:capacity-in-pieces", mk(c, steps)));
        }
        // random walk of grants
        for _ in 0..if full { 6 } else { 2 } {
            let mut c = c.clone();
            c.credit = Some(rng.below(64) as usize);
            let mut steps = vec![A(0), S, D(0, len), S];
            let mut granted = 0usize;
            while granted < out_len && steps.len() < 400 {
                let g = match rng.below(5) {
                    0 => rng.range(1, 40) as usize,
                    1 => 1usize << rng.range(3, 14),
                    2 => (1usize << rng.range(3, 14)) + 1,
                    3 => (1usize << rng.range(3, 14)) - 1,
                    _ => rng.range(1, 9000) as usize,
                };
                granted += g;
                steps.push(G(0, g));
                if rng.chance(1, 6) {
                    steps.push(N);
                }
                if rng.chance(4, 5) {
                    steps.push(S);
                }
            }
            steps.extend([U(0), S]);
            v.push(("B2:random-grants", mk(c, steps)));
        }
    }
    v
}

pub fn run(ctx: &mut Ctx) {
    let tier = ctx.tier;
    let stage = ctx.stage;
    let seed = ctx.seed;
    let full = tier == Tier::Thorough && stage == Stage::Native;
    let slow = stage == Stage::Miri || stage == Stage::Valgrind;
    let small = small_source();
    let small_const = small.to_const();
    let mut w = Wide { ctx, rt: super::io::new_runtime(), evals: 0, refs: BTreeMap::new(), counts: BTreeMap::new() };

    // ---- connections of interest and their companions
    let mains: Vec<(u8, Vec<Q>)> = vec![
        (1, vec![Q::Reset, Q::SerialCurrent]),
        (2, vec![Q::Reset, Q::SerialUnknown, Q::SerialOld]),
        (0, vec![Q::SerialOld, Q::Reset]),
        (2, vec![Q::SerialCurrent, Q::SerialOld, Q::SerialCurrent]),
        (1, vec![Q::SerialUnknown, Q::Reset]),
    ];
    let mut others: Vec<WConn> = vec![exact_conn(2, &[Q::Reset]), exact_conn(0, &[Q::SerialCurrent, Q::Reset])];
    others.extend(rogue_conns());
    let n_main = if slow { 1 } else if full { mains.len() } else { 3 };
    let n_other = if slow { 2 } else if full { others.len() } else { 4 };
    let mut index = 0u64;
    for (v, qs) in mains.iter().take(n_main) {
        let main = exact_conn(*v, qs);
        // companions: rotate so that quick sees every kind over the mains
        let mut comp: Vec<WConn> = Vec::new();
        for i in 0..n_other {
            comp.push(others[(i + *v as usize * 2) % others.len()].clone());
        }
        let list = multi_scripts(&main, &comp, full);
        let stride = if slow { 97 } else { 1 };
        for (i, (class, script)) in list.iter().enumerate() {
            index += 1;
            if i % stride != 0 || !w.ctx.mine(index) {
                continue;
            }
            // prescribed octets for the exact connections
            let pres: Vec<Vec<Resp>> = script
                .conns
                .iter()
                .map(|c| if c.exact { expected_for_tag(&c.tag, &small) } else { Vec::new() })
                .collect();
            let all_exact = script.conns.iter().all(|c| c.exact);
            w.ctx.breadcrumb(&format!("wide {} {}", class, script.to_text()));
            w.candidate(class, "small-source", &small_const, script, if all_exact { Some(&pres) } else { None });
        }
    }

    // ---- random multi-connection scripts
    let n_random: u64 = match (stage, tier) {
        (Stage::Native, Tier::Quick) => 6_000,
        (Stage::Native, Tier::Thorough) => 400_000,
        (Stage::Asan, _) => 4_000,
        _ => 12,
    };
    let mut pool: Vec<WConn> = mains.iter().map(|(v, qs)| exact_conn(*v, qs)).collect();
    pool.extend(others.iter().cloned());
    for j in 0..n_random {
        if !w.ctx.mine(j) {
            continue;
        }
        let mut rng = Rng::derive(seed, &["C08", "wide-random"], &[j]);
        let script = random_multi(&mut rng, &pool);
        w.ctx.breadcrumb(&format!("wide R:random {}", script.to_text()));
        w.candidate("R:random-multi", "small-source", &small_const, &script, None);
    }

    // ---- big sources
    if stage != Stage::Miri {
        let sizes = big_sizes(full);
        let mut combos: Vec<(usize, usize)> = Vec::new();
        for (i, &s) in sizes.iter().enumerate() {
            combos.push((s, sizes[(i * 7 + 3) % sizes.len()]));
            combos.push((sizes[(i * 5 + 1) % sizes.len()], s));
        }
        if stage == Stage::Valgrind {
            combos.truncate(2);
        }
        for (ci, (ko, ao)) in combos.iter().enumerate() {
            if !w.ctx.mine(ci as u64 + 1_000_003) {
                continue;
            }
            let mut rng = Rng::derive(seed, &["C08", "wide-big"], &[ci as u64]);
            let src = big_source(*ko, *ao, &mut rng);
            let src_tag = format!("big-source(key-info {} octets, {} providers, {} items)", ko.min(&MAX_KEY_INFO), (ao / 4).min(ProviderAsns::MAX_COUNT), src.full.len());
            let konst = src.to_const();
            w.count("big_sources", 1);
            let mx = src.max_variable() as u64;
            let cur = w.counts.get("largest_variable_part_octets").copied().unwrap_or(0);
            if mx > cur {
                w.counts.insert("largest_variable_part_octets".into(), mx);
            }
            for (v, qs) in [(2u8, vec![Q::Reset, Q::SerialOld]), (1u8, vec![Q::SerialOld, Q::Reset]), (0u8, vec![Q::Reset])] {
                let conn = exact_conn(v, &qs);
                let pres = vec![expected(v, &qs, &src)];
                let out_len: usize = pres[0].iter().map(|r| r.head.len() + r.tail.len() + r.items.iter().map(|i| i.len()).sum::<usize>()).sum();
                let list = big_scripts(&conn, out_len, &mut rng, full);
                let take = if stage == Stage::Valgrind { 3 } else { list.len() };
                for (class, script) in list.iter().take(take) {
                    w.ctx.breadcrumb(&format!("wide {} {} {}", class, src_tag, script.conns[0].socket_text()));
                    w.candidate(class, &src_tag, &konst, script, Some(&pres));
                }
            }
        }
    }

    let Wide { ctx, evals, counts, .. } = w;
    ctx.evals(evals);
    for (k, v) in counts {
        if k == "largest_variable_part_octets" {
            ctx.obs_max(&k, v);
        } else {
            ctx.obs(&k, v);
        }
    }
}

/// Prescribed responses for a connection made by `exact_conn` (tag "v<N>:Q,Q,..").
fn expected_for_tag(tag: &str, src: &MSource) -> Vec<Resp> {
    let (v, rest) = tag.split_at(2);
    let v: u8 = v[1..].parse().unwrap_or(0);
    let qs: Vec<Q> = rest[1..]
        .split(',')
        .map(|t| match t {
            "RQ" => Q::Reset,
            "SQcur" => Q::SerialCurrent,
            "SQold" => Q::SerialOld,
            _ => Q::SerialUnknown,
        })
        .collect();
    expected(v, &qs, src)
}
