//! vcheck <id> --tier quick|thorough --stage native|asan|miri|valgrind
//!        --seed N --shard I/N --out FILE [--case FILE]

use rpki_verif::core::{install_panic_hook, Ctx, Stage, Tier};

#[global_allocator]
static ALLOC: rpki_verif::alloc::CountingAlloc = rpki_verif::alloc::CountingAlloc;

fn main() {
    let args: Vec<String> = std::env::args().collect();
    if args.len() < 2 {
        eprintln!("usage: vcheck <id> [--tier t] [--stage s] [--seed n] [--shard i/n] [--out f] [--case f]");
        std::process::exit(2);
    }
    let id = args[1].clone();
    if id == "NOOP" {
        return;
    }
    let mut tier = Tier::Quick;
    let mut stage = Stage::Native;
    let mut seed = 1u64;
    let mut shard = (0u64, 1u64);
    let mut out: Option<String> = None;
    let mut case: Option<String> = None;
    let mut i = 2;
    while i < args.len() {
        let v = args.get(i + 1).cloned().unwrap_or_default();
        match args[i].as_str() {
            "--tier" => tier = if v == "thorough" { Tier::Thorough } else { Tier::Quick },
            "--stage" => {
                stage = match v.as_str() {
                    "asan" => Stage::Asan,
                    "miri" => Stage::Miri,
                    "valgrind" => Stage::Valgrind,
                    _ => Stage::Native,
                }
            }
            "--seed" => seed = v.parse().expect("seed"),
            "--shard" => {
                let mut p = v.split('/');
                shard = (
                    p.next().unwrap().parse().expect("shard index"),
                    p.next().unwrap().parse().expect("shard count"),
                );
            }
            "--out" => out = Some(v),
            "--case" => case = Some(v),
            other => {
                eprintln!("unknown argument {}", other);
                std::process::exit(2);
            }
        }
        i += 2;
    }
    install_panic_hook();
    let mut ctx = Ctx::new(&id, tier, stage, seed, shard.0, shard.1);
    if let Some(path) = case {
        let text = std::fs::read_to_string(&path).expect("case file");
        ctx.case = Some(serde_json::from_str(&text).expect("case json"));
    }
    ctx.out_path = out.clone();
    if !rpki_verif::dispatch(&mut ctx) {
        eprintln!("unknown property {}", id);
        std::process::exit(2);
    }
    let res = ctx.finish();
    let text = serde_json::to_string(&res).unwrap();
    match out {
        Some(path) => std::fs::write(path, text).expect("write out"),
        None => println!("{}", text),
    }
}
