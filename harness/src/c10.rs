//! C10 — CA protocol CMS (RFC 6492 provisioning / RFC 8181 publication) is
//! accepted iff it is signed under the peer key, current and not revoked.
//!
//! Two sources of messages: (1) the library's own `SignedMessage::create` /
//! `ProvisioningCms::create` / `PublicationCms::create`, whose validity is read
//! back from the DER with the harness' reader; (2) the independent CMS
//! assembler `c02_cms` with hand-written identity EE certificates and CRLs.
//! The oracle is the conjunction in the statement, evaluated from the
//! parameters the harness chose.

use crate::c02_cms::{self as cms, Bc, Ber, CrlSpec, IdEeSpec, Revoked, SignedData};
use c10_keys::{bits_of, info_of, key_of, sibling_of, SizedSigner, BIG_BASE, K3072, K4096};
use crate::core::{hex, Ctx, Rng, Stage, Tier};
use crate::keys::{sha256, PoolSigner};
use bytes::Bytes;
use rpki::ca::idexchange::{RecipientHandle, SenderHandle};
use rpki::ca::provisioning::{self, ProvisioningCms};
use rpki::ca::publication::{self, PublicationCms};
use rpki::ca::sigmsg::SignedMessage;
use rpki::crypto::PublicKey;
use rpki::repository::x509::{Time, Validity};
use serde_json::{json, Value};
use std::str::FromStr;

/// RSA-3072 / RSA-4096 keys and a `Signer` over keys of mixed sizes. Declared
/// here (file `c10_keys.rs` next to this one) so that `lib.rs` needs no entry.
#[path = "c10_keys.rs"]
mod c10_keys;

fn time(t: i64) -> Time {
    Time::new(chrono::DateTime::from_timestamp(t, 0).expect("timestamp in range"))
}

/// An instant between two whole seconds.
fn time_ns(t: i64, ns: u32) -> Time {
    Time::new(chrono::DateTime::from_timestamp(t, ns).expect("timestamp in range"))
}

const T0: i64 = 1_750_000_000; // 2025-06-15T15:06:40Z
const NKEYS: usize = 6;

//------------ decoding entry points -----------------------------------------

#[derive(Clone, Copy, Debug, PartialEq, Eq)]
enum Entry {
    SignedStrict,
    SignedRelaxed,
    Provisioning,
    Publication,
}

impl Entry {
    fn name(self) -> &'static str {
        match self {
            Entry::SignedStrict => "SignedMessage-strict",
            Entry::SignedRelaxed => "SignedMessage-relaxed",
            Entry::Provisioning => "ProvisioningCms",
            Entry::Publication => "PublicationCms",
        }
    }
}

enum Decoded {
    S(SignedMessage),
    P(ProvisioningCms),
    U(PublicationCms),
}

impl Decoded {
    fn validate_at(&self, key: &PublicKey, t: i64) -> Result<(), String> {
        match self {
            Decoded::S(m) => m.validate_at(key, time(t)).map_err(|e| e.to_string()),
            Decoded::P(m) => m.validate_at(key, time(t)).map_err(|e| e.to_string()),
            Decoded::U(m) => m.validate_at(key, time(t)).map_err(|e| e.to_string()),
        }
    }

    fn validate_at_ns(&self, key: &PublicKey, t: i64, ns: u32) -> Result<(), String> {
        match self {
            Decoded::S(m) => m.validate_at(key, time_ns(t, ns)).map_err(|e| e.to_string()),
            Decoded::P(m) => m.validate_at(key, time_ns(t, ns)).map_err(|e| e.to_string()),
            Decoded::U(m) => m.validate_at(key, time_ns(t, ns)).map_err(|e| e.to_string()),
        }
    }
}

fn decode(entry: Entry, bytes: &[u8]) -> Result<Decoded, String> {
    match entry {
        Entry::SignedStrict => SignedMessage::decode(Bytes::copy_from_slice(bytes), true).map(Decoded::S).map_err(|e| e.to_string()),
        Entry::SignedRelaxed => SignedMessage::decode(Bytes::copy_from_slice(bytes), false).map(Decoded::S).map_err(|e| e.to_string()),
        Entry::Provisioning => ProvisioningCms::decode(bytes).map(Decoded::P).map_err(|e| e.to_string()),
        Entry::Publication => PublicationCms::decode(bytes).map(Decoded::U).map_err(|e| e.to_string()),
    }
}

fn prov_xml(i: u64) -> Vec<u8> {
    let s = SenderHandle::from_str(&format!("child-{}", i)).unwrap();
    let r = RecipientHandle::from_str("parent_0/x").unwrap();
    provisioning::Message::list(s, r).to_xml_bytes().to_vec()
}

fn publ_xml() -> Vec<u8> {
    publication::Message::list_query().to_xml_bytes().to_vec()
}

//------------ part 1: messages created by the library -----------------------

fn violation_category(v: &str) -> &'static str {
    if v.starts_with("Digest") || v.starts_with("DupDigest") || v.starts_with("MissingDigest") {
        "digest"
    } else if v.starts_with("Sig") {
        "signature"
    } else if v.starts_with("ee-serial-on-crl") {
        "revoked"
    } else if v.starts_with("ee-not") || v.starts_with("ee-expired") || v.starts_with("crl-not") || v.starts_with("crl-stale") || v.starts_with("time") {
        "time"
    } else if v.starts_with("ee-") {
        "ee-certificate"
    } else if v.starts_with("crl") || v.starts_with("NoCrl") {
        "crl"
    } else {
        "other"
    }
}

fn time_class(t: i64, lo: i64, hi: i64) -> &'static str {
    if t < lo {
        "before"
    } else if t == lo {
        "at-start"
    } else if t > hi {
        "after"
    } else if t == hi {
        "at-end"
    } else {
        "inside"
    }
}

fn created_message(ctx: &mut Ctx, pool: &PoolSigner, rng: &mut Rng, i: u64) {
    let issuer = (i % 3) as usize; // 0, 1, 2 act as peer identity keys in turn
    let ee_key = 3 + (i % 3) as usize;
    pool.set_next_one_off(ee_key);
    let which = i % 4;
    let mut requested: Option<(i64, i64)> = None;
    // 0/1: SignedMessage::create with a chosen validity, 2: ProvisioningCms, 3: PublicationCms
    let (bytes, entry): (Vec<u8>, Entry) = match which {
        0 | 1 => {
            // mostly around "now", but also where the X.509 time encoding
            // switches between UTCTime and GeneralizedTime (1950 / 2050)
            let era: i64 = match rng.below(8) {
                0 => 2_524_608_000 - 30,            // seconds before 2050-01-01
                1 => 2_524_608_000 + 86_400 * 100,  // April 2050
                2 => 2_556_144_000 - 30,            // seconds before 2051-01-01
                3 => -631_152_000 - 30,             // seconds before 1950-01-01
                _ => T0,
            };
            let nb = era + rng.range(0, 1_000_000) as i64 - if era == T0 { 500_000 } else { 0 } - if era != T0 && rng.bool() { 1_000_000 } else { 0 };
            let len = *rng.pick(&[1i64, 2, 60, 600, 86_400, 400 * 86_400]);
            let validity = Validity::new(time(nb), time(nb + len));
            requested = Some((nb, nb + len));
            let n = rng.usize_below(300);
            let data = Bytes::from(rng.bytes(n));
            let m = match ctx.no_panic("SignedMessage::create", || json!({"i": i}), || SignedMessage::create(data, validity, &issuer, pool)) {
                Some(Ok(m)) => m,
                Some(Err(_)) => {
                    ctx.notes.push("SignedMessage::create returned a signer error (harness problem, nothing asserted)".into());
                    return;
                }
                None => return,
            };
            (m.to_captured().into_bytes().to_vec(), if which == 0 { Entry::SignedRelaxed } else { Entry::SignedStrict })
        }
        2 => {
            let s = SenderHandle::from_str(&format!("child-{}", i)).unwrap();
            let r = RecipientHandle::from_str("parent").unwrap();
            let m = match ctx.no_panic("ProvisioningCms::create", || json!({"i": i}), || ProvisioningCms::create(provisioning::Message::list(s, r), &issuer, pool)) {
                Some(Ok(m)) => m,
                Some(Err(_)) => {
                    ctx.notes.push("ProvisioningCms::create returned a signer error (harness problem, nothing asserted)".into());
                    return;
                }
                None => return,
            };
            (m.to_bytes().to_vec(), Entry::Provisioning)
        }
        _ => {
            let m = match ctx.no_panic("PublicationCms::create", || json!({"i": i}), || PublicationCms::create(publication::Message::list_query(), &issuer, pool)) {
                Some(Ok(m)) => m,
                Some(Err(_)) => {
                    ctx.notes.push("PublicationCms::create returned a signer error (harness problem, nothing asserted)".into());
                    return;
                }
                None => return,
            };
            (m.to_bytes().to_vec(), Entry::Publication)
        }
    };
    // validity as it is on the wire, read by the harness' own DER reader
    let (Some((nb, na)), Some((tu, nu))) = (cms::embedded_cert_validity(&bytes), cms::embedded_crl_window(&bytes)) else {
        ctx.violation(
            "C10:created-message:not-der-readable",
            "a message created by the library does not have the RFC 6492 layout (EE certificate, CRL) when read by an independent DER reader",
            json!({"entry": entry.name(), "message": hex(&bytes)}),
        );
        return;
    };
    let dec = ctx.no_panic("decode-created", || json!({"entry": entry.name(), "message": hex(&bytes)}), || decode(entry, &bytes));
    let Some(dec) = dec else { return };
    let dec = match dec {
        Ok(d) => d,
        Err(e) => {
            ctx.eval();
            ctx.violation(
                "C10:created-message:does-not-decode",
                &format!("a message created by the library is rejected by its own decoder ({}): {}", entry.name(), e),
                json!({"entry": entry.name(), "message": hex(&bytes)}),
            );
            return;
        }
    };
    // "Messages created by the library validate for every time within their
    // validity": the validity of a created message is the window it was asked
    // for, which the library puts on the embedded EE certificate. The window
    // of the embedded CRL is the library's own choice and must not narrow it,
    // so it is deliberately NOT part of the expectation.
    let (lo, hi) = requested.unwrap_or((nb, na));
    if tu > nb || nu < na {
        ctx.obs("created:crl-window-narrower-than-ee-window", 1);
    }
    let mut times = vec![nb - 1, nb, nb + 1, na - 1, na, na + 1, tu - 1, tu, nu, nu + 1, lo + (hi - lo) / 2];
    if hi > lo {
        times.push(lo + (rng.next_u64() % (hi - lo + 1) as u64) as i64);
    }
    times.sort();
    times.dedup();
    let mut n = 0u64;
    for t in &times {
        let expected = *t >= lo && *t <= hi;
        let key = pool.info(issuer);
        let Some(r) = ctx.no_panic("validate-created", || json!({"entry": entry.name(), "t": t, "message": hex(&bytes)}), || dec.validate_at(&key, *t)) else { continue };
        n += 1;
        let tc = time_class(*t, lo, hi);
        ctx.sig(&format!("created {} window-len-class={} time={} key=peer", entry.name(), if hi - lo < 3 { "tiny" } else if hi - lo < 1000 { "minutes" } else { "long" }, tc));
        ctx.obs(if r.is_ok() { "created:accepted" } else { "created:rejected" }, 1);
        let detail = || json!({"entry": entry.name(), "issuer_key": issuer, "ee_key": ee_key, "t": t, "not_before": nb, "not_after": na, "this_update": tu, "next_update": nu, "observed": format!("{:?}", r), "message": hex(&bytes)});
        if expected && r.is_err() {
            ctx.violation(
                &format!("C10:created-message:rejected-within-validity:{}", tc),
                &format!("a message created by the library is rejected under the issuing key at a time inside its validity ({}): {}", tc, r.clone().unwrap_err()),
                detail(),
            );
        } else if !expected && r.is_ok() {
            ctx.violation(
                &format!("C10:created-message:accepted-outside-validity:{}", tc),
                &format!("a message created by the library is accepted at a time outside its validity ({})", tc),
                detail(),
            );
        }
        ctx.sample("c:created-message", || json!({"entry": entry.name(), "t": t, "not_before": nb, "not_after": na, "time": tc, "expected": if expected { "accept" } else { "reject" }, "observed": format!("{:?}", r)}));
    }
    // no other key validates it
    let mid = lo + (hi - lo) / 2;
    for k in 0..NKEYS {
        if k == issuer {
            continue;
        }
        let key = pool.info(k);
        let Some(r) = ctx.no_panic("validate-created-other-key", || json!({"entry": entry.name(), "key": k, "message": hex(&bytes)}), || dec.validate_at(&key, mid)) else { continue };
        n += 1;
        ctx.sig(&format!("created {} key={}", entry.name(), if k == ee_key { "ee-key-itself" } else { "other" }));
        ctx.obs(if r.is_ok() { "created:accepted" } else { "created:rejected" }, 1);
        if r.is_ok() {
            ctx.violation(
                "C10:created-message:accepted-under-other-key",
                "a message created by the library validates under a key that did not issue it",
                json!({"entry": entry.name(), "issuer_key": issuer, "ee_key": ee_key, "validated_under": k, "t": mid, "message": hex(&bytes)}),
            );
        }
    }
    ctx.evals(n);
}

//------------ part 2: independent encoder ------------------------------------

#[derive(Clone, Copy, Debug, PartialEq, Eq)]
enum Aki {
    Issuer,
    Absent,
    OtherKey,
}

#[derive(Clone, Debug, PartialEq, Eq)]
enum Rev {
    /// revokedCertificates absent
    Absent,
    /// present but empty (not DER-legal for RFC 5280, tolerated by some)
    Empty,
    /// lists `n` serials, none of them the EE's
    Others(usize),
    /// lists the EE serial at position `pos` of `n` entries
    ListsEe { n: usize, pos: usize, with_ext: bool },
}

#[derive(Clone, Copy, Debug, PartialEq, Eq)]
enum Tamper {
    None,
    DigestOfOtherContent,
    DigestBitFlip,
    /// the attribute holds only a prefix of the right digest (16, 31 or 0 octets)
    DigestTruncated16,
    DigestTruncated31,
    DigestEmpty,
    /// the right digest followed by one more octet
    DigestExtended,
    SigOtherKey,
    SigCtx0,
    SigOverContent,
    MissingDigest,
    DupDigestWrongSecond,
    NoCrl,
    // recorded only
    SidOtherKey,
    MissingSigningTime,
    ContentTypeNotXml,
}

#[derive(Clone, Debug)]
struct Msg {
    entry: Entry,
    content: Vec<u8>,
    issuer: usize,
    ee_key: usize,
    // EE certificate
    ee_serial: Vec<u8>,
    ee_nb: i64,
    ee_na: i64,
    ee_aki: Aki,
    ee_bc: Bc,
    ee_key_usage: bool,
    ee_signer: usize,
    // CRL
    crl_tu: i64,
    crl_nu: i64,
    crl_rev: Rev,
    /// revocationDate of the entry that lists the EE certificate, relative to thisUpdate
    /// (a listed certificate is revoked whatever the date says)
    crl_rev_when: i64,
    crl_aki: Aki,
    crl_number: bool,
    crl_general_time: bool,
    crl_signer: usize,
    // signed attributes
    binary_signing_time: bool,
    extras: usize,
    attrs_total: Option<usize>,
    shuffle: Option<u64>,
    sign_der: bool,
    tamper: Tamper,
    ber: Ber,
    label: String,
}

impl Msg {
    fn base(entry: Entry, rng: &mut Rng, i: u64) -> Msg {
        let content = match entry {
            Entry::Provisioning => prov_xml(i),
            Entry::Publication => publ_xml(),
            _ => {
                let n = rng.usize_below(400);
                rng.bytes(n)
            }
        };
        let serials: [&[u8]; 6] = [&[1], &[0x7f], &[0x80], &[0x01, 0x00], &[0xff; 8], &[0x12; 20]];
        Msg {
            entry,
            content,
            issuer: 0,
            ee_key: 1 + (i % 2) as usize,
            ee_serial: serials[(i % 6) as usize].to_vec(),
            ee_nb: T0 - 300,
            ee_na: T0 + 300,
            ee_aki: Aki::Issuer,
            ee_bc: Bc::Absent,
            ee_key_usage: false,
            ee_signer: 0,
            crl_tu: T0 - 300,
            crl_nu: T0 + 300,
            crl_rev: Rev::Absent,
            crl_rev_when: -10,
            crl_aki: Aki::Issuer,
            crl_number: true,
            crl_general_time: false,
            crl_signer: 0,
            binary_signing_time: false,
            extras: 0,
            attrs_total: None,
            shuffle: None,
            sign_der: false,
            tamper: Tamper::None,
            ber: Ber::default(),
            label: "plain".into(),
        }
    }

    /// Features the statement does not decide: the outcome is only recorded.
    fn recorded_reason(&self) -> Option<&'static str> {
        if self.ee_bc == Bc::CaFalseExplicit {
            Some("explicit-false-in-basic-constraints")
        } else if self.crl_rev == Rev::Empty {
            Some("empty-revoked-list-present")
        } else if self.crl_general_time {
            Some("crl-generalized-time-before-2050")
        } else if !self.crl_number && self.crl_aki == Aki::Absent {
            Some("crl-with-empty-extensions")
        } else if self.ee_aki == Aki::OtherKey && self.ee_signer == self.issuer {
            Some("ee-aki-names-other-key-but-signature-by-peer")
        } else if self.crl_aki == Aki::OtherKey && self.crl_signer == self.issuer {
            Some("crl-aki-names-other-key-but-signature-by-peer")
        } else if matches!(self.tamper, Tamper::SidOtherKey | Tamper::MissingSigningTime | Tamper::ContentTypeNotXml) {
            Some("outside-statement-tamper")
        } else if !self.ber.is_der() && self.entry == Entry::SignedStrict {
            Some("ber-in-strict-mode")
        } else {
            None
        }
    }

    /// The one time-independent condition this message violates, if any.
    fn static_violation(&self) -> Option<String> {
        if !matches!(self.tamper, Tamper::None | Tamper::SidOtherKey | Tamper::MissingSigningTime | Tamper::ContentTypeNotXml) {
            return Some(format!("{:?}", self.tamper));
        }
        if self.ee_signer != self.issuer {
            return Some(if self.ee_aki == Aki::Absent { "ee-signed-by-other-key-no-aki".into() } else if self.ee_aki == Aki::Issuer { "ee-signed-by-other-key-aki-names-peer".into() } else { "ee-issued-by-other-key".into() });
        }
        if self.ee_bc == Bc::CaTrue {
            return Some("ee-is-ca".into());
        }
        if self.crl_signer != self.issuer {
            return Some(if self.crl_aki == Aki::Absent { "crl-signed-by-other-key-no-aki".into() } else if self.crl_aki == Aki::Issuer { "crl-signed-by-other-key-aki-names-peer".into() } else { "crl-issued-by-other-key".into() });
        }
        if let Rev::ListsEe { .. } = self.crl_rev {
            return Some("ee-serial-on-crl".into());
        }
        None
    }

    fn crl_shape(&self) -> String {
        format!(
            "aki={:?},rev={},num={}",
            self.crl_aki,
            match &self.crl_rev {
                Rev::Absent => "absent".to_string(),
                Rev::Empty => "empty".to_string(),
                Rev::Others(n) => format!("others{}", if *n > 1 { "N" } else { "1" }),
                Rev::ListsEe { n, pos, with_ext } => format!(
                    "ee@{}{}{}",
                    if *pos == 0 { "first" } else if pos + 1 == *n { "last" } else { "middle" },
                    if *with_ext { "+ext" } else { "" },
                    match self.crl_rev_when {
                        w if w < 0 => "",
                        0 => ",revoked-at-thisUpdate",
                        w if w <= 700 => ",revocation-date-after-thisUpdate",
                        _ => ",revocation-date-far-in-the-future",
                    }
                ),
            },
            self.crl_number
        )
    }
}

struct BuiltMsg {
    bytes: Vec<u8>,
    attrs_len: usize,
    sorted: bool,
}

fn aki_bytes(pool: &PoolSigner, a: Aki, issuer: usize) -> Option<Vec<u8>> {
    match a {
        Aki::Issuer => Some(cms::ski_of_spki(&key_of(pool, issuer).spki)),
        Aki::Absent => None,
        Aki::OtherKey => Some(cms::ski_of_spki(&key_of(pool, 5).spki)),
    }
}

fn build(pool: &PoolSigner, m: &Msg) -> BuiltMsg {
    // "somebody else's key" of the same size as the EE key
    let other_key = sibling_of(m.ee_key);
    let ee_spki = key_of(pool, m.ee_key).spki.clone();
    let ski = cms::ski_of_spki(&ee_spki);
    let ee = IdEeSpec {
        serial: m.ee_serial.clone(),
        issuer_cn: format!("peer-{}", m.issuer),
        subject_cn: "ee".into(),
        not_before: m.ee_nb,
        not_after: m.ee_na,
        spki: ee_spki,
        ski: ski.clone(),
        aki: aki_bytes(pool, m.ee_aki, m.issuer),
        bc: m.ee_bc,
        key_usage: m.ee_key_usage,
    };
    let ee_der = cms::x509_signed(&cms::id_ee_tbs(&ee), key_of(pool, m.ee_signer));
    let other_serial = |k: usize| -> Vec<u8> {
        let mut s = vec![0x40 + k as u8, 0x01];
        if s == m.ee_serial {
            s.push(1);
        }
        s
    };
    let revoked: Option<Vec<Revoked>> = match &m.crl_rev {
        Rev::Absent => None,
        Rev::Empty => Some(vec![]),
        Rev::Others(n) => Some((0..*n).map(|k| Revoked { serial: other_serial(k), when: m.crl_tu - 10, with_ext: k % 2 == 1 }).collect()),
        Rev::ListsEe { n, pos, with_ext } => Some(
            (0..*n)
                .map(|k| if k == *pos { Revoked { serial: m.ee_serial.clone(), when: m.crl_tu + m.crl_rev_when, with_ext: *with_ext } } else { Revoked { serial: other_serial(k), when: m.crl_tu - 10, with_ext: false } })
                .collect(),
        ),
    };
    let crl = CrlSpec {
        issuer_cn: format!("peer-{}", m.issuer),
        this_update: m.crl_tu,
        next_update: m.crl_nu,
        revoked,
        aki: aki_bytes(pool, m.crl_aki, m.issuer),
        crl_number: if m.crl_number { Some(77) } else { None },
        general_time: m.crl_general_time,
    };
    let crl_der = cms::x509_signed(&cms::crl_tbs(&crl), key_of(pool, m.crl_signer));

    let good = sha256(&m.content);
    let digest = match m.tamper {
        Tamper::DigestOfOtherContent => {
            let mut c = m.content.clone();
            c.push(b' ');
            sha256(&c)
        }
        Tamper::DigestBitFlip => {
            let mut d = good.clone();
            d[31] ^= 1;
            d
        }
        Tamper::DigestTruncated16 => good[..16].to_vec(),
        Tamper::DigestTruncated31 => good[..31].to_vec(),
        Tamper::DigestEmpty => Vec::new(),
        Tamper::DigestExtended => {
            let mut d = good.clone();
            d.push(0);
            d
        }
        _ => good.clone(),
    };
    let ct = if m.tamper == Tamper::ContentTypeNotXml { crate::der::oid(crate::der::OID_CT_GHOSTBUSTERS) } else { crate::der::oid(crate::der::OID_CT_XML) };
    let md_attr = cms::attr_message_digest(&digest);
    let mut attrs = vec![cms::attr_content_type(&ct), md_attr.clone(), cms::attr_signing_time(T0)];
    if m.binary_signing_time {
        attrs.push(cms::attr_binary_signing_time(T0));
    }
    for k in 0..m.extras {
        // additional signed attributes in every shape RFC 5652 allows (one value, several values, any type)
        attrs.push(cms::attr_extra_shaped(100 + k as u32, 5 + 9 * k, k + m.extras + m.content.len()));
    }
    if let Some(total) = m.attrs_total {
        let ok = cms::pad_attrs_to(&mut attrs, total, 10);
        debug_assert!(ok, "cannot pad to {}", total);
    }
    match m.tamper {
        Tamper::MissingDigest => attrs.retain(|a| *a != md_attr),
        Tamper::MissingSigningTime => {
            attrs.remove(2);
        }
        _ => {}
    }
    let mut attrs = cms::sort_attrs(&attrs);
    if m.tamper == Tamper::DupDigestWrongSecond {
        let mut wrong = good.clone();
        wrong[0] ^= 0x80;
        let pos = attrs.iter().position(|a| *a == md_attr).unwrap();
        attrs.insert(pos + 1, cms::attr_message_digest(&wrong));
    }
    if let Some(seed) = m.shuffle {
        let mut r = Rng::new(seed);
        r.shuffle(&mut attrs);
    }
    let sorted = cms::attrs_sorted(&attrs);
    let to_sign = if m.sign_der { cms::sort_attrs(&attrs) } else { attrs.clone() };
    let signature = match m.tamper {
        Tamper::SigOtherKey => key_of(pool, other_key).sign_raw(&cms::sig_input_set(&to_sign)),
        Tamper::SigCtx0 => key_of(pool, m.ee_key).sign_raw(&cms::sig_input_ctx0(&to_sign)),
        Tamper::SigOverContent => key_of(pool, m.ee_key).sign_raw(&m.content),
        _ => key_of(pool, m.ee_key).sign_raw(&cms::sig_input_set(&to_sign)),
    };
    let sid = if m.tamper == Tamper::SidOtherKey { cms::ski_of_spki(&key_of(pool, other_key).spki) } else { ski };
    let attrs_len = cms::attrs_len(&attrs);
    let mut sd = SignedData::protocol(m.content.clone(), ee_der, crl_der, sid, attrs, signature);
    sd.content_type = ct;
    if m.tamper == Tamper::NoCrl {
        sd.crls.clear();
    }
    sd.ber = m.ber.clone();
    BuiltMsg { bytes: sd.encode(), attrs_len, sorted }
}

fn msg_json(m: &Msg, b: &BuiltMsg) -> Value {
    json!({
        "entry": m.entry.name(),
        "label": m.label,
        "issuer_key": m.issuer,
        "ee": {"key": m.ee_key, "serial": hex(&m.ee_serial), "not_before": m.ee_nb, "not_after": m.ee_na, "aki": format!("{:?}", m.ee_aki), "basic_constraints": format!("{:?}", m.ee_bc), "key_usage": m.ee_key_usage, "signed_by": m.ee_signer},
        "crl": {"this_update": m.crl_tu, "next_update": m.crl_nu, "revoked": format!("{:?}", m.crl_rev), "revocation_date_of_ee_entry_relative_to_this_update": m.crl_rev_when, "aki": format!("{:?}", m.crl_aki), "crl_number": m.crl_number, "generalized_time": m.crl_general_time, "signed_by": m.crl_signer},
        "signed_attrs_len": b.attrs_len,
        "signed_attrs_in_der_order": b.sorted,
        "signed_der_sorted_instead_of_emitted": m.sign_der,
        "tamper": format!("{:?}", m.tamper),
        "ber": m.ber.describe(),
        "message": hex(&b.bytes),
    })
}

/// Instants around both windows.
fn instants(m: &Msg) -> Vec<i64> {
    let lo = m.ee_nb.max(m.crl_tu);
    let hi = m.ee_na.min(m.crl_nu);
    let mut v = vec![m.ee_nb - 1, m.ee_nb, m.ee_na, m.ee_na + 1, m.crl_tu - 1, m.crl_tu, m.crl_nu, m.crl_nu + 1];
    if lo <= hi {
        v.push(lo + (hi - lo) / 2);
    }
    v.sort();
    v.dedup();
    v
}

fn time_position(m: &Msg, t: i64) -> String {
    format!("ee:{}/crl:{}", time_class(t, m.ee_nb, m.ee_na), time_class(t, m.crl_tu, m.crl_nu))
}

/// Runs one message through decode + validate_at over the time / key plan.
/// Returns Some(accepted at a time inside both windows under the peer key).
fn run_msg(ctx: &mut Ctx, pool: &PoolSigner, m: &Msg, full_plan: bool) -> Option<bool> {
    let b = build(pool, m);
    let cls = cms::size_class(b.attrs_len);
    let stat = m.static_violation();
    let recorded = m.recorded_reason();
    let lo = m.ee_nb.max(m.crl_tu);
    let hi = m.ee_na.min(m.crl_nu);
    let mid = lo + (hi - lo).max(0) / 2;
    ctx.obs(&format!("messages_attrs{}", cls), 1);
    ctx.obs_max("signed_attrs_len", b.attrs_len as u64);
    let dec = ctx.no_panic("decode", || msg_json(m, &b), || decode(m.entry, &b.bytes))?;
    let order = if b.sorted { "der" } else { "unsorted" };
    let base_sig = format!(
        "msg {} order={} attrs{} violated={} crl[{}] ee[aki={:?},bc={:?}] ber={}{}",
        m.entry.name(),
        order,
        cls,
        stat.clone().unwrap_or_else(|| "none".into()),
        m.crl_shape(),
        m.ee_aki,
        m.ee_bc,
        m.ber.describe(),
        if m.sign_der { " signed-der" } else { "" }
    );
    let what_is_special = || -> String {
        if m.label.starts_with("keys:peer") {
            // peer or EE key above 2048 bits: that is what sets the message apart
            m.label.clone()
        } else if b.attrs_len >= 128 {
            format!("signed-attrs{}", cls)
        } else if !m.ber.is_der() {
            format!("ber:{}", m.ber.describe())
        } else {
            m.label.clone()
        }
    };
    let dec = match dec {
        Ok(d) => d,
        Err(e) => {
            ctx.eval();
            ctx.obs("rejected_at_decode", 1);
            ctx.sig(&format!("{} undecodable", base_sig));
            if let Some(why) = recorded {
                ctx.obs(&format!("recorded:{}:rejected", why), 1);
                ctx.sample("e:recorded", || json!({"why_not_asserted": why, "entry": m.entry.name(), "label": m.label, "observed": format!("rejected at decode: {}", e)}));
                return Some(false);
            }
            if stat.is_none() && lo <= hi {
                let mut d = msg_json(m, &b);
                d["observed_error"] = json!(e);
                ctx.violation(
                    &format!("C10:valid-rejected:{}", what_is_special()),
                    &format!("a correctly signed, current, unrevoked message does not even decode ({}): {}", m.entry.name(), e),
                    d,
                );
            }
            return Some(false);
        }
    };
    let mut n = 0u64;
    let mut accepted_mid = false;
    // the middle instant first: if that already fails, the boundary instants fail for the same reason
    let mut times = if full_plan { instants(m) } else { vec![mid] };
    if let Some(p) = times.iter().position(|t| *t == mid) {
        times.swap(0, p);
    }
    let mut mid_failed = false;
    for t in times {
        let in_ee = t >= m.ee_nb && t <= m.ee_na;
        let in_crl = t >= m.crl_tu && t <= m.crl_nu;
        let violated: Option<String> = match &stat {
            Some(s) => Some(s.clone()),
            None if !in_ee && !in_crl => Some("time-outside-both-windows".into()),
            None if !in_ee => Some(format!("ee-{}", if t < m.ee_nb { "not-yet-valid" } else { "expired" })),
            None if !in_crl => Some(format!("crl-{}", if t < m.crl_tu { "not-yet-valid" } else { "stale" })),
            None => None,
        };
        let expected = violated.is_none();
        let key = info_of(pool, m.issuer);
        let Some(r) = ctx.no_panic("validate_at", || msg_json(m, &b), || dec.validate_at(&key, t)) else { continue };
        n += 1;
        let tp = time_position(m, t);
        ctx.sig(&format!("{} time={} key=peer", base_sig, tp));
        ctx.obs(if r.is_ok() { "accepted" } else { "rejected" }, 1);
        if r.is_ok() {
            ctx.obs(&format!("accepted_attrs{}", cls), 1);
        }
        if t == mid {
            accepted_mid = r.is_ok();
        }
        if let Some(why) = recorded {
            ctx.obs(&format!("recorded:{}:{}", why, if r.is_ok() { "accepted" } else { "rejected" }), 1);
            ctx.sample("e:recorded", || json!({"why_not_asserted": why, "entry": m.entry.name(), "label": m.label, "time": tp, "observed": format!("{:?}", r)}));
            continue;
        }
        if expected && r.is_err() && t != mid && mid_failed {
            ctx.obs("boundary_instants_failing_like_the_middle_one", 1);
        } else if expected && r.is_err() {
            if t == mid {
                mid_failed = true;
            }
            let mut d = msg_json(m, &b);
            d["t"] = json!(t);
            d["observed_error"] = json!(r.clone().unwrap_err());
            let what = if t == mid { what_is_special() } else { format!("time:{}", tp) };
            ctx.violation(
                &format!("C10:valid-rejected:{}", what),
                &format!("a correctly signed message that is current ({}) and not revoked was rejected under the peer key: {}", tp, r.unwrap_err()),
                d,
            );
        } else if !expected && r.is_ok() {
            let mut d = msg_json(m, &b);
            d["t"] = json!(t);
            let v = violated.clone().unwrap();
            let v = if stat.is_none() { format!("{}:{}", v, tp) } else { v };
            ctx.violation(
                &format!("C10:invalid-accepted:{}", v),
                &format!("a message violating exactly one condition ({}) was accepted at {}", violated.unwrap(), tp),
                d,
            );
        } else {
            let skind = if expected { format!("a:valid:{}", m.entry.name()) } else { format!("b:violation:{}", violation_category(violated.as_deref().unwrap())) };
            ctx.sample(&skind, || {
                json!({"entry": m.entry.name(), "label": m.label, "signed_attrs_len": b.attrs_len, "crl": m.crl_shape(), "time": tp, "expected": if expected { "accept" } else { "reject" },
                       "observed": format!("{:?}", r), "message_len": b.bytes.len()})
            });
        }
    }
    // key relation: nobody else's key validates it
    if full_plan && lo <= hi {
        for k in 1..NKEYS {
            if k == m.issuer {
                continue;
            }
            // the key that really signed a forged EE / CRL is interesting, the rest is sampled
            if !(k == m.ee_signer || k == m.crl_signer || k == m.ee_key || k == 5 || k == 3) {
                continue;
            }
            let key = info_of(pool, k);
            let Some(r) = ctx.no_panic("validate_at-other-key", || msg_json(m, &b), || dec.validate_at(&key, mid)) else { continue };
            n += 1;
            ctx.obs(if r.is_ok() { "accepted" } else { "rejected" }, 1);
            let rel = if k == m.ee_key { "ee-key" } else if k == m.ee_signer || k == m.crl_signer { "forger-key" } else { "unrelated-key" };
            ctx.sig(&format!("{} key={}", base_sig, rel));
            // under a key that signed neither or only one of EE / CRL the message must fail
            let fully_signed_by_k = m.ee_signer == k && m.crl_signer == k;
            if r.is_ok() && !fully_signed_by_k && recorded.is_none() {
                let mut d = msg_json(m, &b);
                d["validated_under_key"] = json!(k);
                ctx.violation(
                    &format!("C10:invalid-accepted:validated-under-{}", rel),
                    "a message validates against a key that did not sign both its EE certificate and its CRL",
                    d,
                );
            }
        }
    }
    ctx.evals(n);
    Some(accepted_mid)
}

fn ber_variants() -> Vec<Ber> {
    let d = Ber::default();
    vec![
        Ber { indef_content_info: true, ..d.clone() },
        Ber { indef_content0: true, indef_signed_data: true, ..d.clone() },
        Ber { indef_encap: true, indef_econtent0: true, ..d.clone() },
        Ber { econtent_chunks: Some(vec![1]), ..d.clone() },
        Ber { econtent_chunks: Some(vec![0, 16, 0]), econtent_indef: true, ..d.clone() },
        Ber { indef_certs: true, ..d.clone() },
        Ber { indef_signer_infos: true, indef_signer_info: true, ..d.clone() },
        Ber { pad_outer: 4, pad_signed_data: 3, pad_signature: 3, ..d.clone() },
    ]
}

const ENTRIES: [Entry; 4] = [Entry::SignedRelaxed, Entry::SignedStrict, Entry::Provisioning, Entry::Publication];

/// Structured message list of one round; the head is a cross-section for tiny budgets.
fn round_msgs(rng: &mut Rng, round: u64) -> Vec<Msg> {
    let mut out: Vec<Msg> = Vec::new();
    let mut i = round * 10_000;
    let mut next = |rng: &mut Rng, e: Entry, label: &str| -> Msg {
        i += 1;
        let mut m = Msg::base(e, rng, i);
        m.label = label.into();
        m
    };
    // ---- head
    for e in ENTRIES {
        out.push(next(rng, e, "plain"));
    }
    for total in [127usize, 128, 256] {
        let mut m = next(rng, Entry::SignedRelaxed, "attrs-total");
        m.attrs_total = Some(total);
        out.push(m);
    }
    for (k, t) in [Tamper::DigestBitFlip, Tamper::SigOtherKey, Tamper::SigCtx0].iter().enumerate() {
        let mut m = next(rng, ENTRIES[k % 4], "tamper");
        m.tamper = *t;
        out.push(m);
    }
    {
        let mut m = next(rng, Entry::Provisioning, "ee-ca-true");
        m.ee_bc = Bc::CaTrue;
        out.push(m);
        let mut m = next(rng, Entry::Publication, "crl-lists-ee");
        m.crl_rev = Rev::ListsEe { n: 3, pos: 1, with_ext: false };
        out.push(m);
        let mut m = next(rng, Entry::SignedRelaxed, "crl-forged");
        m.crl_signer = 3;
        m.crl_aki = Aki::Absent;
        out.push(m);
        let mut m = next(rng, Entry::SignedStrict, "ee-forged");
        m.ee_signer = 3;
        m.ee_aki = Aki::Absent;
        out.push(m);
    }

    // ---- EE / CRL shape matrix (all valid unless a shape says otherwise)
    let mut k = 0usize;
    for ee_aki in [Aki::Issuer, Aki::Absent] {
        for bc in [Bc::Absent, Bc::CaFalse, Bc::CaTrue, Bc::CaFalseExplicit] {
            for crl_aki in [Aki::Issuer, Aki::Absent] {
                for rev in [Rev::Absent, Rev::Others(1), Rev::Others(4), Rev::Empty] {
                    k += 1;
                    let mut m = next(rng, ENTRIES[k % 4], "shape-matrix");
                    m.ee_aki = ee_aki;
                    m.ee_bc = bc;
                    m.crl_aki = crl_aki;
                    m.crl_rev = rev;
                    m.ee_key_usage = k % 3 == 0;
                    out.push(m);
                }
            }
        }
    }
    // revoked EE at every position, with and without entry extensions, all serial shapes
    for n in [1usize, 2, 5] {
        for pos in 0..n {
            for with_ext in [false, true] {
                k += 1;
                let mut m = next(rng, ENTRIES[k % 4], "ee-revoked");
                m.crl_rev = Rev::ListsEe { n, pos, with_ext };
                m.crl_aki = if k % 2 == 0 { Aki::Issuer } else { Aki::Absent };
                out.push(m.clone());
                // the same entry with a revocation date at / after thisUpdate, after every instant the
                // message is evaluated at, beyond nextUpdate, decades ahead (GeneralizedTime)
                let w = [0i64, 1, 299, 301, 601, 86_400 * 400, 86_400 * 365 * 40][k % 7];
                m.crl_rev_when = w;
                m.label = "ee-revoked-later".into();
                out.push(m);
            }
        }
    }
    // forged EE / CRL in all AKI flavours
    for aki in [Aki::Issuer, Aki::Absent, Aki::OtherKey] {
        for signer in [3usize, 5] {
            k += 1;
            let mut m = next(rng, ENTRIES[k % 4], "ee-forged");
            m.ee_signer = signer;
            m.ee_aki = aki;
            out.push(m);
            let mut m = next(rng, ENTRIES[(k + 1) % 4], "crl-forged");
            m.crl_signer = signer;
            m.crl_aki = aki;
            out.push(m);
        }
        // EE signed by its own key
        let mut m = next(rng, ENTRIES[k % 4], "ee-self-signed");
        m.ee_signer = m.ee_key;
        m.ee_aki = aki;
        out.push(m);
    }
    // AKI naming somebody else although the peer signed: recorded
    {
        let mut m = next(rng, Entry::SignedRelaxed, "ee-aki-other");
        m.ee_aki = Aki::OtherKey;
        out.push(m);
        let mut m = next(rng, Entry::SignedRelaxed, "crl-aki-other");
        m.crl_aki = Aki::OtherKey;
        out.push(m);
        let mut m = next(rng, Entry::SignedRelaxed, "crl-generalized-time");
        m.crl_general_time = true;
        out.push(m);
        let mut m = next(rng, Entry::SignedRelaxed, "crl-empty-extensions");
        m.crl_number = false;
        m.crl_aki = Aki::Absent;
        out.push(m);
        let mut m = next(rng, Entry::SignedRelaxed, "crl-number-only-absent");
        m.crl_number = false;
        out.push(m);
    }
    // windows: CRL inside EE, EE inside CRL, overlapping both ways, one-second windows, disjoint
    let windows: [(i64, i64, i64, i64, &str); 8] = [
        (-300, 300, -100, 100, "crl-inside-ee"),
        (-100, 100, -300, 300, "ee-inside-crl"),
        (-300, 100, -100, 300, "ee-ends-first"),
        (-100, 300, -300, 100, "crl-ends-first"),
        (0, 0, -10, 10, "ee-one-instant"),
        (-10, 10, 0, 0, "crl-one-instant"),
        (-300, -1, 0, 300, "disjoint-ee-before-crl"),
        (0, 300, -300, 0, "touching-at-one-instant"),
    ];
    for (a, b2, c, d, label) in windows {
        k += 1;
        let mut m = next(rng, ENTRIES[k % 4], label);
        m.ee_nb = T0 + a;
        m.ee_na = T0 + b2;
        m.crl_tu = T0 + c;
        m.crl_nu = T0 + d;
        out.push(m.clone());
        // the same layout with the optional key identifier extensions left out:
        // the time checks must not depend on them
        for (ee_aki, crl_aki) in [(Aki::Issuer, Aki::Absent), (Aki::Absent, Aki::Issuer), (Aki::Absent, Aki::Absent)] {
            k += 1;
            let mut v = next(rng, ENTRIES[k % 4], label);
            v.ee_nb = m.ee_nb;
            v.ee_na = m.ee_na;
            v.crl_tu = m.crl_tu;
            v.crl_nu = m.crl_nu;
            v.ee_aki = ee_aki;
            v.crl_aki = crl_aki;
            out.push(v);
        }
    }
    // a window crossing 2049/2050 (UTCTime -> GeneralizedTime in certificate and CRL)
    {
        let y2050 = cms::unix_from_civil(2050, 1, 1, 0, 0, 0);
        let mut m = next(rng, Entry::SignedRelaxed, "window-across-2050");
        m.ee_nb = y2050 - 100;
        m.ee_na = y2050 + 100;
        m.crl_tu = y2050 - 50;
        m.crl_nu = y2050 + 50;
        out.push(m);
    }

    // ---- signed attribute sizes
    for total in [124usize, 125, 126, 127, 128, 129, 130, 200, 254, 255, 256, 257, 258, 300, 1000, 4000, 65000, 65535] {
        k += 1;
        let mut m = next(rng, ENTRIES[k % 4], "attrs-total");
        m.attrs_total = Some(total);
        m.binary_signing_time = false;
        out.push(m);
    }
    for extras in [1usize, 2, 3, 5, 8] {
        for bst in [false, true] {
            k += 1;
            let mut m = next(rng, ENTRIES[k % 4], "extra-attrs");
            m.extras = extras;
            m.binary_signing_time = bst;
            out.push(m);
        }
    }
    for _ in 0..6 {
        k += 1;
        let mut m = next(rng, ENTRIES[k % 4], "attrs-total-random");
        m.attrs_total = Some(131 + rng.usize_below(900));
        out.push(m);
    }
    // ---- attribute order (both signature conventions are run by the driver)
    for extras in [0usize, 1, 3] {
        for s in 0..4u64 {
            k += 1;
            let mut m = next(rng, ENTRIES[k % 4], "attr-order");
            m.extras = extras;
            m.binary_signing_time = s % 2 == 1;
            m.shuffle = Some(round * 1000 + k as u64 * 17 + s);
            out.push(m);
        }
    }
    // ---- single violations of the CMS layer, also with long attributes
    for t in [Tamper::DigestOfOtherContent, Tamper::DigestBitFlip, Tamper::DigestTruncated16, Tamper::DigestTruncated31, Tamper::DigestEmpty, Tamper::DigestExtended, Tamper::SigOtherKey, Tamper::SigCtx0, Tamper::SigOverContent, Tamper::MissingDigest, Tamper::DupDigestWrongSecond, Tamper::NoCrl] {
        for total in [None, Some(128usize), Some(300)] {
            k += 1;
            let mut m = next(rng, ENTRIES[k % 4], "tamper");
            m.tamper = t;
            m.attrs_total = total;
            out.push(m);
        }
    }
    for t in [Tamper::SidOtherKey, Tamper::MissingSigningTime, Tamper::ContentTypeNotXml] {
        k += 1;
        let mut m = next(rng, ENTRIES[k % 2], "tamper-recorded");
        m.tamper = t;
        out.push(m);
    }
    // ---- BER re-encodings
    for ber in ber_variants() {
        for e in [Entry::SignedRelaxed, Entry::Provisioning, Entry::Publication, Entry::SignedStrict] {
            k += 1;
            if k % 2 == (round % 2) as usize && e != Entry::SignedRelaxed {
                continue;
            }
            let mut m = next(rng, e, "ber");
            m.ber = ber.clone();
            out.push(m);
        }
    }
    out
}

//------------ bit flips ------------------------------------------------------

fn run_flips(ctx: &mut Ctx, pool: &PoolSigner, budget: u64, exhaustive: bool) {
    let mut rng = ctx.rng("flip-messages");
    let mut msgs: Vec<Msg> = Vec::new();
    let mut a = Msg::base(Entry::SignedRelaxed, &mut rng, 1);
    a.crl_rev = Rev::Others(2);
    msgs.push(a);
    let mut b = Msg::base(Entry::Provisioning, &mut rng, 2);
    b.ee_aki = Aki::Absent;
    b.crl_aki = Aki::Absent;
    b.ee_bc = Bc::CaFalse;
    msgs.push(b);
    let mut c = Msg::base(Entry::Publication, &mut rng, 3);
    c.attrs_total = Some(200);
    msgs.push(c);
    let mut d = Msg::base(Entry::SignedStrict, &mut rng, 4);
    d.attrs_total = Some(300);
    d.crl_rev = Rev::Others(1);
    msgs.push(d);
    let mut rng = ctx.rng("flip-positions");
    let per = (budget / msgs.len() as u64).max(10);
    for (mi, m) in msgs.iter().enumerate() {
        let b = build(pool, m);
        let Some(layout) = cms::locate(&b.bytes) else {
            ctx.notes.push(format!("flip message {} has an unexpected layout; skipped", mi));
            continue;
        };
        let key = pool.info(m.issuer);
        let base_ok = match decode(m.entry, &b.bytes) {
            Ok(d) => d.validate_at(&key, T0).is_ok(),
            Err(_) => false,
        };
        if !base_ok {
            ctx.obs("flip_base_messages_not_accepted", 1);
            ctx.notes.push(format!("bit flips skipped for base message {} (signed attributes {} octets): the untouched message is rejected", mi, b.attrs_len));
            continue;
        }
        ctx.obs("flip_base_messages", 1);
        let covered = layout.covered_positions();
        let mut todo: Vec<(usize, u8)> = Vec::new();
        if exhaustive {
            for (i, p) in covered.iter().enumerate() {
                if ctx.mine(i as u64) {
                    for bit in 0..8 {
                        todo.push((*p, bit));
                    }
                }
            }
        } else {
            let mut seen: Vec<&str> = Vec::new();
            for p in &covered {
                let r = layout.region(*p).unwrap();
                if !seen.contains(&r) {
                    seen.push(r);
                    todo.push((*p, rng.below(8) as u8));
                }
            }
            while (todo.len() as u64) < per {
                todo.push((*rng.pick(&covered), rng.below(8) as u8));
            }
        }
        let uncovered: Vec<usize> = (0..layout.total).filter(|p| layout.region(*p).is_none()).collect();
        let n_unc = if exhaustive { 40 } else { 10 };
        let mut unc: Vec<(usize, u8)> = Vec::new();
        for _ in 0..n_unc.min(uncovered.len()) {
            unc.push((*rng.pick(&uncovered), rng.below(8) as u8));
        }
        let mut n = 0u64;
        for (is_cov, (pos, bit)) in todo.into_iter().map(|x| (true, x)).chain(unc.into_iter().map(|x| (false, x))) {
            let region = layout.region(pos).unwrap_or("uncovered");
            let flipped = cms::flip(&b.bytes, pos, bit);
            let r = ctx.no_panic(
                "decode-validate-flipped",
                || json!({"entry": m.entry.name(), "byte": pos, "bit": bit, "message": hex(&flipped)}),
                || match decode(m.entry, &flipped) {
                    Err(e) => (false, Err(e)),
                    Ok(d) => (true, d.validate_at(&key, T0)),
                },
            );
            let Some((decoded, res)) = r else { continue };
            n += 1;
            ctx.obs(&format!("flip:{}:{}", region, if !decoded { "undecodable" } else if res.is_ok() { "accepted" } else { "rejected" }), 1);
            if !exhaustive || (pos % 16 == 0 && bit == 0) {
                ctx.sig(&format!("flip {} region={} decoded={}", m.entry.name(), region, decoded));
            }
            if is_cov && res.is_ok() {
                ctx.violation(
                    &format!("C10:bit-flip-accepted:{}", region),
                    &format!("a message with one bit flipped inside {} (covered by digest or a signature) still validates", region),
                    json!({"entry": m.entry.name(), "byte": pos, "bit": bit, "region": region, "t": T0, "original": hex(&b.bytes), "flipped": hex(&flipped)}),
                );
            }
            ctx.sample(if is_cov { "d:flip:covered" } else { "d:flip:uncovered" }, || json!({"entry": m.entry.name(), "byte": pos, "bit": bit, "region": region, "observed": format!("{:?}", res)}));
        }
        ctx.evals(n);
    }
}

//------------ driver ---------------------------------------------------------

pub fn run(ctx: &mut Ctx) {
    if ctx.no_ffi() {
        ctx.notes.push("C10 needs aws-lc (signatures, digests); nothing to do under Miri".into());
        return;
    }
    let pool = PoolSigner::new(NKEYS);
    // ---- part 1
    let thorough = ctx.tier == Tier::Thorough;
    let created = ctx.stage_budget((3_000, 100_000), if thorough { 600 } else { 120 }, 0, 8);
    let mut rng = ctx.rng("created");
    for j in 0..created {
        let i = ctx.shard + j * ctx.nshards.max(1);
        created_message(ctx, &pool, &mut rng, i);
    }
    // ---- part 2
    let messages = ctx.stage_budget((30_000, 1_500_000), if thorough { 5_000 } else { 800 }, 0, 48);
    let full_plan = ctx.stage != Stage::Valgrind;
    let mut rng = ctx.rng("messages");
    let mut done = 0u64;
    let mut g = 0u64;
    let mut round = 0u64;
    'outer: loop {
        for m in round_msgs(&mut rng, round) {
            let mine = ctx.mine(g);
            g += 1;
            if !mine {
                continue;
            }
            if m.shuffle.is_some() {
                // unsorted SET OF: run under both signature inputs; at least one must validate
                let mut a = m.clone();
                a.sign_der = false;
                let mut b = m.clone();
                b.sign_der = true;
                let unsorted = !build(&pool, &a).sorted;
                if unsorted {
                    a.label = "unsorted-signed-as-emitted".into();
                    b.label = "unsorted-signed-der-sorted".into();
                    let ra = run_msg_recorded(ctx, &pool, &a, full_plan);
                    let rb = run_msg_recorded(ctx, &pool, &b, full_plan);
                    done += 2;
                    if let (Some(false), Some(false)) = (ra, rb) {
                        if m.entry != Entry::SignedStrict {
                            let built = build(&pool, &a);
                            if built.attrs_len < 128 {
                                ctx.violation(
                                    "C10:valid-rejected:unsorted-attrs-under-both-signature-inputs",
                                    "a message whose signed attributes are not in DER order was rejected both when signed over the transmitted order and when signed over the DER order",
                                    msg_json(&a, &built),
                                );
                            } else {
                                ctx.violation(
                                    &format!("C10:valid-rejected:signed-attrs{}", cms::size_class(built.attrs_len)),
                                    "a message with long, unsorted signed attributes was rejected under both signature inputs",
                                    msg_json(&a, &built),
                                );
                            }
                        }
                    }
                } else {
                    run_msg(ctx, &pool, &a, full_plan);
                    done += 1;
                }
            } else {
                run_msg(ctx, &pool, &m, full_plan);
                done += 1;
            }
            if done >= messages {
                break 'outer;
            }
        }
        round += 1;
        if round > 10_000 {
            break;
        }
    }
    ctx.obs("rounds_started", round + 1);
    // ---- CRLs with extensions beyond AKI and CRL number
    crl_extra_extensions(ctx, &pool);
    // ---- the library's own in-memory signer, state carried between calls
    softsigner_histories(ctx, &pool);
    // ---- instants between seconds; RSA-3072 / RSA-4096 peer and EE keys
    fine_and_sized(ctx, &pool);
    // ---- bit flips
    let exhaustive = ctx.tier == Tier::Thorough && ctx.stage == Stage::Native;
    let flips = ctx.stage_budget((30_000, 0), if thorough { 12_000 } else { 2_000 }, 0, 1_200);
    run_flips(ctx, &pool, flips, exhaustive);
    ctx.obs("signatures_by_pool_signer", pool.signatures.get());
}

//------------ part 4: instants between seconds, keys above 2048 bits -----------

/// Sub-second parts tried next to every window end.
const FRACTIONS: [u32; 3] = [1, 500_000_000, 999_999_999];

fn ns_class(ns: u32) -> &'static str {
    match ns {
        0 => "whole-second",
        1 => "+1ns",
        500_000_000 => "+0.5s",
        999_999_999 => "+1s-1ns",
        _ => "+fraction",
    }
}

/// Whether the instant `s + ns / 10^9` lies in the closed window `[lo, hi]`
/// (X.509 times are whole seconds, both ends inclusive).
fn in_window(s: i64, ns: u32, lo: i64, hi: i64) -> bool {
    s >= lo && (s < hi || (s == hi && ns == 0))
}

/// Position of an instant relative to a window, with the half-open seconds
/// next to both ends told apart.
fn fine_class(s: i64, ns: u32, lo: i64, hi: i64) -> &'static str {
    if ns == 0 {
        time_class(s, lo, hi)
    } else if s < lo - 1 {
        "before"
    } else if s == lo - 1 {
        "within-1s-before-start"
    } else if s > hi {
        "after"
    } else if s == hi {
        "within-1s-after-end"
    } else if s == hi - 1 {
        "within-1s-before-end"
    } else if s == lo {
        "within-1s-after-start"
    } else {
        "inside"
    }
}

/// For every bound B: B-1s+f and B+f for the three fractions f.
fn fine_instants(bounds: &[i64]) -> Vec<(i64, u32)> {
    let mut v = Vec::new();
    for b in bounds {
        for ns in FRACTIONS {
            v.push((*b - 1, ns));
            v.push((*b, ns));
        }
    }
    v.sort();
    v.dedup();
    v
}

fn keys_label(pool: &PoolSigner, peer: usize, ee: usize) -> String {
    format!("keys:peer-rsa{}:ee-rsa{}", bits_of(pool, peer), bits_of(pool, ee))
}

/// One job of part 4.
enum FineJob {
    /// a message made by the library through the harness' `SizedSigner`
    Created { peer: usize, ee: usize, which: u64 },
    /// a message of the independent assembler; `whole_plan`: also the
    /// whole-second / other-key plan of part 2 (`run_msg`)
    Assembled { m: Msg, whole_plan: bool },
}

/// (peer identity key, EE key) by ring index: every pair of sizes; the
/// all-2048 pair comes last so that small budgets start with the big ones.
fn key_pairs(round: u64, have_big: bool) -> Vec<(usize, usize)> {
    let r = round as usize;
    let small_peer = r % 3;
    let small_ee = 3 + r % 3;
    if !have_big {
        return vec![(small_peer, small_ee)];
    }
    vec![
        (small_peer, K3072[r % 3]),
        (K4096[0], K4096[1]),
        (K3072[0], small_ee),
        (small_peer, K4096[r % 2]),
        (K3072[1], K3072[2]),
        (K4096[1], small_ee),
        (K3072[2], K4096[0]),
        (K4096[0], K3072[1]),
        (small_peer, small_ee),
    ]
}

fn fine_jobs(rng: &mut Rng, round: u64, have_big: bool) -> Vec<FineJob> {
    let pairs = key_pairs(round, have_big);
    let mut i = 500_000 + round * 10_000;
    let mut next = |rng: &mut Rng, e: Entry, label: &str| -> Msg {
        i += 1;
        let mut m = Msg::base(e, rng, i);
        m.label = label.into();
        m
    };
    let with_keys = |m: &mut Msg, peer: usize, ee: usize| {
        m.issuer = peer;
        m.ee_signer = peer;
        m.crl_signer = peer;
        m.ee_key = ee;
    };
    // --- messages created by the library under every pair of key sizes
    let mut created: Vec<FineJob> = Vec::new();
    for (pi, (peer, ee)) in pairs.iter().enumerate() {
        for w in 0..4u64 {
            created.push(FineJob::Created { peer: *peer, ee: *ee, which: (w + pi as u64 + round) % 4 });
        }
    }
    // --- assembled messages under every pair of key sizes, otherwise plain
    let mut sized: Vec<FineJob> = Vec::new();
    let mut controls: Vec<FineJob> = Vec::new();
    let akis = [(Aki::Issuer, Aki::Issuer), (Aki::Absent, Aki::Issuer), (Aki::Issuer, Aki::Absent), (Aki::Absent, Aki::Absent)];
    for (pi, (peer, ee)) in pairs.iter().enumerate() {
        for ei in 0..ENTRIES.len() {
            let e = ENTRIES[(ei + pi + round as usize) % 4];
            let mut m = next(rng, e, "keys");
            with_keys(&mut m, *peer, *ee);
            m.attrs_total = [None, Some(128usize), None, Some(300)][(ei + pi) % 4];
            let (a, c) = akis[(ei + round as usize) % 4];
            m.ee_aki = a;
            m.crl_aki = c;
            m.ee_bc = [Bc::Absent, Bc::CaFalse][(ei + pi) % 2];
            m.crl_rev = if (ei / 2 + pi) % 2 == 0 { Rev::Absent } else { Rev::Others(2) };
            sized.push(FineJob::Assembled { m, whole_plan: true });
        }
        // single violations under the same keys: a library that waves big
        // keys through must not get away with it (three of seven per round)
        if *peer >= BIG_BASE || *ee >= BIG_BASE {
            for c in 0..3usize {
                let kind = (c * 3 + pi + round as usize) % 7;
                let e = ENTRIES[(c + pi + round as usize) % 4];
                let mut m = next(rng, e, "keys-single-violation");
                with_keys(&mut m, *peer, *ee);
                match kind {
                    0 => m.tamper = Tamper::SigOtherKey,
                    1 => m.tamper = Tamper::SigCtx0,
                    2 => m.tamper = Tamper::DigestBitFlip,
                    3 => m.ee_bc = Bc::CaTrue,
                    4 => m.crl_rev = Rev::ListsEe { n: 2, pos: 1, with_ext: false },
                    5 => {
                        m.ee_signer = sibling_of(*peer);
                        m.ee_aki = Aki::Absent;
                    }
                    _ => {
                        m.crl_signer = sibling_of(*peer);
                        m.crl_aki = Aki::Absent;
                    }
                }
                controls.push(FineJob::Assembled { m, whole_plan: true });
            }
        }
    }
    // --- window layouts, looked at between the seconds
    let mut windows: Vec<FineJob> = Vec::new();
    let y2050 = cms::unix_from_civil(2050, 1, 1, 0, 0, 0);
    let mut layouts: Vec<(i64, i64, i64, i64, i64, &str)> = vec![
        (T0, -300, 100, -100, 300, "ee-ends-first"),
        (T0, -100, 300, -300, 100, "crl-ends-first"),
        (T0, -300, 300, -100, 100, "crl-inside-ee"),
        (T0, -100, 100, -300, 300, "ee-inside-crl"),
        (T0, -60, 60, -60, 60, "same-window"),
        (T0, 0, 0, -10, 10, "ee-one-instant"),
        (T0, -10, 10, 0, 0, "crl-one-instant"),
        (T0, 0, 300, -300, 0, "touching-at-one-instant"),
        (T0, 0, 1, 0, 1, "one-second-window"),
        (y2050, -100, 100, -50, 50, "window-across-2050"),
        (y2050, -50, 0, -100, 0, "window-ending-with-2049"),
    ];
    for _ in 0..3 {
        let era = if rng.chance(1, 4) { y2050 - 20 } else { T0 + rng.range(0, 100_000) as i64 };
        layouts.push((era, -(rng.range(0, 40) as i64), rng.range(0, 40) as i64, -(rng.range(0, 40) as i64), rng.range(0, 40) as i64, "random-window"));
    }
    for (li, (base, a, b, c, d, label)) in layouts.into_iter().enumerate() {
        let e = ENTRIES[(li + round as usize) % 4];
        let mut m = next(rng, e, label);
        m.ee_nb = base + a;
        m.ee_na = base + b;
        m.crl_tu = base + c;
        m.crl_nu = base + d;
        let (ea, ca) = akis[(li + round as usize) % 4];
        m.ee_aki = ea;
        m.crl_aki = ca;
        if li % 3 == 2 {
            let (peer, ee) = pairs[(li / 3 + round as usize) % pairs.len()];
            with_keys(&mut m, peer, ee);
        }
        windows.push(FineJob::Assembled { m, whole_plan: false });
    }
    // interleave the four groups so that any prefix is a cross-section
    let mut groups = [created.into_iter(), sized.into_iter(), controls.into_iter(), windows.into_iter()];
    let mut out = Vec::new();
    loop {
        let mut any = false;
        for g in groups.iter_mut() {
            if let Some(j) = g.next() {
                out.push(j);
                any = true;
            }
        }
        if !any {
            break;
        }
    }
    out
}

/// A message created by the library with the harness' `SizedSigner`
/// (peer key and one-off EE key of the chosen sizes), decoded again and
/// validated at whole seconds and between seconds around the EE and the CRL
/// window, under the peer key; under other keys in the middle.
#[allow(clippy::too_many_arguments)]
fn created_sized(ctx: &mut Ctx, pool: &PoolSigner, signer: &SizedSigner, rng: &mut Rng, i: u64, peer: usize, ee: usize, which: u64, have_big: bool) {
    signer.set_next_one_off(ee);
    let label = keys_label(pool, peer, ee);
    let default_keys = peer < BIG_BASE && ee < BIG_BASE;
    let era: i64 = match rng.below(6) {
        0 => 2_524_608_000 - 3,  // the window crosses 2049 / 2050
        1 => 2_524_608_000 - 60, // ends with 2049 (len 60) or before
        _ => T0 + rng.range(0, 1_000_000) as i64,
    };
    let len = *rng.pick(&[1i64, 2, 60, 60, 600, 86_400]);
    let n = rng.usize_below(200);
    let data = Bytes::from(rng.bytes(n));
    let requested: Option<(i64, i64)> = if which < 2 { Some((era, era + len)) } else { None };
    let made = ctx.no_panic("create-with-sized-signer", || json!({"i": i, "keys": label, "which": which}), || -> Result<(Decoded, Vec<u8>, Entry), String> {
        match which {
            0 | 1 => {
                let m = SignedMessage::create(data, Validity::new(time(era), time(era + len)), &peer, signer).map_err(|e| e.to_string())?;
                let bytes = m.to_captured().into_bytes().to_vec();
                Ok((Decoded::S(m), bytes, if which == 0 { Entry::SignedRelaxed } else { Entry::SignedStrict }))
            }
            2 => {
                let s = SenderHandle::from_str(&format!("child-{}", i)).unwrap();
                let r = RecipientHandle::from_str("parent").unwrap();
                let m = ProvisioningCms::create(provisioning::Message::list(s, r), &peer, signer).map_err(|e| e.to_string())?;
                let bytes = m.to_bytes().to_vec();
                Ok((Decoded::P(m), bytes, Entry::Provisioning))
            }
            _ => {
                let m = PublicationCms::create(publication::Message::list_query(), &peer, signer).map_err(|e| e.to_string())?;
                let bytes = m.to_bytes().to_vec();
                Ok((Decoded::U(m), bytes, Entry::Publication))
            }
        }
    });
    let (in_memory, bytes, entry) = match made {
        Some(Ok(x)) => x,
        Some(Err(e)) => {
            // the signer is the harness' own and does not fail: the library refused
            ctx.eval();
            ctx.violation(
                &format!("C10:created-message:create-fails:{}", label),
                &format!("creating a message with a working signer fails: {}", e),
                json!({"keys": label, "peer_key": peer, "ee_key": ee, "which": which}),
            );
            return;
        }
        None => return,
    };
    ctx.obs("fine:created_messages", 1);
    let (Some((nb, na)), Some((tu, nu))) = (cms::embedded_cert_validity(&bytes), cms::embedded_crl_window(&bytes)) else {
        ctx.violation(
            "C10:created-message:not-der-readable",
            "a message created by the library does not have the RFC 6492 layout (EE certificate, CRL) when read by an independent DER reader",
            json!({"entry": entry.name(), "keys": label, "message": hex(&bytes)}),
        );
        return;
    };
    let (lo, hi) = requested.unwrap_or((nb, na));
    let mid = lo + (hi - lo) / 2;
    let key = info_of(pool, peer);
    let mut n = 0u64;
    let what_keys = |fallback: &str| -> String { if default_keys { fallback.to_string() } else { label.clone() } };
    // before it is encoded (only in the middle: ProvisioningCms / PublicationCms keep
    // the fractions of the wall clock in memory, the wire form does not)
    if let Some(r) = ctx.no_panic("validate-created-before-encoding", || json!({"entry": entry.name(), "keys": label, "message": hex(&bytes)}), || in_memory.validate_at_ns(&key, mid, 0)) {
        n += 1;
        ctx.obs(if r.is_ok() { "fine:accepted" } else { "fine:rejected" }, 1);
        if let Err(e) = &r {
            ctx.violation(
                &format!("C10:created-message:rejected-within-validity:before-encoding:{}", what_keys("inside")),
                &format!("a message created by the library is rejected under the issuing key in the middle of its validity, before it is even encoded: {}", e),
                json!({"entry": entry.name(), "keys": label, "peer_key": peer, "ee_key": ee, "t": mid, "not_before": nb, "not_after": na, "this_update": tu, "next_update": nu, "message": hex(&bytes)}),
            );
        }
    }
    let dec = match ctx.no_panic("decode-created", || json!({"entry": entry.name(), "keys": label, "message": hex(&bytes)}), || decode(entry, &bytes)) {
        Some(Ok(d)) => d,
        Some(Err(e)) => {
            ctx.evals(n + 1);
            ctx.violation(
                &if default_keys { "C10:created-message:does-not-decode".to_string() } else { format!("C10:created-message:does-not-decode:{}", label) },
                &format!("a message created by the library is rejected by its own decoder ({}): {}", entry.name(), e),
                json!({"entry": entry.name(), "keys": label, "message": hex(&bytes)}),
            );
            return;
        }
        None => return,
    };
    // the middle first: if that fails, every other inside instant fails alike
    let mut plan: Vec<(i64, u32)> = vec![(mid, 0), (mid, 500_000_000), (lo, 0), (hi, 0)];
    if ctx.stage == Stage::Valgrind {
        // every validation costs seconds there: one instant next to each end
        plan.extend([(na, 1), (nb - 1, 999_999_999), (nu, 500_000_000), (tu - 1, 500_000_000)]);
    } else {
        plan.extend(fine_instants(&[nb, na, tu, nu]));
    }
    let mut seen: Vec<(i64, u32)> = Vec::new();
    let mut mid_failed = false;
    let len_class = if hi - lo < 3 { "tiny" } else if hi - lo < 1000 { "minutes" } else { "long" };
    for (idx, (s, ns)) in plan.into_iter().enumerate() {
        if seen.contains(&(s, ns)) {
            continue;
        }
        seen.push((s, ns));
        let expected = in_window(s, ns, lo, hi);
        let Some(r) = ctx.no_panic("validate-created", || json!({"entry": entry.name(), "keys": label, "t": s, "t_nanoseconds": ns, "message": hex(&bytes)}), || dec.validate_at_ns(&key, s, ns)) else { continue };
        n += 1;
        let tc = fine_class(s, ns, lo, hi);
        ctx.sig(&format!("created-sized {} {} window-len-class={} time={} {}", entry.name(), label, len_class, tc, ns_class(ns)));
        ctx.obs(if r.is_ok() { "fine:accepted" } else { "fine:rejected" }, 1);
        if ns != 0 {
            ctx.obs("fine:created:instants_between_seconds", 1);
            ctx.obs(&format!("fine:created:{}:{}", tc, if r.is_ok() { "accepted" } else { "rejected" }), 1);
        }
        if idx == 0 {
            ctx.obs(&format!("keysize:created:{}:{}", &label[5..], if r.is_ok() { "accepted" } else { "rejected" }), 1);
        }
        let detail = || {
            json!({"entry": entry.name(), "keys": label, "peer_key": peer, "ee_key": ee, "t": s, "t_nanoseconds": ns, "evaluation_time": time_ns(s, ns).to_rfc3339(),
                   "not_before": nb, "not_after": na, "this_update": tu, "next_update": nu, "observed": format!("{:?}", r), "message": hex(&bytes)})
        };
        if expected && r.is_err() {
            if idx != 0 && mid_failed {
                ctx.obs("fine:instants_failing_like_the_middle_one", 1);
                continue;
            }
            if idx == 0 {
                mid_failed = true;
            }
            let what = if idx == 0 { what_keys(tc) } else { tc.to_string() };
            ctx.violation(
                &format!("C10:created-message:rejected-within-validity:{}", what),
                &format!("a message created by the library ({}) is rejected under the issuing key at {} ({}, {}), inside its validity: {}", label, time_ns(s, ns).to_rfc3339(), tc, ns_class(ns), r.clone().unwrap_err()),
                detail(),
            );
        } else if !expected && r.is_ok() {
            ctx.violation(
                &format!("C10:created-message:accepted-outside-validity:{}", tc),
                &format!("a message created by the library ({}) is accepted at {} ({}, {}), outside its validity", label, time_ns(s, ns).to_rfc3339(), tc, ns_class(ns)),
                detail(),
            );
        } else if (ns == 1 && tc == "within-1s-after-end") || (ns == 999_999_999 && tc.starts_with("within-1s-before")) || (idx == 0 && !default_keys) {
            // the evidence shows the first kinds in alphabetical order: "a0" keeps these visible
            ctx.sample(if ns != 0 { "a0:between-seconds" } else { "a0:key-sizes" }, || {
                json!({"source": "created by the library", "entry": entry.name(), "keys": label, "evaluation_time": time_ns(s, ns).to_rfc3339(), "not_before": nb, "not_after": na, "time": tc,
                       "expected": if expected { "accept" } else { "reject" }, "observed": format!("{:?}", r)})
            });
        }
    }
    // no other key validates it
    let mut others: Vec<usize> = vec![(peer + 1) % 3, ee];
    if have_big {
        others.extend([K3072[0], K3072[1], K4096[0], K4096[1]]);
    }
    others.sort();
    others.dedup();
    for k in others {
        if k == peer {
            continue;
        }
        let other = info_of(pool, k);
        let Some(r) = ctx.no_panic("validate-created-other-key", || json!({"entry": entry.name(), "keys": label, "key": k, "message": hex(&bytes)}), || dec.validate_at_ns(&other, mid, 0)) else { continue };
        n += 1;
        ctx.sig(&format!("created-sized {} {} key={}", entry.name(), label, if k == ee { "ee-key-itself".to_string() } else { format!("other-rsa{}", bits_of(pool, k)) }));
        ctx.obs(if r.is_ok() { "fine:accepted" } else { "fine:rejected" }, 1);
        if r.is_ok() {
            ctx.violation(
                "C10:created-message:accepted-under-other-key",
                "a message created by the library validates under a key that did not issue it",
                json!({"entry": entry.name(), "keys": label, "issuer_key": peer, "ee_key": ee, "validated_under": k, "t": mid, "message": hex(&bytes)}),
            );
        }
    }
    ctx.evals(n);
}

/// An assembled message that violates nothing but (possibly) the time is
/// validated under the peer key at instants between seconds next to all four
/// window ends; messages under big keys also under keys that did not sign.
fn run_fine(ctx: &mut Ctx, pool: &PoolSigner, m: &Msg, have_big: bool) {
    if m.static_violation().is_some() || m.recorded_reason().is_some() {
        return;
    }
    let b = build(pool, m);
    let sized = m.issuer >= BIG_BASE || m.ee_key >= BIG_BASE;
    let label = if sized { keys_label(pool, m.issuer, m.ee_key) } else { m.label.clone() };
    let lo = m.ee_nb.max(m.crl_tu);
    let hi = m.ee_na.min(m.crl_nu);
    let Some(dec) = ctx.no_panic("decode", || msg_json(m, &b), || decode(m.entry, &b.bytes)) else { return };
    let dec = match dec {
        Ok(d) => d,
        Err(e) => {
            ctx.eval();
            ctx.obs("fine:rejected_at_decode", 1);
            if lo <= hi {
                let mut d = msg_json(m, &b);
                d["observed_error"] = json!(e);
                ctx.violation(
                    &format!("C10:valid-rejected:{}", label),
                    &format!("a correctly signed, current, unrevoked message does not even decode ({}): {}", m.entry.name(), e),
                    d,
                );
            }
            return;
        }
    };
    ctx.obs("fine:assembled_messages", 1);
    let key = info_of(pool, m.issuer);
    let mut plan: Vec<(i64, u32)> = Vec::new();
    if lo <= hi {
        plan.push((lo + (hi - lo) / 2, if lo < hi { 500_000_000 } else { 0 }));
    }
    let first_is_mid = !plan.is_empty();
    if ctx.stage == Stage::Valgrind {
        plan.extend([(m.ee_na, 1), (m.ee_nb - 1, 999_999_999), (m.crl_nu, 500_000_000), (m.crl_tu - 1, 500_000_000)]);
    } else {
        plan.extend(fine_instants(&[m.ee_nb, m.ee_na, m.crl_tu, m.crl_nu]));
    }
    let mut seen: Vec<(i64, u32)> = Vec::new();
    let mut mid_failed = false;
    let mut n = 0u64;
    for (idx, (s, ns)) in plan.into_iter().enumerate() {
        if seen.contains(&(s, ns)) {
            continue;
        }
        seen.push((s, ns));
        let in_ee = in_window(s, ns, m.ee_nb, m.ee_na);
        let in_crl = in_window(s, ns, m.crl_tu, m.crl_nu);
        let before = |lo: i64| s < lo;
        let violated: Option<String> = if !in_ee && !in_crl {
            Some("time-outside-both-windows".into())
        } else if !in_ee {
            Some(format!("ee-{}", if before(m.ee_nb) { "not-yet-valid" } else { "expired" }))
        } else if !in_crl {
            Some(format!("crl-{}", if before(m.crl_tu) { "not-yet-valid" } else { "stale" }))
        } else {
            None
        };
        let expected = violated.is_none();
        let Some(r) = ctx.no_panic("validate_at", || msg_json(m, &b), || dec.validate_at_ns(&key, s, ns)) else { continue };
        n += 1;
        let ec = fine_class(s, ns, m.ee_nb, m.ee_na);
        let cc = fine_class(s, ns, m.crl_tu, m.crl_nu);
        let tp = format!("ee:{}/crl:{}", ec, cc);
        ctx.sig(&format!("fine {} {} aki[{:?},{:?}] time={} {}", m.entry.name(), if sized { label.as_str() } else { "keys-2048" }, m.ee_aki, m.crl_aki, tp, ns_class(ns)));
        ctx.obs(if r.is_ok() { "fine:accepted" } else { "fine:rejected" }, 1);
        if ns != 0 {
            ctx.obs("fine:assembled:instants_between_seconds", 1);
            ctx.obs(&format!("fine:assembled:ee-window:{}:{}", ec, if r.is_ok() { "accepted" } else { "rejected" }), 1);
            ctx.obs(&format!("fine:assembled:crl-window:{}:{}", cc, if r.is_ok() { "accepted" } else { "rejected" }), 1);
        }
        let detail = || {
            let mut d = msg_json(m, &b);
            d["t"] = json!(s);
            d["t_nanoseconds"] = json!(ns);
            d["evaluation_time"] = json!(time_ns(s, ns).to_rfc3339());
            d["observed"] = json!(format!("{:?}", r));
            d
        };
        if expected && r.is_err() {
            let is_mid = first_is_mid && idx == 0;
            if !is_mid && mid_failed {
                ctx.obs("fine:instants_failing_like_the_middle_one", 1);
                continue;
            }
            if is_mid {
                mid_failed = true;
            }
            let what = if is_mid && sized { label.clone() } else { format!("time:{}", tp) };
            ctx.violation(
                &format!("C10:valid-rejected:{}", what),
                &format!("a correctly signed message ({}) that is current at {} ({}, {}) and not revoked was rejected under the peer key: {}", label, time_ns(s, ns).to_rfc3339(), tp, ns_class(ns), r.clone().unwrap_err()),
                detail(),
            );
        } else if !expected && r.is_ok() {
            let v = violated.clone().unwrap();
            ctx.violation(
                &format!("C10:invalid-accepted:{}:{}", v, tp),
                &format!("a message violating exactly one condition ({}) was accepted at {} ({}, {})", v, time_ns(s, ns).to_rfc3339(), tp, ns_class(ns)),
                detail(),
            );
        } else if (ns == 1 && (ec == "within-1s-after-end" || cc == "within-1s-after-end")) || (ns == 999_999_999 && (ec == "within-1s-before-start" || cc == "within-1s-before-start")) || (first_is_mid && idx == 0 && sized) {
            ctx.sample(if first_is_mid && idx == 0 && sized { "a0:key-sizes" } else { "a0:between-seconds" }, || {
                json!({"source": "independent assembler", "entry": m.entry.name(), "label": label, "ee_window": [m.ee_nb, m.ee_na], "crl_window": [m.crl_tu, m.crl_nu], "evaluation_time": time_ns(s, ns).to_rfc3339(),
                       "time": tp, "expected": if expected { "accept" } else { "reject" }, "observed": format!("{:?}", r)})
            });
        }
    }
    // under keys of every size that signed nothing of it
    if sized && lo <= hi && have_big {
        let mid = lo + (hi - lo) / 2;
        for k in [0usize, K3072[0], K3072[1], K4096[0], K4096[1]] {
            if k == m.issuer {
                continue;
            }
            let other = info_of(pool, k);
            let Some(r) = ctx.no_panic("validate_at-other-key", || msg_json(m, &b), || dec.validate_at_ns(&other, mid, 0)) else { continue };
            n += 1;
            ctx.obs(if r.is_ok() { "fine:accepted" } else { "fine:rejected" }, 1);
            let rel = if k == m.ee_key { "ee-key" } else { "unrelated-key" };
            ctx.sig(&format!("fine {} {} key={}-rsa{}", m.entry.name(), label, rel, bits_of(pool, k)));
            if r.is_ok() {
                let mut d = msg_json(m, &b);
                d["validated_under_key"] = json!(k);
                ctx.violation(
                    &format!("C10:invalid-accepted:validated-under-{}", rel),
                    "a message validates against a key that did not sign both its EE certificate and its CRL",
                    d,
                );
            }
        }
    }
    ctx.evals(n);
}

/// Part 4 driver.
fn fine_and_sized(ctx: &mut Ctx, pool: &PoolSigner) {
    // RSA-4096 key generation is affordable natively and under ASan (aws-lc is
    // not instrumented); under valgrind only keys an earlier stage has cached
    let big = c10_keys::big_keys(ctx.stage != Stage::Valgrind);
    let have_big = big.is_some();
    match big {
        Some(b) => {
            ctx.obs_max("keysize:rsa3072_keys", b.k3072.len() as u64);
            ctx.obs_max("keysize:rsa4096_keys", b.k4096.len() as u64);
            ctx.obs("keysize:keys_generated_by_this_run", b.generated as u64);
        }
        None => ctx.notes.push("C10: RSA-3072 / RSA-4096 keys are not in the key cache and are too slow to generate in this stage; the key-size cases of part 4 are skipped, the sub-second ones run with RSA-2048".into()),
    }
    let thorough = ctx.tier == Tier::Thorough;
    let jobs = ctx.stage_budget((330, 12_000), if thorough { 330 } else { 110 }, 0, 8);
    let signer = SizedSigner::new(pool);
    let mut rng = ctx.rng("fine-and-sized");
    let mut done = 0u64;
    let mut g = 0u64;
    let mut round = 0u64;
    'outer: while round < 10_000 {
        for job in fine_jobs(&mut rng, round, have_big) {
            let mine = ctx.mine(g);
            g += 1;
            if !mine {
                continue;
            }
            match job {
                FineJob::Created { peer, ee, which } => created_sized(ctx, pool, &signer, &mut rng, g, peer, ee, which, have_big),
                FineJob::Assembled { m, whole_plan } => {
                    let mut m = m;
                    let kl = keys_label(pool, m.issuer, m.ee_key);
                    if m.label == "keys" {
                        m.label = if m.issuer >= BIG_BASE || m.ee_key >= BIG_BASE { kl.clone() } else { "keys-all-rsa2048".into() };
                    }
                    if whole_plan {
                        let before = ctx.violation_count();
                        let ok = run_msg(ctx, pool, &m, ctx.stage != Stage::Valgrind);
                        if m.static_violation().is_none() {
                            ctx.obs(&format!("keysize:assembled:{}:{}", &kl[5..], if ok == Some(true) { "accepted" } else { "rejected" }), 1);
                        } else {
                            ctx.obs(&format!("keysize:single-violation:{}", if ok == Some(true) { "accepted" } else { "rejected" }), 1);
                        }
                        // the message is refused as a whole: the instants between seconds would only repeat that
                        if ctx.violation_count() > before && ok != Some(true) {
                            done += 1;
                            if done >= jobs {
                                break 'outer;
                            }
                            continue;
                        }
                    }
                    run_fine(ctx, pool, &m, have_big);
                }
            }
            done += 1;
            if done >= jobs {
                break 'outer;
            }
        }
        round += 1;
    }
    ctx.obs("fine:jobs", done);
    ctx.obs("signatures_by_sized_signer", signer.signatures.get());
}

//------------ part 2b: other CRL extensions ------------------------------------

/// The CRL of an otherwise valid message gets one more extension and is
/// signed again by the peer key (the CMS signature does not cover the CRL).
/// RFC 6492 / 8181 / 8183 do not profile the BPKI CRL (RFC 6487 section 5 is
/// about RPKI CRLs), RFC 5280 lets a relying party ignore non-critical
/// extensions it does not know, and every condition of the statement still
/// holds for such a message. A critical unknown extension may be refused.
fn crl_extra_extensions(ctx: &mut Ctx, pool: &PoolSigner) {
    if ctx.shard != 0 || ctx.stage == Stage::Valgrind {
        return;
    }
    let mut rng = ctx.rng("crl-extensions");
    // (name, oid, critical, value)
    let kinds: Vec<(&str, Vec<u64>, bool, Vec<u8>)> = vec![
        ("freshest-crl", vec![2, 5, 29, 46], false, crate::der::seq(&[&crate::der::seq(&[&crate::der::tlv(0xA0, &crate::der::tlv(0xA0, &crate::der::tlv(0x86, b"http://crl.example/bpki-delta.crl")))])])),
        ("authority-info-access", vec![1, 3, 6, 1, 5, 5, 7, 1, 1], false, crate::der::seq(&[&crate::der::seq(&[&crate::der::oid(&[1, 3, 6, 1, 5, 5, 7, 48, 2]), &crate::der::tlv(0x86, b"http://ca.example/bpki-ta.cer")])])),
        ("issuer-alt-name", vec![2, 5, 29, 18], false, crate::der::seq(&[&crate::der::tlv(0x81, b"ca@example.net")])),
        ("private-oid-null", vec![1, 3, 6, 1, 4, 1, 99999, 1], false, crate::der::null()),
        ("private-oid-empty-sequence", vec![1, 3, 6, 1, 4, 1, 99999, 2], false, crate::der::seq(&[])),
        ("private-oid-two-values", vec![1, 3, 6, 1, 4, 1, 99999, 3], false, crate::der::concat(&[&crate::der::uint(1), &crate::der::uint(2)])),
        ("private-oid-critical", vec![1, 3, 6, 1, 4, 1, 99999, 4], true, crate::der::null()),
    ];
    for (ki, (name, oid, critical, value)) in kinds.iter().enumerate() {
        for entry in ENTRIES {
            let m = Msg::base(entry, &mut rng, ki as u64);
            let b = build(pool, &m);
            let key = pool.info(m.issuer);
            // precondition: the unmodified message validates
            let plain_ok = matches!(decode(entry, &b.bytes).and_then(|d| d.validate_at(&key, T0)), Ok(()));
            let Some(root) = crate::der::parse(&b.bytes) else { continue };
            let Some(crl) = root.path(&[1, 0, 4, 0]) else { continue };
            let (Some(tbs), Some(alg)) = (crl.child(0), crl.child(1)) else { continue };
            let Some(ext_wrapper_idx) = tbs.children.iter().position(|c| c.tag == crate::der::ctx(0)) else { continue };
            let Some(exts) = tbs.children[ext_wrapper_idx].child(0) else { continue };
            if !plain_ok {
                continue;
            }
            // new extension list: at the front, in the middle or at the end
            let new_ext = cms::extension(oid, *critical, value);
            let mut list: Vec<Vec<u8>> = exts.children.iter().map(|c| c.whole(&b.bytes).to_vec()).collect();
            let at = (ki + entry as usize) % (list.len() + 1);
            list.insert(at, new_ext);
            let mut tbs_parts: Vec<Vec<u8>> = tbs.children.iter().map(|c| c.whole(&b.bytes).to_vec()).collect();
            tbs_parts[ext_wrapper_idx] = crate::der::tlv(crate::der::ctx(0), &crate::der::seq_of(&list));
            let new_tbs = crate::der::seq_of(&tbs_parts);
            let sig = pool.key(m.crl_signer).sign_raw(&new_tbs);
            let new_crl = crate::der::seq(&[&new_tbs, alg.whole(&b.bytes), &crate::der::bitstring(0, &sig)]);
            let bytes = crate::der::replace_node(&b.bytes, &root, &[1, 0, 4, 0], &new_crl);
            let detail = || json!({"entry": entry.name(), "extension": name, "critical": critical, "position": at, "t": T0, "peer_key": m.issuer, "message": hex(&bytes)});
            let r = ctx.no_panic("decode-validate-crl-extension", detail, || decode(entry, &bytes).map_err(|e| format!("decode: {e}")).and_then(|d| d.validate_at(&key, T0).map_err(|e| format!("validate: {e}"))));
            ctx.eval();
            let Some(r) = r else { continue };
            ctx.sig(&format!("crl-extension {} {} critical={} position={}", entry.name(), name, critical, if at == 0 { "first" } else if at + 1 == list.len() { "last" } else { "middle" }));
            ctx.obs(if r.is_ok() { "accepted" } else { "rejected" }, 1);
            match (&r, critical) {
                (Ok(()), false) => ctx.obs("crl-extension:non-critical:accepted", 1),
                (Ok(()), true) => ctx.obs("crl-extension:critical-unknown:accepted", 1),
                (Err(_), true) => ctx.obs("crl-extension:critical-unknown:rejected", 1),
                (Err(e), false) => {
                    ctx.obs("crl-extension:non-critical:rejected", 1);
                    ctx.violation(
                        &format!("C10:valid-rejected:crl-with-other-extension:{}", if e.starts_with("decode") { "decode" } else { "validate" }),
                        &format!("a correctly signed message whose CRL (signed by the peer key, current, not listing the EE certificate) carries a non-critical extension other than AKI and CRL number is rejected: {e}"),
                        detail(),
                    );
                }
            }
            ctx.sample("g:crl-with-other-extension", || json!({"entry": entry.name(), "extension": name, "critical": critical, "observed": format!("{:?}", r)}));
        }
    }
}

//------------ part 3: SoftSigner, state across calls ---------------------------

/// What the harness knows about one key id of the signer under test.
struct ModelKey {
    id: rpki::crypto::softsigner::KeyId,
    /// the public key this id stands for: for imported keys the public half
    /// of what was imported (computed by the harness), for generated keys
    /// what `get_key_info` said right after `create_key`
    info: PublicKey,
    alive: bool,
    origin: &'static str,
}

/// PKCS#1 v1.5 / SHA-256 verification straight through aws-lc-rs.
fn raw_verify(info: &PublicKey, data: &[u8], sig: &[u8]) -> bool {
    aws_lc_rs::signature::UnparsedPublicKey::new(&aws_lc_rs::signature::RSA_PKCS1_2048_8192_SHA256, info.bits())
        .verify(data, sig)
        .is_ok()
}

/// RSAPrivateKey (PKCS#1) out of a PKCS#8 PrivateKeyInfo: the content of its OCTET STRING.
fn pkcs1_of_pkcs8(p8: &[u8]) -> Option<Vec<u8>> {
    let root = crate::der::parse(p8)?;
    let key = root.child(2)?;
    if key.tag != 0x04 {
        return None;
    }
    Some(key.content(p8).to_vec())
}

/// One history of operations on one `SoftSigner`, checked after every step
/// against the model: the public key of a live id never changes; signatures
/// and protocol messages made under id k verify / validate under the key
/// recorded for k and under no other key of the history. A destroyed id that
/// still works with its *own* key is only recorded; one that signs with
/// another key is a message validating under a key that did not issue it.
fn softsigner_history(ctx: &mut Ctx, pool: &PoolSigner, rng: &mut Rng, h: u64, max_cms: u32) {
    use aws_lc_rs::encoding::AsDer;
    use rpki::crypto::softsigner::SoftSigner;
    use rpki::crypto::{PublicKeyFormat, RpkiSignatureAlgorithm, Signer};

    let signer = SoftSigner::new();
    let mut model: Vec<ModelKey> = Vec::new();
    let mut trace: Vec<String> = Vec::new();
    let mut cms_left = max_cms;
    let mut evals = 0u64;
    // pool keys not yet imported into this signer
    let mut fresh: Vec<usize> = (0..pool.len()).collect();
    rng.shuffle(&mut fresh);
    let mut generated = false;

    // --- helpers as closures would fight the borrow checker; small macros instead
    macro_rules! add_key {
        ($how:expr) => {{
            let how: u64 = $how;
            let added: Option<(rpki::crypto::softsigner::KeyId, PublicKey, &'static str)> = match how {
                0 if !generated => {
                    generated = true;
                    match ctx.no_panic("SoftSigner::create_key", || json!({"history": h, "ops": trace}), || signer.create_key(PublicKeyFormat::Rsa)) {
                        Some(Ok(id)) => match signer.get_key_info(&id) {
                            Ok(info) => Some((id, info, "create_key")),
                            Err(_) => {
                                ctx.violation("C10:softsigner:new-key-not-found", "get_key_info fails for the id create_key has just returned", json!({"history": h, "ops": trace}));
                                None
                            }
                        },
                        _ => None,
                    }
                }
                _ => match fresh.pop() {
                    None => None,
                    Some(pi) => {
                        let p8: Option<aws_lc_rs::encoding::Pkcs8V1Der> = pool.key(pi).pair.as_der().ok();
                        match p8 {
                            None => None,
                            Some(p8) => {
                                let via_der = how % 2 == 1;
                                let r = if via_der {
                                    pkcs1_of_pkcs8(p8.as_ref()).map(|p1| signer.key_from_der(&p1))
                                } else {
                                    Some(signer.key_from_pem(p8.as_ref()))
                                };
                                match r {
                                    Some(Ok(id)) => Some((id, pool.info(pi), if via_der { "key_from_der" } else { "key_from_pem(pkcs8)" })),
                                    _ => {
                                        ctx.obs("softsigner_import_refused", 1);
                                        None
                                    }
                                }
                            }
                        }
                    }
                },
            };
            if let Some((id, info, origin)) = added {
                trace.push(format!("k{} = {}", model.len(), origin));
                model.push(ModelKey { id, info, alive: true, origin });
            }
        }};
    }

    /// every id: key info and a signature
    macro_rules! sweep {
        () => {{
            let data = rng.bytes(40);
            for k in 0..model.len() {
                let mk = &model[k];
                let detail = || json!({"history": h, "ops": trace, "key": k, "origin": mk.origin, "destroyed": !mk.alive,
                                       "recorded_key_id": mk.info.key_identifier().to_string()});
                let info = ctx.no_panic("SoftSigner::get_key_info", detail, || signer.get_key_info(&mk.id));
                let sig = ctx.no_panic("SoftSigner::sign", detail, || signer.sign(&mk.id, RpkiSignatureAlgorithm::default(), &data));
                evals += 2;
                let (Some(info), Some(sig)) = (info, sig) else { continue };
                // which key of the history made the signature, judged by aws-lc-rs
                let signed_by: Option<usize> = sig.as_ref().ok().and_then(|s| (0..model.len()).find(|j| raw_verify(&model[*j].info, &data, s.value())));
                if mk.alive {
                    match &info {
                        Ok(i) if i.to_info_bytes() == mk.info.to_info_bytes() => ctx.obs("softsigner_key_info_stable", 1),
                        Ok(i) => {
                            let other = (0..model.len()).find(|j| model[*j].info.to_info_bytes() == i.to_info_bytes());
                            ctx.violation(
                                "C10:softsigner:key-info-changed",
                                &format!("get_key_info for a live key id now returns another public key ({})", match other { Some(j) => format!("that of k{j}"), None => "an unknown one".into() }),
                                detail(),
                            );
                        }
                        Err(_) => ctx.violation("C10:softsigner:live-key-not-found", "get_key_info fails for a key id that was never destroyed", detail()),
                    }
                    match (&sig, signed_by) {
                        (Ok(_), Some(j)) if j == k => ctx.obs("softsigner_signature_under_own_key", 1),
                        (Ok(_), Some(j)) => ctx.violation(
                            "C10:softsigner:signature-under-other-key",
                            &format!("a signature requested under key id k{k} verifies under the public key of k{j}, not under its own"),
                            detail(),
                        ),
                        (Ok(_), None) => ctx.violation("C10:softsigner:signature-under-no-key", "a signature made by the signer verifies under no key of the history", detail()),
                        (Err(_), _) => ctx.violation("C10:softsigner:live-key-cannot-sign", "sign fails for a key id that was never destroyed", detail()),
                    }
                } else {
                    match (&sig, signed_by) {
                        (Err(_), _) => ctx.obs("softsigner_destroyed_id_refused", 1),
                        (Ok(_), Some(j)) if j == k => ctx.obs("softsigner_destroyed_key_still_signs_with_own_key", 1),
                        (Ok(_), other) => ctx.violation(
                            "C10:softsigner:destroyed-id-signs-with-other-key",
                            &format!("a destroyed key id still signs, with {}", match other { Some(j) => format!("the key of k{j}"), None => "an unknown key".into() }),
                            detail(),
                        ),
                    }
                    if let Ok(i) = &info {
                        if i.to_info_bytes() != mk.info.to_info_bytes() {
                            ctx.violation("C10:softsigner:destroyed-id-names-other-key", "get_key_info for a destroyed key id returns the public key of another key", detail());
                        } else {
                            ctx.obs("softsigner_destroyed_key_info_still_available", 1);
                        }
                    }
                }
            }
        }};
    }

    /// a protocol message created under id k
    macro_rules! cms_under {
        ($k:expr) => {{
            let k: usize = $k;
            if cms_left > 0 && k < model.len() {
                cms_left -= 1;
                trace.push(format!("message under k{k}"));
                let mk = &model[k];
                let which = rng.below(3);
                let nb = T0 - 300;
                let na = T0 + 300;
                let detail = || json!({"history": h, "ops": trace, "key": k, "origin": mk.origin, "destroyed": !mk.alive, "entry": which});
                let made: Option<Result<(Vec<u8>, Entry), String>> = ctx.no_panic("create-with-softsigner", detail, || match which {
                    0 => SignedMessage::create(Bytes::from(rng.bytes(50)), Validity::new(time(nb), time(na)), &mk.id, &signer)
                        .map(|m| (m.to_captured().into_bytes().to_vec(), Entry::SignedStrict))
                        .map_err(|e| e.to_string()),
                    1 => {
                        let s = SenderHandle::from_str("child").unwrap();
                        let r = RecipientHandle::from_str("parent").unwrap();
                        ProvisioningCms::create(provisioning::Message::list(s, r), &mk.id, &signer)
                            .map(|m| (m.to_bytes().to_vec(), Entry::Provisioning))
                            .map_err(|e| e.to_string())
                    }
                    _ => PublicationCms::create(publication::Message::list_query(), &mk.id, &signer)
                        .map(|m| (m.to_bytes().to_vec(), Entry::Publication))
                        .map_err(|e| e.to_string()),
                });
                evals += 1;
                match made {
                    None => {}
                    Some(Err(e)) => {
                        if mk.alive {
                            ctx.violation(
                                "C10:softsigner:create-fails-for-live-key",
                                &format!("creating a protocol message under a key id that was never destroyed fails: {e}"),
                                detail(),
                            );
                        } else {
                            ctx.obs("softsigner_destroyed_id_refused", 1);
                        }
                    }
                    Some(Ok((bytes, entry))) => {
                        let mid = match cms::embedded_cert_validity(&bytes) {
                            Some((a, b)) => a + (b - a) / 2,
                            None => T0,
                        };
                        match decode(entry, &bytes) {
                            Err(e) => ctx.violation(
                                "C10:created-message:does-not-decode",
                                &format!("a message created by the library (SoftSigner) is rejected by its own decoder ({}): {}", entry.name(), e),
                                json!({"entry": entry.name(), "message": hex(&bytes)}),
                            ),
                            Ok(dec) => {
                                let mut under: Vec<usize> = Vec::new();
                                for j in 0..model.len() {
                                    let r = ctx.no_panic("validate-created-softsigner", detail, || dec.validate_at(&model[j].info, mid));
                                    evals += 1;
                                    if let Some(Ok(())) = r {
                                        under.push(j);
                                    }
                                }
                                let d = || {
                                    let mut d = detail();
                                    d["validates_under"] = json!(under.iter().map(|j| format!("k{j}")).collect::<Vec<_>>());
                                    d["t"] = json!(mid);
                                    d["message"] = json!(hex(&bytes));
                                    d
                                };
                                ctx.sig(&format!("softsigner message {} key-origin={} destroyed-before={} keys={}", entry.name(), mk.origin, model.iter().any(|m| !m.alive), model.len()));
                                if under.iter().any(|j| *j != k) {
                                    ctx.violation(
                                        "C10:softsigner:message-validates-under-other-key",
                                        &format!("a message created under key id k{k} validates under the public key of another key id"),
                                        d(),
                                    );
                                } else if mk.alive && !under.contains(&k) {
                                    ctx.violation(
                                        "C10:softsigner:message-rejected-under-own-key",
                                        &format!("a message created under key id k{k} does not validate under the public key recorded for that id, inside its validity"),
                                        d(),
                                    );
                                } else if !mk.alive {
                                    ctx.obs("softsigner_destroyed_key_still_signs_with_own_key", 1);
                                } else {
                                    ctx.obs("softsigner_message_under_own_key_only", 1);
                                }
                            }
                        }
                    }
                }
            }
        }};
    }

    // --- the history
    let n_initial = rng.range(3, 4) as usize;
    let gen_at = rng.usize_below(n_initial + 1);
    for i in 0..n_initial {
        add_key!(if i == gen_at { 0 } else { 1 + rng.below(2) });
    }
    sweep!();
    let steps = rng.range(5, 8);
    let mut destroyed_any = false;
    for step in 0..steps {
        let alive: Vec<usize> = (0..model.len()).filter(|k| model[*k].alive).collect();
        let op = if step == 1 && !destroyed_any { 0 } else { rng.below(7) };
        match op {
            0 | 1 if alive.len() >= 2 => {
                // destroy: mostly not the newest key
                let k = if rng.chance(3, 4) { alive[rng.usize_below(alive.len() - 1)] } else { *alive.last().unwrap() };
                let id = model[k].id;
                let r = ctx.no_panic("SoftSigner::destroy_key", || json!({"history": h, "ops": trace, "key": k}), || signer.destroy_key(&id));
                trace.push(format!("destroy k{k}"));
                evals += 1;
                match r {
                    Some(Ok(())) => {
                        model[k].alive = false;
                        destroyed_any = true;
                        ctx.obs("softsigner_keys_destroyed", 1);
                    }
                    Some(Err(_)) => ctx.violation("C10:softsigner:live-key-not-found", "destroy_key fails for a key id that was never destroyed", json!({"history": h, "ops": trace, "key": k})),
                    None => {}
                }
                sweep!();
                // a message under a key created after the destroyed one, and one before
                let later: Vec<usize> = (k + 1..model.len()).filter(|j| model[*j].alive).collect();
                let earlier: Vec<usize> = (0..k).filter(|j| model[*j].alive).collect();
                if !later.is_empty() {
                    cms_under!(*rng.pick(&later));
                }
                if !earlier.is_empty() && rng.bool() {
                    cms_under!(*rng.pick(&earlier));
                }
            }
            2 => {
                add_key!(if model.len() < 6 { rng.below(3) } else { 9 });
                sweep!();
            }
            3 => {
                // a message under a destroyed id (must fail or still be the old key's)
                let dead: Vec<usize> = (0..model.len()).filter(|k| !model[*k].alive).collect();
                if !dead.is_empty() {
                    cms_under!(*rng.pick(&dead));
                } else if !alive.is_empty() {
                    cms_under!(*rng.pick(&alive));
                }
            }
            4 => {
                // one-off signatures must not disturb the stored keys
                let data = rng.bytes(30);
                let r = ctx.no_panic("SoftSigner::sign_one_off", || json!({"history": h, "ops": trace}), || signer.sign_one_off(RpkiSignatureAlgorithm::default(), &data));
                trace.push("sign_one_off".into());
                evals += 1;
                if let Some(Ok((sig, key))) = r {
                    if !raw_verify(&key, &data, sig.value()) {
                        ctx.violation("C10:softsigner:one-off-signature-not-under-returned-key", "sign_one_off returns a public key under which its signature does not verify", json!({"history": h, "ops": trace}));
                    } else if (0..model.len()).any(|j| model[j].info.to_info_bytes() == key.to_info_bytes()) {
                        ctx.violation("C10:softsigner:one-off-key-is-a-stored-key", "sign_one_off used one of the stored identity keys", json!({"history": h, "ops": trace}));
                    }
                }
                sweep!();
            }
            _ => {
                if !alive.is_empty() {
                    cms_under!(*rng.pick(&alive));
                }
            }
        }
    }
    sweep!();
    ctx.evals(evals);
    ctx.obs("softsigner_histories", 1);
    ctx.obs_max("softsigner_keys_in_one_history", model.len() as u64);
    ctx.sig(&format!("softsigner history keys={} destroyed={} generated={}", model.len(), model.iter().filter(|m| !m.alive).count(), generated));
    if h == 0 {
        let ops = trace.clone();
        ctx.sample("f:softsigner-history", || json!({"operations": ops, "observed": "every id kept its public key; signatures and messages validated under the recorded key of their id only"}));
    }
}

fn softsigner_histories(ctx: &mut Ctx, pool: &PoolSigner) {
    // RSA key generation (create_key, and the one-off EE key of every created
    // message) costs 50-300 ms natively and seconds under valgrind
    let (histories, max_cms) = match (ctx.stage, ctx.tier) {
        (Stage::Native, Tier::Quick) => (1, 4),
        (Stage::Native, Tier::Thorough) => (12, 5),
        (Stage::Asan, Tier::Quick) => (1, 2),
        (Stage::Asan, Tier::Thorough) => (2, 4),
        _ => (0, 0),
    };
    if histories == 0 {
        ctx.notes.push("C10: SoftSigner histories skipped in this stage (RSA key generation too slow here)".into());
        return;
    }
    let mut rng = ctx.rng("softsigner");
    for h in 0..histories {
        softsigner_history(ctx, pool, &mut rng, h, max_cms);
    }
}

/// Runs a message whose outcome is only recorded (unsorted attribute sets).
fn run_msg_recorded(ctx: &mut Ctx, pool: &PoolSigner, m: &Msg, full_plan: bool) -> Option<bool> {
    // reuse run_msg's bookkeeping but suppress its assertions by evaluating here
    let b = build(pool, m);
    let key = pool.info(m.issuer);
    let r = ctx.no_panic("decode-validate-unsorted", || msg_json(m, &b), || match decode(m.entry, &b.bytes) {
        Err(e) => Err(e),
        Ok(d) => d.validate_at(&key, T0),
    })?;
    let _ = full_plan;
    ctx.eval();
    ctx.obs(&format!("recorded:{}:{}", m.label, if r.is_ok() { "accepted" } else { "rejected" }), 1);
    ctx.obs(if r.is_ok() { "accepted" } else { "rejected" }, 1);
    ctx.sig(&format!("msg {} order=unsorted attrs{} {} extras={}", m.entry.name(), cms::size_class(b.attrs_len), m.label, m.extras));
    ctx.sample("e:recorded-unsorted", || json!({"signature_input": m.label, "entry": m.entry.name(), "signed_attrs_len": b.attrs_len, "observed": format!("{:?}", r)}));
    Some(r.is_ok())
}
