//! C03, IP half: IpBlocks / Ipv4Blocks / Ipv6Blocks / ResourceSet /
//! RequestResourceLimit / AddressRange decompositions against the model.

use crate::c03::{blocks_json, check_bool, check_set, obs_json, Obs};
use crate::c03_gen::{canonical_defect, prefix_expressible, sequence, Flavour, Seq};
use crate::core::{hex, Ctx, Rng, Stage};
use crate::der;
use crate::model::IntervalSet;
use bcder::decode::IntoSource;
use bcder::encode::{PrimitiveContent, Values};
use bcder::Mode;
use rpki::ca::provisioning::RequestResourceLimit;
use rpki::repository::cert::Overclaim;
use rpki::repository::resources::{
    Addr, AddressFamily, AddressRange, AsBlock, AsBlocks, IpBlock, IpBlocks, IpBlocksBuilder, IpResources, Ipv4Blocks,
    Ipv6Blocks, Prefix, ResourceSet,
};
use rpki::repository::roa::RoaIpAddress;
use rpki::resources::asn::Asn;
use serde_json::{json, Value};
use std::net::{Ipv4Addr, Ipv6Addr};
use std::str::FromStr;

pub(crate) fn family(fl: Flavour) -> AddressFamily {
    if fl == Flavour::V4 {
        AddressFamily::Ipv4
    } else {
        AddressFamily::Ipv6
    }
}

pub fn observe_ip(set: &IpBlocks) -> Obs {
    set.iter().map(|b| (b.min().to_bits(), b.max().to_bits(), matches!(b, IpBlock::Range(_)))).collect()
}

pub(crate) fn lib_block(fl: Flavour, lo: u128, hi: u128, mode: u64) -> IpBlock {
    let (a, b) = fl.embed(lo, hi);
    let (min, max) = (Addr::from_bits(a), Addr::from_bits(b));
    match mode {
        0 => IpBlock::from((min, max)),
        1 => IpBlock::Range(AddressRange::new(min, max)),
        _ => {
            if prefix_expressible(a, b) {
                let len = if a == 0 && b == u128::MAX { 0 } else { 128 - (b - a + 1).trailing_zeros() };
                IpBlock::Prefix(Prefix::new(min, len as u8))
            } else {
                IpBlock::Range(AddressRange::new(min, max))
            }
        }
    }
}

fn addr_text(fl: Flavour, v: u128) -> String {
    if fl == Flavour::V4 {
        Ipv4Addr::from(v as u32).to_string()
    } else {
        Ipv6Addr::from(v).to_string()
    }
}

/// One text item per block in the library's syntax, written by the harness
/// (std address formatting). A reversed block (lo > hi) is always written in
/// range syntax.
pub(crate) fn ip_text_items(fl: Flavour, blocks: &[(u128, u128)], rng: &mut Rng) -> Vec<String> {
    let mut parts = Vec::new();
    for (lo, hi) in blocks {
        if lo > hi {
            parts.push(format!("{}-{}", addr_text(fl, *lo), addr_text(fl, *hi)));
            continue;
        }
        let (a, b) = fl.embed(*lo, *hi);
        if prefix_expressible(a, b) && rng.chance(2, 3) {
            let host = if a == 0 && b == u128::MAX { 128 } else { (b - a + 1).trailing_zeros() };
            // for v4 the embedded /32 is 128-96 = 32 bits long already
            let len = 128 - host;
            if lo == hi && rng.bool() {
                parts.push(addr_text(fl, *lo));
            } else {
                parts.push(format!("{}/{}", addr_text(fl, *lo), len));
            }
        } else if lo == hi {
            parts.push(addr_text(fl, *lo));
        } else {
            parts.push(format!("{}-{}", addr_text(fl, *lo), addr_text(fl, *hi)));
        }
    }
    parts
}

fn bitstring_from(v: u128, nbits: u32) -> Vec<u8> {
    // DER: unused bits must be zero
    let v = if nbits == 0 { 0 } else if nbits >= 128 { v } else { v & !((1u128 << (128 - nbits)) - 1) };
    let bytes = v.to_be_bytes();
    let n = nbits.div_ceil(8) as usize;
    let unused = (8 - nbits % 8) % 8;
    der::bitstring(unused as u8, &bytes[..n])
}

/// SEQUENCE OF IPAddressOrRange by the independent encoder (value space).
pub fn ip_der(fl: Flavour, blocks: &[(u128, u128)], force_range: bool) -> Vec<u8> {
    let mut items = Vec::new();
    for (lo, hi) in blocks {
        let (a, b) = if lo <= hi { fl.embed(*lo, *hi) } else {
            // reversed: embed each end on its own
            let (x, _) = fl.embed(*lo, *lo);
            let (_, y) = fl.embed(*hi, *hi);
            (x, y)
        };
        if a <= b && prefix_expressible(a, b) && !force_range {
            let host = if a == 0 && b == u128::MAX { 128 } else { (b - a + 1).trailing_zeros() };
            items.push(bitstring_from(a, 128 - host));
        } else {
            let nmin = if a == 0 { 0 } else { 128 - a.trailing_zeros() };
            let nmax = if b == u128::MAX { 0 } else { 128 - b.trailing_ones() };
            items.push(der::seq(&[&bitstring_from(a, nmin), &bitstring_from(b, nmax)]));
        }
    }
    der::seq_of(&items)
}

fn bits_of(data: &[u8], n: &der::Node) -> Option<(u128, u32)> {
    let c = n.content(data);
    if n.tag != der::T_BITSTRING || c.is_empty() || c.len() > 17 || c[0] > 7 {
        return None;
    }
    let nbits = (c.len() as u32 - 1) * 8 - c[0] as u32;
    let mut v: u128 = 0;
    for b in &c[1..] {
        v = (v << 8) | *b as u128;
    }
    if c.len() > 1 {
        v <<= 128 - 8 * (c.len() as u32 - 1);
    }
    Some((v, nbits))
}

fn ones_below(nbits: u32) -> u128 {
    if nbits == 0 {
        u128::MAX
    } else if nbits >= 128 {
        0
    } else {
        (1u128 << (128 - nbits)) - 1
    }
}

/// Reads SEQUENCE OF IPAddressOrRange into value-space ranges.
fn ip_der_read(data: &[u8]) -> Option<Vec<(u128, u128)>> {
    let root = der::parse(data)?;
    let mut out = Vec::new();
    for c in &root.children {
        if c.tag == der::T_BITSTRING {
            let (v, n) = bits_of(data, c)?;
            out.push((v, v | ones_below(n)));
        } else if c.tag == der::T_SEQUENCE && c.children.len() == 2 {
            let (a, _) = bits_of(data, &c.children[0])?;
            let (b, nb) = bits_of(data, &c.children[1])?;
            out.push((a, b | ones_below(nb)));
        } else {
            return None;
        }
    }
    Some(out)
}

fn is_canonical_input(fl: Flavour, blocks: &[(u128, u128)]) -> bool {
    let v: Obs = blocks.iter().map(|(a, b)| { let (x, y) = fl.embed(*a, *b); (x, y, false) }).collect();
    canonical_defect(&v, false).is_none()
}

pub struct IpCase {
    pub fl: Flavour,
    pub set: IpBlocks,
    pub model: IntervalSet,
    pub blocks: Vec<(u128, u128)>,
}

fn typed_from_str(fl: Flavour, text: &str) -> Result<IpBlocks, String> {
    if fl == Flavour::V4 {
        Ipv4Blocks::from_str(text).map(|b| (*b).clone()).map_err(|e| e.to_string())
    } else {
        Ipv6Blocks::from_str(text).map(|b| (*b).clone()).map_err(|e| e.to_string())
    }
}

//------------ every public entry point that yields address blocks ----------
//
// Tables written from the `pub fn` / trait-impl surface of
// src/repository/resources/{ipres,set}.rs and src/resources/addr.rs. The same
// block list is offered to every entry; single-block decoders and parsers
// are followed by one of the public collectors (FromIterator, builder push,
// builder Extend) because the property speaks about collections.

/// DER decoders, all fed the same `SEQUENCE OF IPAddressOrRange`.
pub const IP_DER_ENTRIES: &[&str] = &[
    "IpBlocks::take_from_with_family",
    "IpBlocks::take_from",
    "IpResources::take_from",
    "IpResources::take_families_from",
    "IpBlock::take_opt_from+collect",
    "IpBlock::take_opt_from_with_family+collect",
    "item:Prefix::take_from|IpBlock::take_opt_from+collect",
    "item:Prefix::parse_content|IpBlock::take_opt_from_with_family+collect",
    "item:Prefix::parse_content_with_family|IpBlock::take_opt_from+collect",
];

/// Text parsers, all fed the same items.
pub const IP_TEXT_ENTRIES: &[&str] = &[
    "Ipv4Blocks|Ipv6Blocks::from_str",
    "IpBlocks::from_str",
    "Ipv4Blocks|Ipv6Blocks::deserialize",
    "ResourceSet::from_strs",
    "ResourceSet::deserialize",
    "item:IpBlock::from_str+collect",
    "item:IpBlock::from_v4_str|from_v6_str+collect",
    "item:AddressRange|Prefix::from_v4_str|from_v6_str+collect",
    "item:AddressRange|Prefix::from_str+collect",
    "item:Ipv4Block|Ipv6Block::from_str+typed-from_iter",
    "item:resources::Prefix::from_str->IpBlock+collect",
];

/// The public ways of turning single blocks into a collection.
fn collect_blocks(v: Vec<IpBlock>, how: u64) -> IpBlocks {
    match how % 3 {
        0 => IpBlocks::from_iter(v),
        1 => {
            let mut b = IpBlocksBuilder::new();
            for x in v {
                b.push(x);
            }
            b.finalize()
        }
        _ => {
            let mut b = IpBlocksBuilder::new();
            let cut = v.len() / 2;
            b.extend(v[..cut].iter().copied());
            b.extend(v[cut..].iter().copied());
            b.finalize()
        }
    }
}

/// Runs DER entry `which` over `data` (a SEQUENCE OF IPAddressOrRange).
pub fn ip_der_entry(which: usize, fl: Flavour, data: &[u8], how: u64) -> Result<IpBlocks, String> {
    let fam = family(fl);
    let es = |e: bcder::decode::DecodeError<std::convert::Infallible>| e.to_string();
    match which {
        0 => Mode::Der.decode(data.into_source(), |cons| IpBlocks::take_from_with_family(cons, fam)).map_err(es),
        1 => Mode::Der.decode(data.into_source(), IpBlocks::take_from).map_err(es),
        2 => Mode::Der
            .decode(data.into_source(), |cons| IpResources::take_from(cons, fam))
            .map_err(es)
            .and_then(|r| r.to_blocks().map_err(|_| "inherit".to_string())),
        3 => {
            // IPAddrBlocks ::= SEQUENCE OF IPAddressFamily { addressFamily OCTET STRING, choice }
            let afi: &[u8] = if fl == Flavour::V4 { &[0, 1] } else { &[0, 2] };
            let full = der::seq(&[&der::seq(&[&der::octets(afi), data])]);
            let (v4, v6) = Mode::Der.decode(full.as_slice().into_source(), IpResources::take_families_from).map_err(es)?;
            let (mine, other) = if fl == Flavour::V4 { (v4, v6) } else { (v6, v4) };
            if other.is_some() {
                return Err("resources for a family that was not encoded".into());
            }
            mine.ok_or_else(|| "family missing".to_string())?.to_blocks().map_err(|_| "inherit".to_string())
        }
        4 | 5 => {
            let v: Vec<IpBlock> = Mode::Der
                .decode(data.into_source(), |cons| {
                    cons.take_sequence(|cons| {
                        let mut v = Vec::new();
                        while let Some(b) = if which == 4 { IpBlock::take_opt_from(cons)? } else { IpBlock::take_opt_from_with_family(cons, fam)? } {
                            v.push(b);
                        }
                        Ok(v)
                    })
                })
                .map_err(es)?;
            Ok(collect_blocks(v, how))
        }
        _ => {
            // every item on its own through the single-value decoders
            let root = der::parse(data).ok_or("harness: unreadable")?;
            let mut v = Vec::new();
            for c in &root.children {
                let item = c.whole(data);
                let b: IpBlock = if c.tag == der::T_BITSTRING {
                    let p = match which {
                        6 => Mode::Der.decode(item.into_source(), Prefix::take_from),
                        7 => Mode::Der.decode(item.into_source(), |cons| cons.take_value(|_, content| Prefix::parse_content(content))),
                        _ => Mode::Der.decode(item.into_source(), |cons| cons.take_value(|_, content| Prefix::parse_content_with_family(content, fam))),
                    };
                    IpBlock::from(p.map_err(es)?)
                } else {
                    let r = if which == 7 {
                        Mode::Der.decode(item.into_source(), |cons| IpBlock::take_opt_from_with_family(cons, fam))
                    } else {
                        Mode::Der.decode(item.into_source(), IpBlock::take_opt_from)
                    };
                    r.map_err(es)?.ok_or("no block")?
                };
                v.push(b);
            }
            Ok(collect_blocks(v, how))
        }
    }
}

fn typed_from_iter(fl: Flavour, items: &[String]) -> Result<IpBlocks, String> {
    use rpki::repository::resources::{Ipv4Block, Ipv6Block};
    if fl == Flavour::V4 {
        let v: Result<Vec<Ipv4Block>, _> = items.iter().map(|s| Ipv4Block::from_str(s)).collect();
        v.map(|v| (*Ipv4Blocks::from_iter(v)).clone()).map_err(|e| e.to_string())
    } else {
        let v: Result<Vec<Ipv6Block>, _> = items.iter().map(|s| Ipv6Block::from_str(s)).collect();
        v.map(|v| (*Ipv6Blocks::from_iter(v)).clone()).map_err(|e| e.to_string())
    }
}

/// Runs text entry `which` over the items (joined with `sep` where the entry takes a list).
pub fn ip_text_entry(which: usize, fl: Flavour, items: &[String], sep: &str, how: u64) -> Result<IpBlocks, String> {
    let v4 = fl == Flavour::V4;
    let joined = items.join(sep);
    let pick = |r: &ResourceSet| if v4 { (**r.ipv4()).clone() } else { (**r.ipv6()).clone() };
    match which {
        0 => typed_from_str(fl, &joined),
        1 => IpBlocks::from_str(&joined).map_err(|e| e.to_string()),
        2 => {
            let js = Value::String(joined).to_string();
            if v4 {
                serde_json::from_str::<Ipv4Blocks>(&js).map(|b| (*b).clone()).map_err(|e| e.to_string())
            } else {
                serde_json::from_str::<Ipv6Blocks>(&js).map(|b| (*b).clone()).map_err(|e| e.to_string())
            }
        }
        3 => {
            let r = if v4 { ResourceSet::from_strs("", &joined, "") } else { ResourceSet::from_strs("", "", &joined) };
            r.map(|r| pick(&r)).map_err(|e| e.to_string())
        }
        4 => {
            // field names and their documented aliases
            let (k4, k6) = if how % 2 == 0 { ("ipv4", "ipv6") } else { ("v4", "v6") };
            let js = if v4 { json!({"asn": "", k4: joined, k6: ""}) } else { json!({"asn": "", k4: "", k6: joined}) };
            serde_json::from_value::<ResourceSet>(js).map(|r| pick(&r)).map_err(|e| e.to_string())
        }
        9 => typed_from_iter(fl, items),
        _ => {
            let mut v = Vec::new();
            for s in items {
                let generic = || IpBlock::from_str(s).map_err(|e| e.to_string());
                let b: IpBlock = match which {
                    5 => generic()?,
                    6 => if v4 { IpBlock::from_v4_str(s) } else { IpBlock::from_v6_str(s) }.map_err(|e| e.to_string())?,
                    7 | 8 => {
                        if s.contains('/') {
                            let p = match (which, v4) {
                                (7, true) => Prefix::from_v4_str(s),
                                (7, false) => Prefix::from_v6_str(s),
                                _ => Prefix::from_str(s),
                            };
                            IpBlock::from(p.map_err(|e| e.to_string())?)
                        } else if s.contains('-') {
                            let r = match (which, v4) {
                                (7, true) => AddressRange::from_v4_str(s),
                                (7, false) => AddressRange::from_v6_str(s),
                                _ => AddressRange::from_str(s),
                            };
                            IpBlock::from(r.map_err(|e| e.to_string())?)
                        } else {
                            generic()?
                        }
                    }
                    _ => {
                        if s.contains('/') {
                            let p = rpki::resources::addr::Prefix::from_str(s).map_err(|e| e.to_string())?;
                            IpBlock::from(p)
                        } else {
                            generic()?
                        }
                    }
                };
                v.push(b);
            }
            Ok(collect_blocks(v, how))
        }
    }
}

/// Judges what an entry point made of a block list: rejected, or canonical
/// and (unless the list held a reversed range, where the statement leaves
/// the denotation open) equal to the model. `must_accept`: the input was a
/// canonical RFC 3779 encoding.
#[allow(clippy::too_many_arguments)]
fn judge_entry(ctx: &mut Ctx, fl: Flavour, entry: &str, r: Result<IpBlocks, String>, model: &IntervalSet, reversed: bool, must_accept: bool, detail: &dyn Fn() -> Value) -> Option<IpBlocks> {
    let name = fl.name();
    match r {
        Ok(s) => {
            ctx.obs(&format!("accepted via {}", entry), 1);
            let obs = observe_ip(&s);
            if reversed {
                ctx.eval();
                ctx.obs("ip_reversed_accepted", 1);
                if let Some(d) = canonical_defect(&obs, true) {
                    ctx.violation(
                        &format!("C03:{}:{}:reversed-range:non-canonical:{}", name, entry, d),
                        "input with an address range whose lower bound is above its upper bound was accepted and the resulting collection is not canonical",
                        json!({"observed": obs_json(&obs), "case": detail()}),
                    );
                    return None;
                }
                Some(s)
            } else if check_set(ctx, fl, entry, &obs, model, detail) {
                Some(s)
            } else {
                None
            }
        }
        Err(e) => {
            ctx.eval();
            ctx.obs(&format!("rejected by {}", entry), 1);
            if must_accept && !e.starts_with("harness:") {
                ctx.violation(
                    &format!("C03:{}:{}:rejects-canonical", name, entry),
                    "a canonical RFC 3779 address block encoding was rejected",
                    json!({"error": e, "case": detail()}),
                );
            } else if reversed {
                ctx.obs("ip_reversed_rejected", 1);
            } else {
                ctx.obs("ip_entry_noncanonical_or_text_rejected", 1);
            }
            None
        }
    }
}

/// A hostile block list in element space: a generated sequence (sorted or
/// not, duplicates, overlaps, adjacency, nesting, bridging) plus blocks at
/// the ends of the number space and, if asked, one reversed range.
pub fn hostile_list(fl: Flavour, rng: &mut Rng, reversed: bool) -> (Vec<(u128, u128)>, String) {
    let seq = sequence(fl, rng, 4);
    let mut blocks = seq.blocks.clone();
    let max = fl.max();
    let mut tags = Vec::new();
    for _ in 0..rng.below(3) {
        let x = fl.endpoint(rng);
        let (b, t) = match rng.below(7) {
            0 => ((x.min(max - 1).max(1), max), "to-max"),
            1 => ((0, x.min(max - 1)), "from-0"),
            2 => ((0, max), "everything"),
            3 => ((max, max), "last"),
            4 => ((0, 0), "first"),
            5 => ((x, x), "zero-length"),
            _ => ((max - 1 - rng.below(3) as u128, max), "top-few"),
        };
        let pos = rng.usize_below(blocks.len() + 1);
        blocks.insert(pos, b);
        tags.push(t);
    }
    if reversed {
        let (a, b) = loop {
            let a = fl.endpoint(rng);
            let b = fl.endpoint(rng);
            if a != b {
                break (a.max(b), a.min(b));
            }
        };
        let pos = rng.usize_below(blocks.len() + 1);
        blocks.insert(pos, (a, b));
        tags.push("reversed");
    }
    tags.sort();
    tags.dedup();
    (blocks, format!("{} +[{}]", seq.shape, tags.join(",")))
}

/// One hostile list through *every* entry point of both tables.
fn ip_entry_sweep(ctx: &mut Ctx, rng: &mut Rng, fl: Flavour) {
    let name = fl.name();
    let reversed = rng.bool();
    let (blocks, shape) = hostile_list(fl, rng, reversed);
    let model = fl.model(&blocks);
    // text
    let items = ip_text_items(fl, &blocks, rng);
    let sep = *rng.pick(&[", ", ",", " , "]);
    for (i, entry) in IP_TEXT_ENTRIES.iter().enumerate() {
        let how = rng.below(6);
        let d = || json!({"flavour": name, "entry": entry, "items": items, "collector": how % 3});
        ctx.sig(&format!("{} entry {} reversed={}", name, entry, reversed));
        if let Some(r) = ctx.no_panic(&format!("{}:{}", name, entry), d, || ip_text_entry(i, fl, &items, sep, how)) {
            // the generic list parser reads an empty text as "no family"; nothing to judge
            judge_entry(ctx, fl, entry, r, &model, reversed, false, &d);
        }
    }
    // DER
    let force_range = rng.chance(1, 4);
    let data = ip_der(fl, &blocks, force_range);
    let canonical = !reversed && !force_range && !blocks.is_empty() && is_canonical_input(fl, &blocks);
    for (i, entry) in IP_DER_ENTRIES.iter().enumerate() {
        let how = rng.below(6);
        let d = || json!({"flavour": name, "entry": entry, "der": hex(&data), "blocks": blocks_json(&blocks), "collector": how % 3});
        ctx.sig(&format!("{} entry {} reversed={} canonical={}", name, entry, reversed, canonical));
        if let Some(r) = ctx.no_panic(&format!("{}:{}", name, entry), d, || ip_der_entry(i, fl, &data, how)) {
            judge_entry(ctx, fl, entry, r, &model, reversed, canonical, &d);
        }
    }
    if ctx.wants_sample(&format!("{}-entry-sweep", name)) {
        ctx.sample(&format!("{}-entry-sweep", name), || json!({"blocks": blocks_json(&blocks), "shape": shape, "text_items": items, "der": hex(&data), "entries": IP_TEXT_ENTRIES.len() + IP_DER_ENTRIES.len()}));
    }
    ctx.drain_chain_hook(|| json!({"flavour": name, "entry-sweep": blocks_json(&blocks)}));
}

pub(crate) fn ip_construct(ctx: &mut Ctx, rng: &mut Rng, fl: Flavour, seq: &Seq) -> Option<IpCase> {
    let model = fl.model(&seq.blocks);
    let blocks = seq.blocks.clone();
    let name = fl.name();
    let how = rng.below(10);
    let detail = |how: &str| json!({"flavour": name, "constructor": how, "blocks": blocks_json(&blocks)});
    let set = match how {
        0..=2 => {
            let mode = how;
            let items: Vec<IpBlock> = blocks.iter().map(|(a, b)| lib_block(fl, *a, *b, mode)).collect();
            let label = ["from_iter", "from_iter-raw-ranges", "from_iter-prefixes"][mode as usize];
            let s = ctx.no_panic(&format!("{}:{}", name, label), || detail(label), || IpBlocks::from_iter(items))?;
            ctx.sig(&format!("{} {} {}", name, label, seq.shape));
            if !check_set(ctx, fl, label, &observe_ip(&s), &model, || detail(label)) { return None; }
            s
        }
        3 => {
            let mut b = IpBlocksBuilder::new();
            if rng.bool() {
                // through the Extend implementation, in two portions
                let items: Vec<IpBlock> = blocks.iter().map(|(lo, hi)| lib_block(fl, *lo, *hi, rng.below(3))).collect();
                let cut = items.len() / 2;
                b.extend(items[..cut].iter().copied());
                b.extend(items[cut..].iter().copied());
            } else {
                for (lo, hi) in &blocks {
                    b.push(lib_block(fl, *lo, *hi, rng.below(3)));
                }
            }
            let s = ctx.no_panic(&format!("{}:builder", name), || detail("builder"), || b.finalize())?;
            ctx.sig(&format!("{} builder {}", name, seq.shape));
            if !check_set(ctx, fl, "builder", &observe_ip(&s), &model, || detail("builder")) { return None; }
            s
        }
        4..=6 => {
            // one of the text entry points (IP_TEXT_ENTRIES)
            let items = ip_text_items(fl, &blocks, rng);
            let sep = *rng.pick(&[", ", ",", " , "]);
            let which = rng.usize_below(IP_TEXT_ENTRIES.len());
            let coll = rng.below(6);
            let entry = IP_TEXT_ENTRIES[which];
            let d = || json!({"flavour": name, "entry": entry, "items": items, "collector": coll % 3});
            let r = ctx.no_panic(&format!("{}:{}", name, entry), d, || ip_text_entry(which, fl, &items, sep, coll))?;
            ctx.sig(&format!("{} {} {}", name, entry, seq.shape));
            judge_entry(ctx, fl, entry, r, &model, false, false, &d)?
        }
        _ => {
            // one of the DER entry points (IP_DER_ENTRIES)
            let force_range = rng.chance(1, 5);
            let data = ip_der(fl, &blocks, force_range);
            let canonical = is_canonical_input(fl, &blocks) && !force_range && !blocks.is_empty();
            let which = rng.usize_below(IP_DER_ENTRIES.len());
            let coll = rng.below(6);
            let entry = IP_DER_ENTRIES[which];
            let d = || json!({"flavour": name, "entry": entry, "der": hex(&data), "blocks": blocks_json(&blocks), "collector": coll % 3});
            let r = ctx.no_panic(&format!("{}:{}", name, entry), d, || ip_der_entry(which, fl, &data, coll))?;
            ctx.sig(&format!("{} {} {}", name, entry, seq.shape));
            judge_entry(ctx, fl, entry, r, &model, false, canonical, &d)?
        }
    };
    ctx.drain_chain_hook(|| json!({"flavour": name, "blocks": blocks_json(&blocks)}));
    Some(IpCase { fl, set, model, blocks })
}

/// Resources built with `IpResourcesBuilder`, spreading the blocks over
/// several `blocks()` calls on the same builder (the result must be the union).
pub fn builder_multi_call(ctx: &mut Ctx, rng: &mut Rng, fl: Flavour) {
    let seq = sequence(fl, rng, 6);
    builder_multi_call_seq(ctx, rng, fl, &seq);
}

pub(crate) fn builder_multi_call_seq(ctx: &mut Ctx, rng: &mut Rng, fl: Flavour, seq: &Seq) {
    use rpki::repository::resources::IpResourcesBuilder;
    let model = fl.model(&seq.blocks);
    let calls = 1 + rng.usize_below(3);
    let mut builder = IpResourcesBuilder::new();
    let chunk = (seq.blocks.len() / calls).max(1);
    let mut used = 0;
    for c in 0..calls {
        let part: Vec<(u128, u128)> = if c + 1 == calls { seq.blocks[used.min(seq.blocks.len())..].to_vec() } else { seq.blocks.iter().skip(used).take(chunk).copied().collect() };
        used += part.len();
        let items: Vec<IpBlock> = part.iter().map(|(a, b)| lib_block(fl, *a, *b, rng.below(3))).collect();
        builder.blocks(|b| {
            for it in items {
                b.push(it)
            }
        });
    }
    let d = || json!({"flavour": fl.name(), "blocks": blocks_json(&seq.blocks), "calls": calls});
    if let Some(res) = ctx.no_panic(&format!("{}:resources-builder", fl.name()), d, || builder.finalize()) {
        ctx.sig(&format!("{} resources-builder calls={} {}", fl.name(), calls, seq.shape));
        let blocks = res.to_blocks().unwrap_or_default();
        check_set(ctx, fl, "resources-builder", &observe_ip(&blocks), &model, d);
    }
    ctx.drain_chain_hook(d);
}

pub fn small_collect(ctx: &mut Ctx, fl: Flavour, blocks: &[(u128, u128)], model: &IntervalSet) {
    let items: Vec<IpBlock> = blocks.iter().map(|(a, b)| lib_block(fl, *a, *b, 1)).collect();
    if let Some(s) = ctx.no_panic("v6:from_iter-raw-ranges", || blocks_json(blocks), || IpBlocks::from_iter(items)) {
        check_set(ctx, fl, "from_iter-raw-ranges", &observe_ip(&s), model, || json!({"constructor": "from_iter", "blocks": blocks_json(blocks)}));
    }
}

pub(crate) fn ip_unary(ctx: &mut Ctx, c: &IpCase) {
    let fl = c.fl;
    let name = fl.name();
    let blocks = &c.blocks;
    let d = || json!({"flavour": name, "blocks": blocks_json(blocks)});
    // typed text + serde round trips
    let text = ctx.no_panic(&format!("{}:display", name), d, || {
        if fl == Flavour::V4 {
            Ipv4Blocks::from(c.set.clone()).to_string()
        } else {
            Ipv6Blocks::from(c.set.clone()).to_string()
        }
    });
    if let Some(text) = text {
        ctx.eval();
        match typed_from_str(fl, &text) {
            Ok(back) => {
                if back != c.set || observe_ip(&back) != observe_ip(&c.set) {
                    ctx.violation(&format!("C03:{}:text-roundtrip:differs", name), "Display output parses back to a different set", json!({"text": text, "blocks": blocks_json(blocks)}));
                }
            }
            Err(e) => ctx.violation(&format!("C03:{}:text-roundtrip:rejected", name), "Display output of a set is rejected by FromStr", json!({"text": text, "error": e})),
        }
        // the same text through the family-generic parser
        if !c.model.is_empty() {
            ctx.eval();
            match IpBlocks::from_str(&text) {
                Ok(back) => {
                    if back != c.set {
                        ctx.violation(&format!("C03:{}:text-roundtrip-generic:differs", name), "Display output parses back (IpBlocks::from_str) to a different set", json!({"text": text}));
                    }
                }
                Err(e) => ctx.violation(&format!("C03:{}:text-roundtrip-generic:rejected", name), "Display output of a set is rejected by IpBlocks::from_str", json!({"text": text, "error": e.to_string()})),
            }
        }
    }
    let js = ctx.no_panic(&format!("{}:serde-ser", name), d, || {
        if fl == Flavour::V4 {
            serde_json::to_string(&Ipv4Blocks::from(c.set.clone()))
        } else {
            serde_json::to_string(&Ipv6Blocks::from(c.set.clone()))
        }
    });
    if let Some(Ok(js)) = js {
        ctx.eval();
        let back: Result<IpBlocks, String> = if fl == Flavour::V4 {
            serde_json::from_str::<Ipv4Blocks>(&js).map(|b| (*b).clone()).map_err(|e| e.to_string())
        } else {
            serde_json::from_str::<Ipv6Blocks>(&js).map(|b| (*b).clone()).map_err(|e| e.to_string())
        };
        match back {
            Ok(back) => {
                if back != c.set {
                    ctx.violation(&format!("C03:{}:serde-roundtrip:differs", name), "serde form parses back to a different set", json!({"json": js}));
                }
            }
            Err(e) => ctx.violation(&format!("C03:{}:serde-roundtrip:rejected", name), "serde form of a set is rejected", json!({"json": js, "error": e})),
        }
    }
    // DER
    if !c.model.is_empty() {
        let res = IpResources::blocks(c.set.clone());
        if let Some(cap) = ctx.no_panic(&format!("{}:encode", name), d, || res.encode_ref().to_captured(Mode::Der)) {
            ctx.eval();
            let bytes = cap.as_slice().to_vec();
            match ip_der_read(&bytes) {
                Some(read) => {
                    let m = IntervalSet::from_ranges(&read);
                    if m != c.model || read.iter().any(|(a, b)| a > b) {
                        ctx.violation(&format!("C03:{}:der-encode:wrong-set", name), "the DER encoding of a set denotes a different set", json!({"der": hex(&bytes), "blocks": blocks_json(blocks)}));
                    }
                    // RFC 3779 canonical encoding: prefixes as BIT STRINGs
                    let obs: Obs = {
                        let root = der::parse(&bytes).unwrap();
                        read.iter().zip(root.children.iter()).map(|((a, b), n)| (*a, *b, n.tag == der::T_SEQUENCE)).collect()
                    };
                    if let Some(defect) = canonical_defect(&obs, true) {
                        ctx.violation(&format!("C03:{}:der-encode:non-canonical:{}", name, defect), "the DER encoding of a set is not canonical", json!({"der": hex(&bytes)}));
                    }
                }
                None => ctx.violation(&format!("C03:{}:der-encode:unreadable", name), "the DER encoding of a set is not a SEQUENCE OF IPAddressOrRange", json!({"der": hex(&bytes)})),
            }
            let fam = family(fl);
            match Mode::Der.decode(bytes.as_slice().into_source(), |cons| IpResources::take_from(cons, fam)) {
                Ok(back) => {
                    if back.to_blocks().unwrap_or_default() != c.set {
                        ctx.violation(&format!("C03:{}:der-roundtrip:differs", name), "decoding the DER encoding of a set gives a different set", json!({"der": hex(&bytes)}));
                    }
                }
                Err(e) => ctx.violation(&format!("C03:{}:der-roundtrip:rejected", name), "the DER encoding of a set is rejected by the decoder", json!({"der": hex(&bytes), "error": e.to_string()})),
            }
        }
    }
    // every other public structural encoder of the collection, its wrappers and its blocks
    if !c.model.is_empty() {
        for (twin, inner) in ip_encoder_twins(ctx, fl, &c.set, blocks) {
            ctx.eval();
            ctx.sig(&format!("{} encoder {}", name, twin));
            let read = inner.as_deref().and_then(|b| ip_der_read(b).map(|r| (b.to_vec(), r)));
            match read {
                Some((bytes, read)) => {
                    let m = IntervalSet::from_ranges(&read);
                    let root = der::parse(&bytes).unwrap();
                    let obs: Obs = read.iter().zip(root.children.iter()).map(|((a, b), n)| (*a, *b, n.tag == der::T_SEQUENCE)).collect();
                    if m != c.model || read.iter().any(|(a, b)| a > b) {
                        ctx.violation(&format!("C03:{}:{}:wrong-set", name, twin), "a structural encoder writes an encoding that denotes a different set", json!({"der": hex(&bytes), "blocks": blocks_json(blocks)}));
                    } else if let Some(defect) = canonical_defect(&obs, true) {
                        ctx.violation(&format!("C03:{}:{}:non-canonical:{}", name, twin, defect), "a structural encoder writes a non-canonical encoding", json!({"der": hex(&bytes), "blocks": blocks_json(blocks)}));
                    }
                }
                None => ctx.violation(&format!("C03:{}:{}:unreadable", name, twin), "a structural encoder does not write a SEQUENCE OF IPAddressOrRange where RFC 3779 puts one", json!({"der": inner.as_deref().map(hex), "blocks": blocks_json(blocks)})),
            }
        }
    }
    ctx.drain_chain_hook(|| json!({"flavour": name, "unary-on": blocks_json(blocks)}));
}

/// The `SEQUENCE OF IPAddressOrRange` found inside what each public
/// structural encoder writes for `set` (None: not where RFC 3779 puts it, or
/// the encoder panicked — that is reported here).
fn ip_encoder_twins(ctx: &mut Ctx, fl: Flavour, set: &IpBlocks, blocks: &[(u128, u128)]) -> Vec<(&'static str, Option<Vec<u8>>)> {
    let name = fl.name();
    let fam = family(fl);
    let res = IpResources::blocks(set.clone());
    let none = IpResources::missing();
    let second = |b: Vec<u8>| der::parse(&b).and_then(|r| r.child(1).map(|n| n.whole(&b).to_vec()));
    // Extension ::= SEQUENCE { extnID, critical, extnValue OCTET STRING { SEQUENCE OF IPAddressFamily } }
    let ext = |b: Vec<u8>| {
        let root = der::parse(&b)?;
        let val = root.children.last()?;
        if val.tag != der::T_OCTETSTRING {
            return None;
        }
        let inner = val.content(&b).to_vec();
        let fams = der::parse(&inner)?;
        if fams.children.len() != 1 {
            return None;
        }
        fams.path(&[0, 1]).map(|n| n.whole(&inner).to_vec())
    };
    let mut out: Vec<(&'static str, Option<Vec<u8>>)> = Vec::new();
    let mut run = |ctx: &mut Ctx, twin: &'static str, f: &dyn Fn() -> Option<Vec<u8>>| {
        let d = || json!({"flavour": name, "encoder": twin, "blocks": blocks_json(blocks)});
        if let Some(r) = ctx.no_panic(&format!("{}:{}", name, twin), d, f) {
            out.push((twin, r));
        }
    };
    run(ctx, "IpBlocks::encode_ref", &|| Some(set.encode_ref().to_captured(Mode::Der).as_slice().to_vec()));
    run(ctx, "IpBlocks::encode", &|| Some(set.clone().encode().to_captured(Mode::Der).as_slice().to_vec()));
    run(ctx, "IpBlocks::encode_family", &|| second(set.encode_family(fam).to_captured(Mode::Der).as_slice().to_vec()));
    run(ctx, "IpResources::encode", &|| Some(res.clone().encode().to_captured(Mode::Der).as_slice().to_vec()));
    run(ctx, "IpResources::encode_family", &|| second(res.encode_family(fam).to_captured(Mode::Der).as_slice().to_vec()));
    run(ctx, "IpResources::encode_extension", &|| {
        let (a, b) = if fl == Flavour::V4 { (&res, &none) } else { (&none, &res) };
        IpResources::encode_extension(Overclaim::Refuse, a, b).and_then(|v| ext(v.to_captured(Mode::Der).as_slice().to_vec()))
    });
    run(ctx, "IpBlock::encode", &|| {
        let items: Vec<Vec<u8>> = set.iter().map(|b| b.encode().to_captured(Mode::Der).as_slice().to_vec()).collect();
        Some(der::seq_of(&items))
    });
    run(ctx, "Prefix|AddressRange::encode", &|| {
        let items: Vec<Vec<u8>> = set
            .iter()
            .map(|b| match b {
                IpBlock::Prefix(p) => p.encode().to_captured(Mode::Der).as_slice().to_vec(),
                IpBlock::Range(r) => r.encode().to_captured(Mode::Der).as_slice().to_vec(),
            })
            .collect();
        Some(der::seq_of(&items))
    });
    out
}

fn relation(a: &IntervalSet, b: &IntervalSet) -> &'static str {
    if a.is_empty() && b.is_empty() {
        "both-empty"
    } else if a.is_empty() || b.is_empty() {
        "one-empty"
    } else if a == b {
        "equal"
    } else if b.is_subset_of(a) {
        "b-in-a"
    } else if a.is_subset_of(b) {
        "a-in-b"
    } else if a.intersection(b).is_empty() {
        if a.union(b).iv.len() < a.iv.len() + b.iv.len() {
            "disjoint-adjacent"
        } else {
            "disjoint"
        }
    } else {
        "overlap"
    }
}

fn size_class(a: &IntervalSet) -> &'static str {
    match a.iv.len() {
        0 => "empty",
        1 => "single",
        _ => "multi",
    }
}

pub(crate) fn ip_pair(ctx: &mut Ctx, rng: &mut Rng, a: &IpCase, b: &IpCase) {
    let fl = a.fl;
    let name = fl.name();
    let rel = relation(&a.model, &b.model);
    if rel != "both-empty" {
        ctx.sig(&format!("{} pair {} {}x{}", name, rel, size_class(&a.model), size_class(&b.model)));
    }
    let d = || json!({"flavour": name, "a": blocks_json(&a.blocks), "b": blocks_json(&b.blocks)});
    if let Some(s) = ctx.no_panic(&format!("{}:union", name), d, || a.set.union(&b.set)) {
        check_set(ctx, fl, "union", &observe_ip(&s), &a.model.union(&b.model), d);
    }
    let inter = a.model.intersection(&b.model);
    if let Some(s) = ctx.no_panic(&format!("{}:intersection", name), d, || a.set.intersection(&b.set)) {
        check_set(ctx, fl, "intersection", &observe_ip(&s), &inter, d);
    }
    if let Some(s) = ctx.no_panic(&format!("{}:intersection_assign", name), d, || { let mut x = a.set.clone(); x.intersection_assign(&b.set); x }) {
        check_set(ctx, fl, "intersection_assign", &observe_ip(&s), &inter, d);
    }
    if let Some(s) = ctx.no_panic(&format!("{}:difference", name), d, || a.set.difference(&b.set)) {
        check_set(ctx, fl, "difference", &observe_ip(&s), &a.model.difference(&b.model), d);
    }
    if let Some(g) = ctx.no_panic(&format!("{}:contains", name), d, || a.set.contains(&b.set)) {
        check_bool(ctx, fl, "contains", g, b.model.is_subset_of(&a.model), d);
    }
    if let Some(g) = ctx.no_panic(&format!("{}:eq", name), d, || a.set == b.set) {
        check_bool(ctx, fl, "eq", g, a.model == b.model, d);
    }
    // block-level questions: b's blocks and a few generated ones against a
    let mut probes: Vec<(u128, u128)> = b.blocks.iter().filter(|(x, y)| x <= y).take(4).copied().collect();
    for (lo, hi) in a.blocks.iter().take(3) {
        if lo <= hi {
            probes.push((*lo, *hi));
            // single elements sitting exactly on the ends of a block
            probes.push((*lo, *lo));
            probes.push((*hi, *hi));
            if *hi < fl.max() {
                probes.push((*lo, hi + 1));
                probes.push((hi + 1, hi + 1));
            }
            if *lo > 0 {
                probes.push((lo - 1, *hi));
                probes.push((lo - 1, lo - 1));
            }
        }
    }
    probes.push(fl.block(rng));
    for (lo, hi) in probes {
        let (x, y) = fl.embed(lo, hi);
        let blk = lib_block(fl, lo, hi, rng.below(3));
        let pd = || json!({"flavour": name, "a": blocks_json(&a.blocks), "block": [x.to_string(), y.to_string()]});
        if let Some(g) = ctx.no_panic(&format!("{}:contains_block", name), pd, || a.set.contains_block(blk)) {
            check_bool(ctx, fl, "contains_block", g, a.model.contains_range(x, y), pd);
        }
        if let Some(g) = ctx.no_panic(&format!("{}:intersects_block", name), pd, || a.set.intersects_block(blk)) {
            check_bool(ctx, fl, "intersects_block", g, a.model.intersects_range(x, y), pd);
        }
        // ROA prefix: the largest aligned prefix starting at lo that fits
        let bits = fl.bits();
        let host = if lo == 0 { bits } else { (lo.trailing_zeros()).min(bits) };
        let host = host.min(rng.below(bits as u64 + 1) as u32);
        let plen = bits - host;
        let (px, _) = fl.embed(lo, lo);
        let span = if host == 0 { 0 } else if host >= 128 { u128::MAX } else { (1u128 << host) - 1 };
        let (_, py) = fl.embed(lo, lo.saturating_add(span).min(fl.max()));
        if lo.checked_add(span).map(|e| e <= fl.max()).unwrap_or(false) {
            let roa = RoaIpAddress::new(Prefix::new(Addr::from_bits(px), plen as u8), None);
            let rd = || json!({"flavour": name, "a": blocks_json(&a.blocks), "prefix": [px.to_string(), plen]});
            if let Some(g) = ctx.no_panic(&format!("{}:contains_roa", name), rd, || a.set.contains_roa(&roa)) {
                check_bool(ctx, fl, "contains_roa", g, a.model.contains_range(px, py), rd);
            }
        }
    }
    // issuance
    let claimed = IpResources::blocks(b.set.clone());
    if let Some(r) = ctx.no_panic(&format!("{}:verify_issued-refuse", name), d, || a.set.verify_issued(&claimed, Overclaim::Refuse)) {
        ctx.eval();
        let covered = b.model.is_subset_of(&a.model);
        match r {
            Ok(s) => {
                if !covered {
                    ctx.violation(&format!("C03:{}:verify_issued-refuse:accepts-overclaim", name), "no-overclaim issuance accepted a claim outside the issuer", d());
                } else {
                    check_set(ctx, fl, "verify_issued-refuse", &observe_ip(&s), &b.model, d);
                }
            }
            Err(_) => {
                if covered {
                    ctx.violation(&format!("C03:{}:verify_issued-refuse:rejects-covered", name), "no-overclaim issuance rejected a claim inside the issuer", d());
                }
            }
        }
    }
    if let Some(r) = ctx.no_panic(&format!("{}:verify_issued-trim", name), d, || a.set.verify_issued(&claimed, Overclaim::Trim)) {
        ctx.eval();
        match r {
            Ok(s) => {
                check_set(ctx, fl, "verify_issued-trim", &observe_ip(&s), &inter, d);
            }
            Err(_) => ctx.violation(&format!("C03:{}:verify_issued-trim:rejects", name), "trimming issuance returned an error", d()),
        }
    }
    if let Some(Ok(s)) = ctx.no_panic(&format!("{}:verify_issued-inherit", name), d, || a.set.verify_issued(&IpResources::inherit(), Overclaim::Refuse)) {
        check_set(ctx, fl, "verify_issued-inherit", &observe_ip(&s), &a.model, d);
    }
    if let Some(Ok(s)) = ctx.no_panic(&format!("{}:verify_issued-missing", name), d, || a.set.verify_issued(&IpResources::missing(), Overclaim::Refuse)) {
        check_set(ctx, fl, "verify_issued-missing", &observe_ip(&s), &IntervalSet::empty(), d);
    }
    let issuer = IpResources::blocks(a.set.clone());
    if let Some(r) = ctx.no_panic(&format!("{}:verify_covered", name), d, || b.set.verify_covered(&issuer)) {
        check_bool(ctx, fl, "verify_covered", r.is_ok(), b.model.is_subset_of(&a.model), d);
    }
    ctx.drain_chain_hook(|| json!({"pair": d()}));
}

/// Range → prefix questions.
fn ranges(ctx: &mut Ctx, rng: &mut Rng, fl: Flavour, n: u64) {
    let name = fl.name();
    for i in 0..n {
        // half of the ranges sit on the ends of the family's address space
        let max = fl.max();
        let (lo, hi) = if i % 2 == 0 {
            fl.block(rng)
        } else {
            let e = fl.endpoint(rng);
            match rng.below(8) {
                0 => (e.min(max - 1).max(1), max),
                1 => (0, e.min(max - 1)),
                2 => (0, max),
                3 => (max, max),
                4 => (0, 0),
                5 => (max - 1 - rng.below(4) as u128, max),
                6 => (1, max),
                _ => (0, max - 1),
            }
        };
        let (x, y) = fl.embed(lo, hi);
        let d = || json!({"flavour": name, "range": [x.to_string(), y.to_string()]});
        let range = AddressRange::new(Addr::from_bits(x), Addr::from_bits(y));
        let expressible = prefix_expressible(x, y);
        ctx.sig(&format!("{} range-to-prefix expressible={} t0={} tmax={}", name, expressible, (lo == 0) as u8, (hi == fl.max()) as u8));
        // into_prefix
        if let Some(r) = ctx.no_panic(&format!("{}:into_prefix", name), d, || range.into_prefix()) {
            ctx.eval();
            match r {
                Ok(p) => {
                    if !expressible || (p.min().to_bits(), p.max().to_bits()) != (x, y) {
                        ctx.violation(&format!("C03:{}:into_prefix:wrong", name), "into_prefix produced a prefix that does not cover exactly the range", d());
                    }
                }
                Err(_) => {
                    if expressible {
                        ctx.violation(&format!("C03:{}:into_prefix:missed", name), "into_prefix failed for a range that is exactly one prefix", d());
                    }
                }
            }
        }
        // canonicalising conversion
        if let Some(b) = ctx.no_panic(&format!("{}:ipblock-from-pair", name), d, || IpBlock::from((Addr::from_bits(x), Addr::from_bits(y)))) {
            ctx.eval();
            let is_range = matches!(b, IpBlock::Range(_));
            if (b.min().to_bits(), b.max().to_bits()) != (x, y) || is_range == expressible {
                ctx.violation(&format!("C03:{}:ipblock-from-pair:wrong", name), "IpBlock::from((min,max)) is not the canonical block for the range", d());
            }
        }
        // decomposition
        let list = ctx.no_panic(&format!("{}:to_prefixes", name), d, || {
            if fl == Flavour::V4 {
                range.to_v4_prefixes().collect::<Vec<_>>()
            } else {
                range.to_v6_prefixes().collect::<Vec<_>>()
            }
        });
        if let Some(list) = list {
            ctx.eval();
            let mut next = Some(x);
            let mut ok = !list.is_empty();
            for p in &list {
                let (pmin, pmax) = (p.min().to_bits(), p.max().to_bits());
                // host bits zero, length within family
                if p.addr_len() as u32 > fl.bits() || !prefix_expressible(pmin, pmax) {
                    ok = false;
                    break;
                }
                if Some(pmin) != next || pmax > y {
                    ok = false;
                    break;
                }
                next = pmax.checked_add(1);
            }
            if ok {
                let end = list.last().map(|p| p.max().to_bits());
                ok = end == Some(y);
            }
            if ok {
                // the unique minimal cover: greedily the largest aligned prefix that still fits
                let mut want = 0usize;
                let mut at = x;
                loop {
                    let align = if at == 0 { 128 } else { at.trailing_zeros() };
                    let room = y - at; // size - 1 of what is left
                    let fit = if room == u128::MAX { 128 } else { 127 - (room + 1).leading_zeros() };
                    let k = align.min(fit);
                    want += 1;
                    let last = if k == 128 { u128::MAX } else { at + ((1u128 << k) - 1) };
                    if last == y {
                        break;
                    }
                    at = last + 1;
                }
                if list.len() != want {
                    // an exact cover that is longer than necessary still denotes the same set
                    ctx.obs("to_prefixes_exact_but_not_minimal", 1);
                }
            }
            if !ok {
                ctx.violation(
                    &format!("C03:{}:to_prefixes:wrong-cover", name),
                    "range-to-prefix decomposition is not an ordered, disjoint, exact cover of the range",
                    json!({"flavour": name, "range": [x.to_string(), y.to_string()], "prefixes": list.iter().map(|p| format!("{}/{}", p.addr().to_bits(), p.addr_len())).collect::<Vec<_>>()}),
                );
            }
        }
    }
}

pub(crate) fn as_from_model(m: &IntervalSet) -> AsBlocks {
    AsBlocks::from_iter(m.iv.iter().map(|(a, b)| AsBlock::from((Asn::from_u32(*a as u32), Asn::from_u32(*b as u32)))))
}

pub(crate) fn json_set(v: &Value) -> Option<(IntervalSet, IntervalSet, IntervalSet)> {
    let a = AsBlocks::from_str(v.get("asn")?.as_str()?).ok()?;
    let v4 = Ipv4Blocks::from_str(v.get("ipv4")?.as_str()?).ok()?;
    let v6 = Ipv6Blocks::from_str(v.get("ipv6")?.as_str()?).ok()?;
    let m = |o: Obs| IntervalSet::from_ranges(&o.iter().map(|(a, b, _)| (*a, *b)).collect::<Vec<_>>());
    Some((m(crate::c03::observe_as(&a)), m(observe_ip(&v4)), m(observe_ip(&v6))))
}

/// ResourceSet algebra and RequestResourceLimit::apply_to on triples.
fn composite(ctx: &mut Ctx, rng: &mut Rng, v4s: &[IpCase], v6s: &[IpCase]) {
    if v4s.len() < 2 || v6s.len() < 2 {
        return;
    }
    let fl_as = Flavour::As;
    let mk = |rng: &mut Rng| {
        let asq = sequence(fl_as, rng, 5);
        let am = fl_as.model(&asq.blocks);
        let v4 = &v4s[rng.usize_below(v4s.len())];
        let v6 = &v6s[rng.usize_below(v6s.len())];
        // every combination of empty / non-empty parts must be common
        let (am, a_set) = if rng.chance(1, 4) { (IntervalSet::default(), as_from_model(&IntervalSet::default())) } else { let s = as_from_model(&am); (am, s) };
        let (m4, s4) = if rng.chance(1, 4) { (IntervalSet::default(), IpBlocks::empty()) } else { (v4.model.clone(), v4.set.clone()) };
        let (m6, s6) = if rng.chance(1, 4) { (IntervalSet::default(), IpBlocks::empty()) } else { (v6.model.clone(), v6.set.clone()) };
        let set = match rng.below(3) {
            0 => ResourceSet::new(a_set, Ipv4Blocks::from(s4), Ipv6Blocks::from(s6)),
            1 => {
                // the setters, starting from the other constructors
                let mut r = if rng.bool() { ResourceSet::empty() } else { ResourceSet::all() };
                let mut order = [0u8, 1, 2];
                rng.shuffle(&mut order);
                for o in order {
                    match o {
                        0 => r.set_asn(a_set.clone()),
                        1 => r.set_ipv4(Ipv4Blocks::from(s4.clone())),
                        _ => r.set_ipv6(Ipv6Blocks::from(s6.clone())),
                    }
                }
                r
            }
            _ => {
                let mut r = ResourceSet::default();
                r.set_ipv6(Ipv6Blocks::from(s6));
                r.set_asn(a_set);
                r.set_ipv4(Ipv4Blocks::from(s4));
                r
            }
        };
        (set, am, m4, m6)
    };
    let (r1, a1, f1, s1) = mk(rng);
    let (r2, a2, f2, s2) = mk(rng);
    let d = || json!({"r1": r1.to_string(), "r2": r2.to_string()});
    let comp = |ctx: &mut Ctx, op: &str, r: &ResourceSet, ma: &IntervalSet, m4: &IntervalSet, m6: &IntervalSet| {
        check_set(ctx, Flavour::As, &format!("resourceset-{}", op), &crate::c03::observe_as(r.asn()), ma, || json!({"op": op, "r1": r1.to_string(), "r2": r2.to_string()}));
        check_set(ctx, Flavour::V4, &format!("resourceset-{}", op), &observe_ip(r.ipv4()), m4, || json!({"op": op, "r1": r1.to_string(), "r2": r2.to_string()}));
        check_set(ctx, Flavour::V6, &format!("resourceset-{}", op), &observe_ip(r.ipv6()), m6, || json!({"op": op, "r1": r1.to_string(), "r2": r2.to_string()}));
    };
    ctx.sig(&format!("resourceset ops as:{} v4:{} v6:{}", relation(&a1, &a2), relation(&f1, &f2), relation(&s1, &s2)));
    // every view of the three parts says the same as the parts that were put in
    for (r, ma, m4, m6) in [(&r1, &a1, &f1, &s1), (&r2, &a2, &f2, &s2)] {
        let dd = || json!({"set": r.to_string(), "asn": blocks_json(&ma.iv), "ipv4": blocks_json(&m4.iv), "ipv6": blocks_json(&m6.iv)});
        ctx.sig(&format!("resourceset views empty-parts as:{} v4:{} v6:{}", ma.iv.is_empty(), m4.iv.is_empty(), m6.iv.is_empty()));
        comp(ctx, "parts", r, ma, m4, m6);
        if let Some(g) = ctx.no_panic("resourceset:is_empty", dd, || r.is_empty()) {
            check_bool(ctx, Flavour::As, "resourceset-is_empty", g, ma.iv.is_empty() && m4.iv.is_empty() && m6.iv.is_empty(), dd);
        }
        // the `_opt` views: None exactly for an empty part, otherwise that part
        if let Some(o) = ctx.no_panic("resourceset:asn_opt", dd, || r.asn_opt().cloned()) {
            check_bool(ctx, Flavour::As, "resourceset-asn_opt-none-iff-empty", o.is_none(), ma.iv.is_empty(), dd);
            if let Some(b) = o {
                check_set(ctx, Flavour::As, "resourceset-asn_opt", &crate::c03::observe_as(&b), ma, dd);
            }
        }
        if let Some(o) = ctx.no_panic("resourceset:ipv4_opt", dd, || r.ipv4_opt().cloned()) {
            check_bool(ctx, Flavour::V4, "resourceset-ipv4_opt-none-iff-empty", o.is_none(), m4.iv.is_empty(), dd);
            if let Some(b) = o {
                check_set(ctx, Flavour::V4, "resourceset-ipv4_opt", &observe_ip(&b), m4, dd);
            }
        }
        if let Some(o) = ctx.no_panic("resourceset:ipv6_opt", dd, || r.ipv6_opt().cloned()) {
            check_bool(ctx, Flavour::V6, "resourceset-ipv6_opt-none-iff-empty", o.is_none(), m6.iv.is_empty(), dd);
            if let Some(b) = o {
                check_set(ctx, Flavour::V6, "resourceset-ipv6_opt", &observe_ip(&b), m6, dd);
            }
        }
        // the certificate-extension views
        if let Some(x) = ctx.no_panic("resourceset:to_as_resources", dd, || r.to_as_resources()) {
            match x.to_blocks() {
                Ok(b) => {
                    check_set(ctx, Flavour::As, "resourceset-to_as_resources", &crate::c03::observe_as(&b), ma, dd);
                }
                Err(_) => check_bool(ctx, Flavour::As, "resourceset-to_as_resources-not-inherit", false, true, dd),
            }
        }
        if let Some(x) = ctx.no_panic("resourceset:to_ip_resources_v4", dd, || r.to_ip_resources_v4()) {
            match x.to_blocks() {
                Ok(b) => {
                    check_set(ctx, Flavour::V4, "resourceset-to_ip_resources_v4", &observe_ip(&b), m4, dd);
                }
                Err(_) => check_bool(ctx, Flavour::V4, "resourceset-to_ip_resources_v4-not-inherit", false, true, dd),
            }
        }
        if let Some(x) = ctx.no_panic("resourceset:to_ip_resources_v6", dd, || r.to_ip_resources_v6()) {
            match x.to_blocks() {
                Ok(b) => {
                    check_set(ctx, Flavour::V6, "resourceset-to_ip_resources_v6", &observe_ip(&b), m6, dd);
                }
                Err(_) => check_bool(ctx, Flavour::V6, "resourceset-to_ip_resources_v6-not-inherit", false, true, dd),
            }
        }
    }
    if let Some(u) = ctx.no_panic("resourceset:union", d, || r1.union(&r2)) {
        comp(ctx, "union", &u, &a1.union(&a2), &f1.union(&f2), &s1.union(&s2));
    }
    if let Some(u) = ctx.no_panic("resourceset:intersection", d, || r1.intersection(&r2)) {
        comp(ctx, "intersection", &u, &a1.intersection(&a2), &f1.intersection(&f2), &s1.intersection(&s2));
    }
    if let Some(g) = ctx.no_panic("resourceset:contains", d, || r1.contains(&r2)) {
        check_bool(ctx, Flavour::As, "resourceset-contains", g, a2.is_subset_of(&a1) && f2.is_subset_of(&f1) && s2.is_subset_of(&s1), d);
    }
    if let Some(g) = ctx.no_panic("resourceset:eq", d, || r1 == r2) {
        check_bool(ctx, Flavour::As, "resourceset-eq", g, a1 == a2 && f1 == f2 && s1 == s2, d);
    }
    for p in [0u128, 1, u32::MAX as u128, a1.iv.first().map(|x| x.0).unwrap_or(7), a1.iv.last().map(|x| x.1.wrapping_add(1) & 0xFFFF_FFFF).unwrap_or(9)] {
        if let Some(g) = ctx.no_panic("resourceset:contains_asn", d, || r1.contains_asn(Asn::from_u32(p as u32))) {
            check_bool(ctx, Flavour::As, "resourceset-contains_asn", g, a1.contains(p), || json!({"r1": r1.to_string(), "asn": p.to_string()}));
        }
    }
    if let Some(diff) = ctx.no_panic("resourceset:difference", d, || r1.difference(&r2)) {
        ctx.eval();
        let same = a1 == a2 && f1 == f2 && s1 == s2;
        if diff.is_empty() != same {
            ctx.violation("C03:set:resourceset-difference:is_empty-wrong", "ResourceDiff::is_empty disagrees with set equality", d());
        }
        if let Ok(v) = serde_json::to_value(&diff) {
            let added = v.get("added").and_then(json_set);
            let removed = v.get("removed").and_then(json_set);
            match (added, removed) {
                (Some(ad), Some(rm)) => {
                    let want_ad = (a1.difference(&a2), f1.difference(&f2), s1.difference(&s2));
                    let want_rm = (a2.difference(&a1), f2.difference(&f1), s2.difference(&s1));
                    if ad != want_ad || rm != want_rm {
                        ctx.violation("C03:set:resourceset-difference:wrong-set", "ResourceSet::difference differs from the mathematical differences", json!({"r1": r1.to_string(), "r2": r2.to_string(), "diff": v}));
                    }
                }
                _ => {
                    // could not read the serde form back (e.g. the text round-trip defect); recorded elsewhere
                    ctx.obs("resourcediff_unreadable", 1);
                }
            }
        }
    }
    // conversion chains of the combined set: serde, text triple, clone
    {
        ctx.eval();
        match serde_json::to_string(&r1).ok().and_then(|js| serde_json::from_str::<ResourceSet>(&js).ok().map(|b| (js, b))) {
            Some((js, back)) => {
                if back != r1 {
                    ctx.violation("C03:set:resourceset-serde-roundtrip:differs", "ResourceSet does not survive its serde form", json!({"json": js}));
                }
            }
            None => ctx.violation("C03:set:resourceset-serde-roundtrip:rejected", "the serde form of a ResourceSet is rejected", json!({"set": r1.to_string()})),
        }
        ctx.eval();
        match ResourceSet::from_strs(&r1.asn().to_string(), &r1.ipv4().to_string(), &r1.ipv6().to_string()) {
            Ok(back) => {
                if back != r1 {
                    ctx.violation("C03:set:resourceset-text-roundtrip:differs", "ResourceSet::from_strs of the three Display forms gives a different set", json!({"set": r1.to_string()}));
                }
            }
            Err(e) => ctx.violation("C03:set:resourceset-text-roundtrip:rejected", "ResourceSet::from_strs rejects the Display forms of a set", json!({"set": r1.to_string(), "error": e.to_string()})),
        }
        let c = r1.clone();
        check_bool(ctx, Flavour::As, "resourceset-clone-eq", c == r1 && r1 == c, true, d);
        // AsResources / IpResources wrappers: Display/FromStr and serde
        let ar = r1.to_as_resources();
        ctx.eval();
        let text = ar.to_string();
        match rpki::repository::resources::AsResources::from_str(&text) {
            Ok(back) if back == ar => {}
            other => ctx.violation("C03:as:asresources-text-roundtrip", "AsResources Display does not parse back to an equal value", json!({"text": text, "error": other.err().map(|e| e.to_string())})),
        }
        ctx.eval();
        match serde_json::to_string(&ar).ok().and_then(|js| serde_json::from_str::<rpki::repository::resources::AsResources>(&js).ok()) {
            Some(back) if back == ar => {}
            _ => ctx.violation("C03:as:asresources-serde-roundtrip", "AsResources does not survive its serde form", json!({"set": r1.to_string()})),
        }
        ctx.sig("resourceset conversion chains (serde, from_strs, clone, AsResources/IpResources)");
    }
    // RequestResourceLimit
    let mut limit = RequestResourceLimit::new();
    let mut want: Option<(IntervalSet, IntervalSet, IntervalSet)> = Some((a1.clone(), f1.clone(), s1.clone()));
    let pick = rng.below(8);
    if pick & 1 != 0 {
        let l = if rng.bool() { a1.intersection(&a2) } else { a2.clone() };
        limit.with_asn(as_from_model(&l));
        if l.is_subset_of(&a1) { if let Some(w) = want.as_mut() { w.0 = l; } } else { want = None; }
    }
    if pick & 2 != 0 {
        let (l, set) = if rng.bool() { (f1.intersection(&f2), r1.ipv4().intersection(r2.ipv4())) } else { (f2.clone(), (**r2.ipv4()).clone()) };
        limit.with_ipv4(Ipv4Blocks::from(set));
        if l.is_subset_of(&f1) { if let Some(w) = want.as_mut() { w.1 = l; } } else { want = None; }
    }
    if pick & 4 != 0 {
        let (l, set) = if rng.bool() { (s1.intersection(&s2), r1.ipv6().intersection(r2.ipv6())) } else { (s2.clone(), (**r2.ipv6()).clone()) };
        limit.with_ipv6(Ipv6Blocks::from(set));
        if l.is_subset_of(&s1) { if let Some(w) = want.as_mut() { w.2 = l; } } else { want = None; }
    }
    ctx.sig(&format!("limit apply_to mask={} fits={}", pick, want.is_some()));
    let ld = || json!({"set": r1.to_string(), "limit": limit.to_string()});
    if let Some(r) = ctx.no_panic("limit:apply_to", ld, || limit.apply_to(&r1)) {
        ctx.eval();
        match (r, want) {
            (Ok(res), Some((wa, w4, w6))) => comp(ctx, "limit-apply_to", &res, &wa, &w4, &w6),
            (Err(_), None) => {}
            (Ok(_), None) => ctx.violation("C03:set:limit-apply_to:accepts-exceeding", "a resource limit exceeding the set was applied", ld()),
            (Err(_), Some(_)) => ctx.violation("C03:set:limit-apply_to:rejects-fitting", "a resource limit inside the set was rejected", ld()),
        }
    }
    ctx.drain_chain_hook(|| json!({"composite": d()}));
}

pub fn run_ip(ctx: &mut Ctx) {
    let batches = ctx.stage_budget((8_000, 750_000), 1_200, 2, 0);
    let batch = if ctx.stage == Stage::Miri { 2 } else { 10 };
    let mut rng = ctx.rng("ip");
    for _ in 0..batches {
        let mut per_fl: Vec<Vec<IpCase>> = Vec::new();
        for fl in [Flavour::V4, Flavour::V6] {
            let mut cases = Vec::new();
            for _ in 0..batch {
                let seq = sequence(fl, &mut rng, 8);
                if let Some(c) = ip_construct(ctx, &mut rng, fl, &seq) {
                    if ctx.wants_sample(&format!("{}-set", fl.name())) {
                        let obs = observe_ip(&c.set);
                        ctx.sample(&format!("{}-set", fl.name()), || json!({"input_blocks": blocks_json(&seq.blocks), "shape": seq.shape, "observed": obs_json(&obs)}));
                    }
                    cases.push(c);
                }
            }
            for c in &cases {
                ip_unary(ctx, c);
            }
            for a in &cases {
                for b in &cases {
                    ip_pair(ctx, &mut rng, a, b);
                }
            }
            ip_entry_sweep(ctx, &mut rng, fl);
            builder_multi_call(ctx, &mut rng, fl);
            ranges(ctx, &mut rng, fl, if ctx.stage == Stage::Miri { 3 } else { 12 });
            per_fl.push(cases);
        }
        for _ in 0..4 {
            composite(ctx, &mut rng, &per_fl[0], &per_fl[1]);
        }
    }
    check_set(ctx, Flavour::V6, "all", &observe_ip(&IpBlocks::all()), &IntervalSet::from_ranges(&[(0, u128::MAX)]), || json!("IpBlocks::all()"));
    check_set(ctx, Flavour::V6, "empty", &observe_ip(&IpBlocks::empty()), &IntervalSet::empty(), || json!("IpBlocks::empty()"));
}
