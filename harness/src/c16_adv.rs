//! C16 helper: the real server over a source whose serial number advances
//! while a connection is open.
//!
//! `c16_wire.rs` runs the server over a source that never changes. A cache
//! does change: it goes from serial s to s + n (`State::inc`, n = 1, or a
//! jump), tells its connections and is then asked for the difference. RFC
//! 1982 says that for every n in 1..2^31-1 the new serial is strictly
//! greater than the old one wherever the pair sits in the number space, so
//! whatever the server derives from the two numbers - whether a router has
//! to be told, whether a router "is ahead", which of two states is the newer
//! one - must come out the same at 0xFFFFFFFF -> 0 as at 5 -> 6.
//!
//! Environment model (all mine): `AdvSource`, a `PayloadSource` that keeps
//! the list of serial numbers it has been at on its session, one announced
//! origin per step, and a number of oldest states it has "forgotten". It
//! offers a diff for a state iff the (session, serial) it is asked for is one
//! it remembers (looked up by plain equality of the numbers - the source does
//! not order serial numbers at all), and logs every call.
//!
//! One case = one connection on the real `Server::run` over the scripted
//! socket of `c08_io`:
//!
//! 1. the router synchronises: Reset Query, a Serial Query for the source's
//!    current state, or a Serial Query from an older state the source
//!    remembers; the End of Data must carry the source's serial.
//! 2. for every step of the plan the source advances by n (same session),
//!    `NotifySender::notify()` is fired while the connection sits idle
//!    (settled), and the driver settles again. Then, depending on the plan,
//!    the router sends a Serial Query with the serial it holds (the one of the
//!    last End of Data it got).
//!
//! Oracles.
//!
//! * Serial Notify. A control run per protocol version (source at 0x1000,
//!   advance by one, nowhere near any edge) establishes that this server
//!   answers a notification at an idle, synchronised connection whose source
//!   has advanced with a Serial Notify (that this must be so is C08's
//!   subject). With the control positive, every step whose new serial is
//!   1..2^31-1 ahead both of the serial last sent in an End of Data and of the
//!   serial last announced on the connection must produce a Serial Notify as
//!   well (more than one is recorded only): the statement says the new serial is strictly greater in
//!   all these cases just as in the control, so no serial arithmetic can tell
//!   them apart. A step by 0 (notification without news) and steps that leave
//!   the router 2^31 or more behind are recorded only. At distance exactly
//!   2^31 (undefined order) the only demand is that the outcome is the same
//!   for a pair and for the pair shifted by 2^31 (depends on the difference
//!   only).
//! * Every Serial Notify that is sent carries the source's session and current
//!   serial, big-endian, in 12 octets.
//! * A Serial Query with the serial the router holds is answered as the
//!   source offers for exactly that (session, serial): Cache Response, one
//!   IPv4 Prefix per step since, End of Data with the new serial; or Cache
//!   Reset if the source has forgotten that state. The source's call log must
//!   show that `diff` was asked for exactly the state sent.
//! * Every state `Socket::update` is told is one that went into an End of Data
//!   on this connection (when and how often it is told is recorded only).
//!
//! Runs that do not settle are not judged (C08 watches liveness).
//!
//! This file is included from `c16.rs` with `#[path]`.

use super::wire::{be32_at, describe_output, origin, serial_class, split_output};
use crate::c07_io::Pdu as WirePdu;
use crate::c08::io::{new_runtime, settle_all, ScriptedSocket, ServerEnd};
use crate::core::{panic_location, Ctx, Rng, Stage, Tier};
use rpki::rtr::payload::{Action, Payload, PayloadRef, Timing};
use rpki::rtr::server::{NotifySender, PayloadDiff, PayloadSet, PayloadSource, Server, Socket};
use rpki::rtr::state::{Serial, State};
use serde_json::{json, Value};
use std::io;
use std::pin::Pin;
use std::sync::{Arc, Mutex};
use std::task::{Context, Poll};
use tokio::io::{AsyncRead, AsyncWrite, ReadBuf};

const HALF: u32 = 0x8000_0000;

//------------ the source -----------------------------------------------------------------

struct AdvData {
    session: u16,
    /// Every serial the source has been at on this session, oldest first.
    serials: Vec<u32>,
    /// Data set at `serials[0]`.
    initial: Vec<Payload>,
    /// `added[i]` was announced by the step `serials[i]` -> `serials[i + 1]`.
    added: Vec<Payload>,
    /// The source has no diff from `serials[..forgotten]`.
    forgotten: usize,
    timing: Timing,
    /// (session, serial) of every `diff` call and whether a diff was offered.
    diff_calls: Vec<(u16, u32, bool)>,
    full_calls: u32,
    notify_calls: u32,
}

impl AdvData {
    fn current(&self) -> u32 {
        *self.serials.last().expect("at least one serial")
    }
}

#[derive(Clone)]
struct AdvSource(Arc<Mutex<AdvData>>);

impl AdvSource {
    fn new(session: u16, serial: u32) -> Self {
        AdvSource(Arc::new(Mutex::new(AdvData {
            session,
            serials: vec![serial],
            initial: vec![origin(200, 64500), origin(201, 64501)],
            added: Vec::new(),
            forgotten: 0,
            timing: Timing { refresh: 300, retry: 60, expire: 900 },
            diff_calls: Vec::new(),
            full_calls: 0,
            notify_calls: 0,
        })))
    }

    fn with<T>(&self, f: impl FnOnce(&mut AdvData) -> T) -> T {
        let mut g = self.0.lock().unwrap_or_else(|e| e.into_inner());
        f(&mut g)
    }

    /// The cache publishes: serial + n (mod 2^32), one new origin.
    fn advance(&self, n: u32) -> u32 {
        self.with(|d| {
            let next = d.current().wrapping_add(n);
            if n != 0 {
                let k = d.added.len() as u8;
                d.added.push(origin(10 + k, 64600 + k as u32));
                d.serials.push(next);
            }
            next
        })
    }
}

struct SetIter {
    items: Vec<Payload>,
    pos: usize,
}

impl PayloadSet for SetIter {
    fn next(&mut self) -> Option<PayloadRef<'_>> {
        let item = self.items.get(self.pos)?;
        self.pos += 1;
        Some(item.as_ref())
    }
}

impl PayloadDiff for SetIter {
    fn next(&mut self) -> Option<(PayloadRef<'_>, Action)> {
        let item = self.items.get(self.pos)?;
        self.pos += 1;
        Some((item.as_ref(), Action::Announce))
    }
}

impl PayloadSource for AdvSource {
    type Set = SetIter;
    type Diff = SetIter;

    fn ready(&self) -> bool {
        true
    }

    fn notify(&self) -> State {
        self.with(|d| {
            d.notify_calls += 1;
            State::from_parts(d.session, Serial::from(d.current()))
        })
    }

    fn full(&self) -> (State, SetIter) {
        self.with(|d| {
            d.full_calls += 1;
            let items: Vec<Payload> = d.initial.iter().chain(d.added.iter()).cloned().collect();
            (State::from_parts(d.session, Serial::from(d.current())), SetIter { items, pos: 0 })
        })
    }

    fn diff(&self, state: State) -> Option<(State, SetIter)> {
        self.with(|d| {
            let asked: u32 = state.serial().into();
            // plain equality of the numbers: the source has been there or it has not
            let idx = if state.session() == d.session { d.serials.iter().rposition(|s| *s == asked) } else { None };
            let offer = match idx {
                Some(i) if i >= d.forgotten => Some(i),
                _ => None,
            };
            d.diff_calls.push((state.session(), asked, offer.is_some()));
            offer.map(|i| (State::from_parts(d.session, Serial::from(d.current())), SetIter { items: d.added[i..].to_vec(), pos: 0 }))
        })
    }

    fn timing(&self) -> Timing {
        self.with(|d| d.timing)
    }
}

//------------ the socket: the scripted one, plus a record of `update` ----------------------

struct AdvSock {
    inner: ServerEnd,
    updates: Arc<Mutex<Vec<(u16, u32, bool)>>>,
}

impl AsyncRead for AdvSock {
    fn poll_read(self: Pin<&mut Self>, cx: &mut Context<'_>, buf: &mut ReadBuf<'_>) -> Poll<io::Result<()>> {
        Pin::new(&mut self.get_mut().inner).poll_read(cx, buf)
    }
}

impl AsyncWrite for AdvSock {
    fn poll_write(self: Pin<&mut Self>, cx: &mut Context<'_>, data: &[u8]) -> Poll<io::Result<usize>> {
        Pin::new(&mut self.get_mut().inner).poll_write(cx, data)
    }
    fn poll_flush(self: Pin<&mut Self>, cx: &mut Context<'_>) -> Poll<io::Result<()>> {
        Pin::new(&mut self.get_mut().inner).poll_flush(cx)
    }
    fn poll_shutdown(self: Pin<&mut Self>, cx: &mut Context<'_>) -> Poll<io::Result<()>> {
        Pin::new(&mut self.get_mut().inner).poll_shutdown(cx)
    }
}

impl Socket for AdvSock {
    fn update(&self, state: State, reset: bool) {
        self.updates.lock().unwrap_or_else(|e| e.into_inner()).push((state.session(), state.serial().into(), reset));
    }
}

//------------ plans -------------------------------------------------------------------------

#[derive(Clone, Copy, Debug, PartialEq, Eq)]
enum Start {
    /// Reset Query.
    Reset,
    /// Serial Query for the state the source is at.
    SerialCurrent,
    /// The source has moved once before the router connects; Serial Query from the older state.
    SerialOlder,
}

impl Start {
    fn name(self) -> &'static str {
        match self {
            Start::Reset => "reset-query",
            Start::SerialCurrent => "serial-query-current",
            Start::SerialOlder => "serial-query-older",
        }
    }
}

#[derive(Clone, Copy, Debug, PartialEq, Eq)]
enum Queries {
    /// The router asks after every notification.
    AfterEach,
    /// The router lets the notifications pass and asks once at the end.
    AtEnd,
    /// The router never asks again.
    Never,
    /// After every second step.
    Alternate,
}

impl Queries {
    fn name(self) -> &'static str {
        match self {
            Queries::AfterEach => "after-each",
            Queries::AtEnd => "at-end",
            Queries::Never => "never",
            Queries::Alternate => "alternate",
        }
    }
    fn after(self, step: usize, of: usize) -> bool {
        match self {
            Queries::AfterEach => true,
            Queries::AtEnd => step + 1 == of,
            Queries::Never => false,
            Queries::Alternate => step % 2 == 1,
        }
    }
}

#[derive(Clone, Debug)]
struct Plan {
    version: u8,
    session: u16,
    base: u32,
    start: Start,
    steps: Vec<u32>,
    queries: Queries,
    /// The source forgets every state but its current one before each query (it then offers Cache Reset).
    forgets: bool,
}

/// What a step of a plan looks like to code that compares the numbers as plain integers.
fn relation(from: u32, to: u32) -> &'static str {
    let d = to.wrapping_sub(from);
    if d == 0 {
        "same-serial"
    } else if d == HALF {
        "distance-2^31"
    } else if d > HALF {
        "new-serial-2^31-or-more-ahead"
    } else if to < from {
        "across-the-wrap"
    } else if (from as i32) >= 0 && (to as i32) < 0 {
        "across-2^31"
    } else {
        "plain"
    }
}

fn step_class(n: u32) -> &'static str {
    match n {
        0 => "0",
        1 => "1",
        0x7FFF_FFFF => "2^31-1",
        HALF => "2^31",
        n if n < 0x1_0000 => "small",
        n if n < HALF => "large",
        _ => "above-2^31",
    }
}

fn steps_text(steps: &[u32]) -> String {
    steps.iter().map(|n| step_class(*n)).collect::<Vec<_>>().join(",")
}

//------------ one connection -----------------------------------------------------------------

#[derive(Default)]
struct Stats {
    runs: u64,
    inconclusive: u64,
    notifies_fired: u64,
    notifies_demanded: u64,
    notify_pdus_checked: u64,
    notify_by_relation: std::collections::BTreeMap<&'static str, (u64, u64)>,
    other_output_after_notification: u64,
    several_notifies_for_one_notification: u64,
    update_calls_other_than_one_per_end_of_data: u64,
    queries_answered_with_diff: u64,
    queries_answered_with_cache_reset: u64,
    resets_after_cache_reset: u64,
    sync_by_start: [u64; 3],
    updates_compared: u64,
    diff_calls_compared: u64,
    half_pairs: u64,
    half_emitted: u64,
}

struct Finding {
    what: String,
    msg: String,
}

struct RunResult {
    findings: Vec<Finding>,
    /// Per step: (relation to the serial last sent in End of Data, Serial Notify seen).
    emitted: Vec<bool>,
    transcript: Vec<Value>,
    inconclusive: bool,
    panic: Option<String>,
}

/// Runs one plan. `demand_notify` is false while the control has not shown
/// that this server sends Serial Notify PDUs at all.
fn run_plan(rt: &tokio::runtime::Runtime, plan: &Plan, demand_notify: bool, stats: &mut Stats) -> RunResult {
    crate::core::take_last_panic();
    let sock = ScriptedSocket::new(None);
    let updates: Arc<Mutex<Vec<(u16, u32, bool)>>> = Arc::new(Mutex::new(Vec::new()));
    let (first_serial, pre) = match plan.start {
        // the source was at base - 3 and has moved to base before the router connects
        Start::SerialOlder => (plan.base.wrapping_sub(3), Some(3u32)),
        _ => (plan.base, None),
    };
    let source = AdvSource::new(plan.session, first_serial);
    if let Some(n) = pre {
        source.advance(n);
    }
    let mut findings: Vec<Finding> = Vec::new();
    let mut emitted: Vec<bool> = Vec::new();
    let mut transcript: Vec<Value> = Vec::new();
    let mut inconclusive = false;
    let mut not_judged = false;
    let v = plan.version;
    let eod_len = if v == 0 { 12 } else { 24 };
    rt.block_on(async {
        let mut sender = NotifySender::new();
        let server_sock = AdvSock { inner: sock.server_end(), updates: updates.clone() };
        let listener = futures_util::stream::iter(vec![Ok::<AdvSock, io::Error>(server_sock)]);
        let server = Server::new(listener, sender.clone(), source.clone());
        let handle = tokio::spawn(server.run());
        let socks = [sock.clone()];
        let mut mark = 0usize;
        // what arrived since the last look
        let fresh = |mark: &mut usize| -> Vec<u8> {
            let out = sock.output();
            let new = out[(*mark).min(out.len())..].to_vec();
            *mark = out.len();
            new
        };
        'conn: {
            if !settle_all(&socks).await {
                inconclusive = true;
                break 'conn;
            }
            // ---- 1. the router synchronises
            let query = match plan.start {
                Start::Reset => WirePdu::ResetQuery { v },
                Start::SerialCurrent => WirePdu::SerialQuery { v, session: plan.session, serial: plan.base },
                Start::SerialOlder => WirePdu::SerialQuery { v, session: plan.session, serial: first_serial },
            };
            sock.deliver(&query.encode());
            if !settle_all(&socks).await {
                inconclusive = true;
                break 'conn;
            }
            let out = fresh(&mut mark);
            transcript.push(json!({"router_sends": query.to_json(), "server_answers": describe_output(&out)}));
            let want_records = match plan.start {
                Start::Reset => 2 + pre.map_or(0, |_| 1),
                Start::SerialCurrent => 0,
                Start::SerialOlder => 1,
            };
            if let Some(f) = judge_response(&out, plan, plan.base, Some(want_records), eod_len, "synchronisation") {
                findings.push(f);
                break 'conn;
            }
            stats.sync_by_start[plan.start as usize] += 1;
            // the serial the router holds / the one last announced to it
            let mut held = plan.base;
            let mut announced: Option<u32> = None;
            let mut held_idx_steps = 0usize; // steps the router has not fetched yet
            // ---- 2. the source moves on
            for (i, &n) in plan.steps.iter().enumerate() {
                let new = source.advance(n);
                if n != 0 {
                    held_idx_steps += 1;
                }
                sender.notify();
                stats.notifies_fired += 1;
                if !settle_all(&socks).await {
                    inconclusive = true;
                    break 'conn;
                }
                let out = fresh(&mut mark);
                let d_held = new.wrapping_sub(held);
                let d_ann = announced.map(|a| new.wrapping_sub(a));
                let rel = relation(held, new);
                let rel_ann = announced.map(|a| relation(a, new));
                transcript.push(json!({
                    "source_advances_by": format!("{n:#x}"),
                    "source_serial": format!("{new:#010x}"),
                    "router_holds": format!("{held:#010x}"),
                    "last_announced": announced.map(|a| format!("{a:#010x}")),
                    "notification_fired": true,
                    "server_sends": describe_output(&out),
                }));
                let (pdus, end) = split_output(&out);
                let notifies: Vec<_> = pdus.iter().filter(|p| p.typ == 0).collect();
                let others = pdus.len() - notifies.len();
                if others > 0 || end != out.len() {
                    // something else than Serial Notify at an idle connection: what a notification
                    // may trigger is C08's subject; the rest of this connection cannot be judged
                    stats.other_output_after_notification += 1;
                    not_judged = true;
                    break 'conn;
                }
                for p in &notifies {
                    stats.notify_pdus_checked += 1;
                    let serial = be32_at(&out, p.start + 8);
                    if p.len != 12 || p.session != plan.session || serial != Some(new) {
                        findings.push(Finding {
                            what: format!("serial-notify-does-not-carry-the-new-serial:{rel}"),
                            msg: format!(
                                "the source is at session {:#06x} serial {new:#010x} (octets {}); the Serial Notify carries session {:#06x} and serial octets {}",
                                plan.session,
                                crate::core::hex(&new.to_be_bytes()),
                                p.session,
                                crate::core::hex(&out[(p.start + 8).min(out.len())..(p.start + p.len).min(out.len())])
                            ),
                        });
                        break 'conn;
                    }
                }
                let seen = !notifies.is_empty();
                emitted.push(seen);
                let e = stats.notify_by_relation.entry(rel).or_insert((0, 0));
                e.0 += 1;
                e.1 += seen as u64;
                // strictly greater than everything the connection has told the router so far
                let ahead = |d: u32| d >= 1 && d < HALF;
                let demanded = ahead(d_held) && d_ann.map_or(true, ahead) && n != 0;
                if demanded {
                    stats.notifies_demanded += 1;
                    if notifies.len() > 1 {
                        stats.several_notifies_for_one_notification += 1;
                    }
                    if demand_notify && notifies.is_empty() {
                        let which = if rel != "plain" { rel } else { rel_ann.unwrap_or(rel) };
                        findings.push(Finding {
                            what: format!("no-serial-notify-after-the-source-advanced:{which}:step={}", step_class(n)),
                            msg: format!(
                                "the router was sent serial {held:#010x} in End of Data{}; the source advanced by {n:#x} to {new:#010x}, which RFC 1982 orders strictly after both (differences {d_held:#x}{}), and notified while the connection was idle: no Serial Notify was sent (the control 0x1000 -> 0x1001 got one)",
                                announced.map(|a| format!(" and was last announced {a:#010x}")).unwrap_or_default(),
                                d_ann.map(|d| format!(", {d:#x}")).unwrap_or_default()
                            ),
                        });
                        break 'conn;
                    }
                }
                if seen {
                    announced = Some(new);
                }
                // ---- the router asks with the serial it holds
                if plan.queries.after(i, plan.steps.len()) {
                    if plan.forgets {
                        source.with(|d| d.forgotten = d.serials.len() - 1);
                    }
                    let offered = source.with(|d| {
                        let idx = d.serials.iter().rposition(|s| *s == held);
                        matches!(idx, Some(i) if i >= d.forgotten)
                    });
                    let calls_before = source.with(|d| d.diff_calls.len());
                    let query = WirePdu::SerialQuery { v, session: plan.session, serial: held };
                    sock.deliver(&query.encode());
                    if !settle_all(&socks).await {
                        inconclusive = true;
                        break 'conn;
                    }
                    let out = fresh(&mut mark);
                    transcript.push(json!({"router_sends": query.to_json(), "source_offers": if offered { "diff" } else { "nothing (Cache Reset)" }, "server_answers": describe_output(&out)}));
                    // what did the server ask its source?
                    let calls: Vec<(u16, u32, bool)> = source.with(|d| d.diff_calls[calls_before..].to_vec());
                    stats.diff_calls_compared += 1;
                    if calls.is_empty() || calls.iter().any(|c| (c.0, c.1) != (plan.session, held)) {
                        findings.push(Finding {
                            what: format!("source-not-asked-for-the-serial-sent:{rel}"),
                            msg: format!(
                                "Serial Query for session {:#06x} serial {held:#010x} while the source is at {new:#010x}: PayloadSource::diff was called with {:?}",
                                plan.session,
                                calls.iter().map(|c| format!("(session {:#06x}, serial {:#010x})", c.0, c.1)).collect::<Vec<_>>()
                            ),
                        });
                        break 'conn;
                    }
                    if offered {
                        if let Some(mut f) = judge_response(&out, plan, new, Some(held_idx_steps), eod_len, "serial-query-with-the-serial-held") {
                            f.what = format!("{}:{}", f.what, relation(held, new));
                            findings.push(f);
                            break 'conn;
                        }
                        stats.queries_answered_with_diff += 1;
                        held = new;
                        held_idx_steps = 0;
                    } else {
                        let (pdus, end) = split_output(&out);
                        if pdus.len() != 1 || pdus[0].typ != 8 || end != out.len() {
                            findings.push(Finding {
                                what: format!("serial-query-not-answered-as-the-source-offers:cache-reset-expected:{}", relation(held, new)),
                                msg: format!("the source has no diff from serial {held:#010x} (it is at {new:#010x}); the server answered {:?}", describe_output(&out)),
                            });
                            break 'conn;
                        }
                        stats.queries_answered_with_cache_reset += 1;
                        // the router starts over
                        let query = WirePdu::ResetQuery { v };
                        sock.deliver(&query.encode());
                        if !settle_all(&socks).await {
                            inconclusive = true;
                            break 'conn;
                        }
                        let out = fresh(&mut mark);
                        transcript.push(json!({"router_sends": query.to_json(), "server_answers": describe_output(&out)}));
                        let total = source.with(|d| d.initial.len() + d.added.len());
                        if let Some(mut f) = judge_response(&out, plan, new, Some(total), eod_len, "reset-query-after-cache-reset") {
                            f.what = format!("{}:{}", f.what, relation(held, new));
                            findings.push(f);
                            break 'conn;
                        }
                        stats.resets_after_cache_reset += 1;
                        held = new;
                        held_idx_steps = 0;
                    }
                }
            }
        }
        sock.close();
        let _ = settle_all(&socks).await;
        let _ = handle.await;
    });
    // `Socket::update` must have been told what went into each End of Data
    if findings.is_empty() && !inconclusive && !not_judged {
        let out = sock.output();
        let (pdus, _) = split_output(&out);
        let eods: Vec<(u16, u32)> = pdus.iter().filter(|p| p.typ == 7).map(|p| (p.session, be32_at(&out, p.start + 8).unwrap_or(0))).collect();
        let ups: Vec<(u16, u32)> = updates.lock().unwrap_or_else(|e| e.into_inner()).iter().map(|u| (u.0, u.1)).collect();
        stats.updates_compared += ups.len() as u64;
        // when and how often the socket is told is not this property's subject; a state
        // that was never put on the wire is a serial that changed on its way
        if ups.len() != eods.len() {
            stats.update_calls_other_than_one_per_end_of_data += 1;
        }
        if let Some(odd) = ups.iter().find(|u| !eods.contains(u)) {
            findings.push(Finding {
                what: "socket-update-state-is-not-a-state-of-end-of-data".into(),
                msg: format!("Socket::update was called with session {:#06x} serial {:#010x}; the End of Data PDUs on this connection carried {:?}", odd.0, odd.1, eods),
            });
        }
    }
    stats.runs += 1;
    let inconclusive = inconclusive || not_judged;
    if inconclusive {
        stats.inconclusive += 1;
    }
    RunResult { findings, emitted, transcript, inconclusive, panic: crate::core::take_last_panic() }
}

/// Cache Response, `records` payload PDUs, End of Data carrying `serial`.
fn judge_response(out: &[u8], plan: &Plan, serial: u32, records: Option<usize>, eod_len: usize, phase: &'static str) -> Option<Finding> {
    let (pdus, end) = split_output(out);
    let types: Vec<u8> = pdus.iter().map(|p| p.typ).collect();
    let shape_ok = types.len() >= 2 && types[0] == 3 && *types.last().unwrap() == 7 && types[1..types.len() - 1].iter().all(|t| *t == 4) && end == out.len();
    if !shape_ok || records.map_or(false, |r| types.len() - 2 != r) {
        return Some(Finding {
            what: format!("{phase}-not-answered-as-the-source-offers:diff-expected"),
            msg: format!(
                "{phase}: the source offers Cache Response, {} record(s), End of Data with serial {serial:#010x}; the server answered {:?}",
                records.map_or("some".to_string(), |r| r.to_string()),
                describe_output(out)
            ),
        });
    }
    let eod = pdus.last().unwrap();
    let got = be32_at(out, eod.start + 8);
    if pdus[0].session != plan.session {
        return Some(Finding {
            what: format!("{phase}-cache-response-does-not-carry-the-session"),
            msg: format!("{phase}: the source is at session {:#06x}; the Cache Response carries {:#06x}", plan.session, pdus[0].session),
        });
    }
    if got != Some(serial) || eod.session != plan.session || eod.len != eod_len {
        return Some(Finding {
            what: format!("{phase}-end-of-data-does-not-carry-the-source-serial"),
            msg: format!(
                "{phase}: the source is at session {:#06x} serial {serial:#010x}; Cache Response has session {:#06x}, End of Data session {:#06x} serial {:?} in {} octets",
                plan.session,
                pdus[0].session,
                eod.session,
                got.map(|s| format!("{s:#010x}")),
                eod.len
            ),
        });
    }
    None
}

//------------ the workload -------------------------------------------------------------------

const BASES: [u32; 14] = [
    0xFFFF_FFFF,
    0xFFFF_FFF0,
    0xFFFF_FFFE,
    0,
    1,
    0x7FFF_FFFF,
    0x7FFF_FFF0,
    0x8000_0000,
    0x8000_0001,
    0x8000_0011,
    0x0000_1000,
    0xDEAD_BEEF,
    0x0000_0100,
    0x00FF_FFFF,
];

fn step_lists() -> Vec<Vec<u32>> {
    vec![
        vec![1],
        vec![0x20],
        vec![0x7FFF_FFFF],
        vec![1, 1],
        vec![1, 0x20, 1],
        vec![0x10, 0x7FFF_FFEF],
        vec![0x7FFF_FFFF, 0x7FFF_FFFF],
        vec![0x4000_0000, 0x3FFF_FFFF, 1],
        vec![0],
        vec![1, 0, 1],
        vec![0x0F, 1, 1, 0x0F],
        vec![0x7FFF_FFF0, 0x0F, 1],
    ]
}

fn plan_json(plan: &Plan) -> Value {
    json!({
        "version": plan.version,
        "session": plan.session,
        "source_serial_when_the_router_synchronises": format!("{:#010x}", plan.base),
        "synchronisation": plan.start.name(),
        "source_advances_by": plan.steps.iter().map(|n| format!("{n:#x}")).collect::<Vec<_>>(),
        "router_queries": plan.queries.name(),
        "source_forgets_old_states": plan.forgets,
    })
}

fn report(ctx: &mut Ctx, plan: &Plan, res: &RunResult, sock_note: &str) {
    let detail = json!({"plan": plan_json(plan), "transcript": res.transcript, "note": sock_note});
    if let Some(text) = &res.panic {
        ctx.violation(&format!("C16:panic:server-advance:{}", panic_location(text)), &format!("the connection task panicked: {text}"), detail.clone());
    }
    for f in &res.findings {
        ctx.violation(&format!("C16:server-advance:{}", f.what), &f.msg, detail.clone());
    }
}

pub fn run(ctx: &mut Ctx) -> u64 {
    let rt = new_runtime();
    let mut stats = Stats::default();
    let mut evals = 0u64;
    let miri = ctx.stage == Stage::Miri;
    // ---- control: does this server send a Serial Notify for a plain advance at all?
    let mut control_ok = [false; 3];
    for v in 0..3u8 {
        if miri && v != 1 {
            continue;
        }
        let plan = Plan { version: v, session: 0x4711, base: 0x1000, start: Start::Reset, steps: vec![1], queries: Queries::Never, forgets: false };
        let res = run_plan(&rt, &plan, false, &mut stats);
        evals += 1;
        control_ok[v as usize] = res.findings.is_empty() && !res.inconclusive && res.panic.is_none() && res.emitted == vec![true];
        if !control_ok[v as usize] {
            ctx.obs("server_advance_control_without_serial_notify", 1);
            ctx.notes.push(format!(
                "server-advance control (version {v}, source 0x1000 -> 0x1001, notification at the idle connection) did not yield a Serial Notify: missing notifications are not judged for this version (C08's subject)"
            ));
            report(ctx, &plan, &res, "control");
        }
    }
    // ---- enumerated plans
    let lists = step_lists();
    let starts = [Start::Reset, Start::SerialCurrent, Start::SerialOlder];
    let qs = [Queries::AfterEach, Queries::AtEnd, Queries::Never, Queries::Alternate];
    let all_versions = ctx.tier == Tier::Thorough && ctx.stage == Stage::Native;
    let mut plans: Vec<Plan> = Vec::new();
    let mut unit = 0u64;
    for (bi, &base) in BASES.iter().enumerate() {
        if miri {
            break; // a handful of plans below
        }
        for (li, steps) in lists.iter().enumerate() {
            for (si, &start) in starts.iter().enumerate() {
                for (qi, &queries) in qs.iter().enumerate() {
                    if queries == Queries::Alternate && steps.len() < 2 {
                        continue;
                    }
                    for forgets in [false, true] {
                        if forgets && queries == Queries::Never {
                            continue;
                        }
                        let versions: Vec<u8> = if all_versions { vec![0, 1, 2] } else { vec![((bi + li + si + qi + forgets as usize) % 3) as u8] };
                        for version in versions {
                            unit += 1;
                            let session = 0x0101u16.wrapping_mul((unit % 200) as u16 + 1) ^ 0x4000;
                            plans.push(Plan { version, session, base, start, steps: steps.clone(), queries, forgets });
                        }
                    }
                }
            }
        }
    }
    // ---- random plans: any base, steps of any size below 2^31 that never come back to an earlier serial
    let n_random = match (ctx.stage, ctx.tier) {
        (Stage::Native, Tier::Quick) => 600,
        (Stage::Native, Tier::Thorough) => 40_000,
        (Stage::Asan, _) => 400,
        _ => 0,
    };
    for i in 0..n_random {
        let mut rng = Rng::derive(ctx.seed, &["C16", "server-advance"], &[i as u64]);
        let base = match i % 4 {
            0 => rng.next_u32(),
            1 => 0u32.wrapping_sub(rng.next_u32() & 0xFF),
            2 => HALF.wrapping_sub(rng.next_u32() & 0xFF),
            _ => *rng.pick(&BASES),
        };
        let k = 1 + rng.usize_below(5);
        let mut steps = Vec::new();
        let mut total: u64 = 0;
        for _ in 0..k {
            let n = match rng.below(6) {
                0 => 1,
                1 => 1 + (rng.next_u32() & 0xFF),
                2 => 0x7FFF_FFFF - (rng.next_u32() & 0xFF),
                3 => rng.next_u32() & 0x7FFF_FFFF,
                4 => 1 + (rng.next_u32() & 0xFFFF),
                _ => 0,
            };
            // the number space is not walked around completely: serials stay distinct
            if total + n as u64 >= 0xFFFF_FF00 {
                break;
            }
            total += n as u64;
            steps.push(n);
        }
        if steps.is_empty() {
            steps.push(1);
        }
        plans.push(Plan {
            version: (rng.below(3)) as u8,
            session: (rng.next_u32() >> 5) as u16,
            base,
            start: *rng.pick(&starts),
            steps,
            queries: *rng.pick(&qs),
            forgets: rng.chance(1, 3),
        });
    }
    if miri {
        // a handful: +1 across the wrap with a query, a jump across 2^31, a forgotten state
        plans = vec![
            Plan { version: 1, session: 0x0a0b, base: 0xFFFF_FFFF, start: Start::Reset, steps: vec![1, 1], queries: Queries::AfterEach, forgets: false },
            Plan { version: 2, session: 0x0102, base: 0x7FFF_FFF0, start: Start::SerialOlder, steps: vec![0x20], queries: Queries::AtEnd, forgets: true },
        ];
    }
    for (i, plan) in plans.iter().enumerate() {
        if !miri && !ctx.mine(i as u64) {
            continue;
        }
        ctx.breadcrumb(&format!("server-advance: {}", plan_json(plan)));
        let res = run_plan(&rt, plan, control_ok[plan.version as usize], &mut stats);
        evals += 1 + plan.steps.len() as u64;
        let rels: Vec<&'static str> = {
            let mut cur = plan.base;
            plan.steps
                .iter()
                .map(|n| {
                    let next = cur.wrapping_add(*n);
                    let r = relation(cur, next);
                    cur = next;
                    r
                })
                .collect()
        };
        let mut rel_set: Vec<&'static str> = rels.clone();
        rel_set.sort();
        rel_set.dedup();
        ctx.sig(&format!(
            "server-advance v{} start={} steps={} [{}] queries={} history={} base={}",
            plan.version,
            plan.start.name(),
            steps_text(&plan.steps),
            rel_set.join("+"),
            plan.queries.name(),
            if plan.forgets { "forgotten" } else { "kept" },
            serial_class(plan.base)
        ));
        if res.inconclusive {
            continue;
        }
        report(ctx, plan, &res, "");
        if res.findings.is_empty() && rels.iter().any(|r| *r == "across-the-wrap") && plan.queries != Queries::Never {
            ctx.sample("server-advance: across the wrap", || json!({"plan": plan_json(plan), "transcript": res.transcript}));
        }
    }
    // ---- distance exactly 2^31: only "the same for a pair and for the pair shifted by 2^31"
    if ctx.shard == 0 && !miri {
        let bases: &[u32] = if miri { &[0x0000_1000] } else { &[0, 0x0000_1000, 0x7FFF_FFFF, 0xDEAD_BEEF, 0x0000_0100, 0x1234_5678] };
        for (i, &a) in bases.iter().enumerate() {
            for &start in &starts {
                if miri && start != Start::Reset {
                    continue;
                }
                let v = (i % 3) as u8;
                let mk = |base: u32| Plan { version: v, session: 0x2bad, base, start, steps: vec![HALF], queries: Queries::AtEnd, forgets: false };
                let (p1, p2) = (mk(a), mk(a.wrapping_add(HALF)));
                let r1 = run_plan(&rt, &p1, false, &mut stats);
                let r2 = run_plan(&rt, &p2, false, &mut stats);
                evals += 2;
                if r1.inconclusive || r2.inconclusive {
                    continue;
                }
                report(ctx, &p1, &r1, "distance 2^31");
                report(ctx, &p2, &r2, "distance 2^31");
                if !r1.findings.is_empty() || !r2.findings.is_empty() || r1.emitted.len() != 1 || r2.emitted.len() != 1 {
                    continue;
                }
                stats.half_pairs += 1;
                stats.half_emitted += r1.emitted[0] as u64 + r2.emitted[0] as u64;
                if r1.emitted != r2.emitted {
                    ctx.violation(
                        "C16:server-advance:serial-notify-at-distance-2^31-depends-on-the-base",
                        &format!(
                            "the source advanced by exactly 2^31 and notified: from {a:#010x} a Serial Notify was {}sent, from {:#010x} it was {}sent - the two pairs have the same difference",
                            if r1.emitted[0] { "" } else { "not " },
                            a.wrapping_add(HALF),
                            if r2.emitted[0] { "" } else { "not " }
                        ),
                        json!({"first": {"plan": plan_json(&p1), "transcript": r1.transcript}, "second": {"plan": plan_json(&p2), "transcript": r2.transcript}}),
                    );
                }
            }
        }
        ctx.sig("server-advance: advance by exactly 2^31 from a base and from base + 2^31");
    }
    ctx.obs("server_advance_connections", stats.runs);
    ctx.obs("server_advance_connections_inconclusive", stats.inconclusive);
    ctx.obs("server_advance_other_output_after_notification_not_judged", stats.other_output_after_notification);
    ctx.obs("server_advance_several_serial_notifies_for_one_notification", stats.several_notifies_for_one_notification);
    ctx.obs("server_advance_update_calls_other_than_one_per_end_of_data", stats.update_calls_other_than_one_per_end_of_data);
    ctx.obs("server_advance_notifications_fired_at_idle", stats.notifies_fired);
    ctx.obs("server_advance_serial_notify_demanded", stats.notifies_demanded);
    ctx.obs("server_advance_serial_notify_pdus_checked", stats.notify_pdus_checked);
    for (rel, (fired, seen)) in &stats.notify_by_relation {
        ctx.obs(&format!("server_advance_notified[{rel}]"), *fired);
        ctx.obs(&format!("server_advance_serial_notify_seen[{rel}]"), *seen);
    }
    ctx.obs("server_advance_synchronised_by_reset_query", stats.sync_by_start[0]);
    ctx.obs("server_advance_synchronised_by_serial_query_current", stats.sync_by_start[1]);
    ctx.obs("server_advance_synchronised_by_serial_query_older", stats.sync_by_start[2]);
    ctx.obs("server_advance_old_serial_answered_with_diff", stats.queries_answered_with_diff);
    ctx.obs("server_advance_old_serial_answered_with_cache_reset", stats.queries_answered_with_cache_reset);
    ctx.obs("server_advance_reset_after_cache_reset", stats.resets_after_cache_reset);
    ctx.obs("server_advance_diff_calls_compared", stats.diff_calls_compared);
    ctx.obs("server_advance_socket_updates_compared", stats.updates_compared);
    ctx.obs("server_advance_pairs_at_distance_2^31", stats.half_pairs);
    ctx.obs("server_advance_serial_notify_seen_at_distance_2^31", stats.half_emitted);
    if stats.inconclusive > 0 {
        ctx.notes.push(format!("{} server-advance connections did not settle and were not judged", stats.inconclusive));
    }
    evals
}
