//! C11 — mutators for the parser-robustness part: byte-level and tag-level
//! damage of valid documents, and documents made of random bytes.

use crate::core::Rng;

/// Hostile replacement texts for attribute values and element content.
const HOSTILE: &[&[u8]] = &[
    b"", b" ", b"&", b"&amp;", b"&lt;", b"&#0;", b"&#x0;", b"&#1;", b"&#xD800;", b"&#x110000;", b"&#99999999999999999999;",
    b"&unknown;", b"&#x26;#x26;", b"&#10;", b"&#9;x&#13;", b"<", b">", b"\"", b"'", b"]]>", b"\x00", b"\x01\x02", b"\x7f",
    b"\xc3\xa9", b"\xe2\x82\xac", b"\xf0\x9f\x98\x80", b"\xff\xfe", b"\xc0\x80", b"\xed\xa0\x80", b"\xef\xbb\xbf",
    b"AAAA", b"A", b"AA=A", b"====", b"A A A A", b"QUJD\nREVG", b"!!!!", b"rsync://", b"rsync://a/b/../c", b"rsync://a//b",
    b"https://", b"http://", b"HTTP://x", b"AS1-AS0", b"AS4294967296", b"10.0.0.0/33", b"::/129", b"::ffff:0.0.0.0/96",
    b"1.2.3.4-::1", b"-", b",", b",,,", b"/", b"0", b"-1", b"18446744073709551616", b"99999999999999999999999999",
    b"2020-02-30T00:00:00Z", b"+10000-01-01T00:00:00Z", b"2020-01-01T00:00:60Z", b"2020-01-01T00:00:00+25:00",
    b"0000000000000000000000000000000000000000000000000000000000000000", b"zz", b"abc", b"1", b"2", b"4", b"query", b"reply",
];

const ELEMENT_NAMES: &[&[u8]] = &[
    b"message", b"class", b"certificate", b"issuer", b"request", b"key", b"status", b"description", b"msg", b"list",
    b"success", b"publish", b"withdraw", b"report_error", b"error_text", b"failed_pdu", b"child_request", b"child_bpki_ta",
    b"publisher_request", b"publisher_bpki_ta", b"parent_response", b"parent_bpki_ta", b"referral", b"offer",
    b"repository_response", b"repository_bpki_ta", b"x", b"x:msg", b":", b"xmlns", b"",
];

const ATTR_NAMES: &[&[u8]] = &[
    b"xmlns", b"xmlns:x", b"version", b"sender", b"recipient", b"type", b"class_name", b"cert_url", b"resource_set_as",
    b"resource_set_ipv4", b"resource_set_ipv6", b"resource_set_notafter", b"suggested_sia_head", b"req_resource_set_as",
    b"req_resource_set_ipv4", b"req_resource_set_ipv6", b"ski", b"tag", b"uri", b"hash", b"error_code", b"child_handle",
    b"parent_handle", b"publisher_handle", b"service_uri", b"sia_base", b"rrdp_notification_uri", b"xml:lang", b"x:tag", b"",
];

const INSERTS: &[&[u8]] = &[
    b"<!-- c -->", b"<!---->", b"<!-- -- -->", b"<!--", b"<?xml version=\"1.0\"?>", b"<?xml version=\"1.0\" encoding=\"UTF-16\"?>",
    b"<?pi x?>", b"<?", b"<![CDATA[x]]>", b"<![CDATA[", b"<!DOCTYPE a [<!ENTITY e \"eeee\">]>", b"<!DOCTYPE a SYSTEM \"x\">",
    b"<!DOCTYPE", b"&e;", b"<x/>", b"<x>", b"</x>", b"</>", b"<>", b"< >", b"<a b>", b"<a b=>", b"<a b=c>", b"<a b='1' b='2'/>",
    b"text", b"\n\n\n", b"\t", b"\r\n", b"\xef\xbb\xbf", b"\x00", b"<list/>", b"<success/>", b"<publish/>", b"<withdraw/>",
    b"<report_error/>", b"<class/>", b"<key/>", b"<status>1</status>", b"<description xml:lang=\"en-US\">d</description>",
    b"<failed_pdu><publish uri=\"rsync://a/b/c\">AAAA</publish></failed_pdu>", b"<error_text>t</error_text>", b"<offer/>",
    b"<referral referrer=\"x\">AAAA</referral>",
];

/// Splits a document into tokens: `<...>` tags and the text between them.
fn tokens(doc: &[u8]) -> Vec<(usize, usize, bool)> {
    let mut out = Vec::new();
    let mut i = 0;
    while i < doc.len() {
        if doc[i] == b'<' {
            let end = doc[i..].iter().position(|b| *b == b'>').map(|p| i + p + 1).unwrap_or(doc.len());
            out.push((i, end, true));
            i = end;
        } else {
            let end = doc[i..].iter().position(|b| *b == b'<').map(|p| i + p).unwrap_or(doc.len());
            out.push((i, end, false));
            i = end;
        }
    }
    out
}

/// Attribute spans `(name_start, name_end, value_start, value_end)` inside a tag token.
fn attrs(doc: &[u8], start: usize, end: usize) -> Vec<(usize, usize, usize, usize)> {
    let mut out = Vec::new();
    let mut i = start;
    while i < end {
        if doc[i] == b'=' && i + 1 < end && doc[i + 1] == b'"' {
            let mut ns = i;
            while ns > start && !doc[ns - 1].is_ascii_whitespace() {
                ns -= 1;
            }
            let vs = i + 2;
            let ve = doc[vs..end].iter().position(|b| *b == b'"').map(|p| vs + p).unwrap_or(end);
            out.push((ns, i, vs, ve));
            i = ve + 1;
        } else {
            i += 1;
        }
    }
    out
}

fn pb(rng: &mut Rng, items: &[&'static [u8]]) -> &'static [u8] {
    items[rng.usize_below(items.len())]
}

fn splice(doc: &[u8], start: usize, end: usize, with: &[u8]) -> Vec<u8> {
    let mut v = Vec::with_capacity(doc.len() + with.len());
    v.extend_from_slice(&doc[..start]);
    v.extend_from_slice(with);
    v.extend_from_slice(&doc[end..]);
    v
}

fn hostile(rng: &mut Rng) -> Vec<u8> {
    match rng.below(12) {
        0 => {
            let n = if super::c11_gen::small() { rng.range(1, 300) as usize } else { rng.range(1, 40_000) as usize };
            vec![*rng.pick(b"A&<a \xff"); n]
        }
        1 => {
            let n = rng.range(1, 64) as usize;
            rng.bytes(n)
        }
        _ => pb(rng, HOSTILE).to_vec(),
    }
}

pub const BYTE_MUTATORS: u64 = 9;
pub const TAG_MUTATORS: u64 = 16;

/// One byte-level mutation. Returns the mutator's name and the result.
pub fn byte_mutation(rng: &mut Rng, doc: &[u8]) -> (&'static str, Vec<u8>) {
    if doc.is_empty() {
        return ("byte:empty", vec![]);
    }
    let pos = rng.usize_below(doc.len());
    match rng.below(BYTE_MUTATORS) {
        0 => {
            let mut v = doc.to_vec();
            v[pos] ^= 1 << rng.below(8);
            ("byte:bitflip", v)
        }
        1 => {
            let mut v = doc.to_vec();
            v[pos] = *rng.pick(b"<>&\"'/= \n\t\r\x00\x7f\x80\xc3\xff!?-[]:;#x");
            ("byte:replace-special", v)
        }
        2 => {
            let mut v = doc.to_vec();
            v[pos] = rng.next_u32() as u8;
            ("byte:replace-random", v)
        }
        3 => ("byte:truncate", doc[..pos].to_vec()),
        4 => ("byte:delete", splice(doc, pos, pos + 1, b"")),
        5 => {
            let ins = [*rng.pick(b"<>&\"'/= \x00\xff")];
            ("byte:insert", splice(doc, pos, pos, &ins))
        }
        6 => {
            let end = (pos + rng.range(1, 64) as usize).min(doc.len());
            ("byte:delete-slice", splice(doc, pos, end, b""))
        }
        7 => {
            let end = (pos + rng.range(1, 200) as usize).min(doc.len());
            let slice = doc[pos..end].to_vec();
            let at = rng.usize_below(doc.len());
            ("byte:duplicate-slice", splice(doc, at, at, &slice))
        }
        _ => {
            // several independent damages
            let mut v = doc.to_vec();
            for _ in 0..rng.range(2, 6) {
                let p = rng.usize_below(v.len());
                v[p] = rng.next_u32() as u8;
            }
            ("byte:multi-random", v)
        }
    }
}

/// One tag-level mutation (works on the `<...>` / text token structure).
pub fn tag_mutation(rng: &mut Rng, doc: &[u8]) -> (&'static str, Vec<u8>) {
    let toks = tokens(doc);
    let tags: Vec<usize> = (0..toks.len()).filter(|i| toks[*i].2).collect();
    let texts: Vec<usize> = (0..toks.len()).filter(|i| !toks[*i].2).collect();
    if tags.is_empty() {
        return byte_mutation(rng, doc);
    }
    let t = toks[*rng.pick(&tags)];
    match rng.below(TAG_MUTATORS) {
        0 => ("tag:delete", splice(doc, t.0, t.1, b"")),
        1 => ("tag:duplicate", splice(doc, t.1, t.1, &doc[t.0..t.1])),
        2 => {
            let u = toks[*rng.pick(&tags)];
            if u.0 == t.0 {
                return ("tag:delete", splice(doc, t.0, t.1, b""));
            }
            let (a, b) = if t.0 < u.0 { (t, u) } else { (u, t) };
            let mut v = Vec::with_capacity(doc.len());
            v.extend_from_slice(&doc[..a.0]);
            v.extend_from_slice(&doc[b.0..b.1]);
            v.extend_from_slice(&doc[a.1..b.0]);
            v.extend_from_slice(&doc[a.0..a.1]);
            v.extend_from_slice(&doc[b.1..]);
            ("tag:swap", v)
        }
        3 => {
            // rename the element (start or end tag only: unbalances)
            let ns = if doc.get(t.0 + 1) == Some(&b'/') { t.0 + 2 } else { t.0 + 1 };
            let ne = doc[ns..t.1]
                .iter()
                .position(|b| b.is_ascii_whitespace() || *b == b'>' || *b == b'/')
                .map(|p| ns + p)
                .unwrap_or(t.1);
            ("tag:rename-element", splice(doc, ns, ne, pb(rng, ELEMENT_NAMES)))
        }
        4 => {
            // rename consistently: every occurrence of the element name
            let ns = if doc.get(t.0 + 1) == Some(&b'/') { t.0 + 2 } else { t.0 + 1 };
            let ne = doc[ns..t.1]
                .iter()
                .position(|b| b.is_ascii_whitespace() || *b == b'>' || *b == b'/')
                .map(|p| ns + p)
                .unwrap_or(t.1);
            let old = doc[ns..ne].to_vec();
            let new = pb(rng, ELEMENT_NAMES).to_vec();
            if old.is_empty() {
                return ("tag:delete", splice(doc, t.0, t.1, b""));
            }
            let mut v = Vec::with_capacity(doc.len());
            let mut i = 0;
            while i < doc.len() {
                if (doc[i] == b'<' || (i > 0 && doc[i - 1] == b'<' && doc[i] == b'/')) && doc[i + 1..].starts_with(&old) {
                    v.push(doc[i]);
                    v.extend_from_slice(&new);
                    i += 1 + old.len();
                } else {
                    v.push(doc[i]);
                    i += 1;
                }
            }
            ("tag:rename-element-everywhere", v)
        }
        5..=9 => {
            let at = attrs(doc, t.0, t.1);
            if at.is_empty() {
                // turn into / from self-closing
                if doc[..t.1].ends_with(b"/>") {
                    return ("tag:open-selfclosing", splice(doc, t.1 - 2, t.1, b">"));
                }
                return ("tag:selfclose", splice(doc, t.1 - 1, t.1, b"/>"));
            }
            let a = *rng.pick(&at);
            match rng.below(7) {
                0 => ("tag:attr-value-hostile", splice(doc, a.2, a.3, &hostile(rng))),
                1 => ("tag:attr-rename", splice(doc, a.0, a.1, pb(rng, ATTR_NAMES))),
                2 => {
                    let end = (a.3 + 1).min(t.1);
                    ("tag:attr-drop", splice(doc, a.0, end, b""))
                }
                3 => {
                    let end = (a.3 + 1).min(t.1);
                    let mut dup = b" ".to_vec();
                    dup.extend_from_slice(&doc[a.0..end]);
                    ("tag:attr-duplicate", splice(doc, end, end, &dup))
                }
                4 => {
                    // another known attribute with a hostile value
                    let mut ins = b" ".to_vec();
                    ins.extend_from_slice(pb(rng, ATTR_NAMES));
                    ins.extend_from_slice(b"=\"");
                    ins.extend_from_slice(&hostile(rng));
                    ins.extend_from_slice(b"\"");
                    let end = (a.3 + 1).min(t.1);
                    ("tag:attr-add", splice(doc, end, end, &ins))
                }
                5 => {
                    // single quotes / no quotes
                    let mut v = doc.to_vec();
                    if a.2 >= 1 && a.3 < v.len() {
                        let q = *rng.pick(b"' ");
                        v[a.2 - 1] = q;
                        v[a.3] = q;
                    }
                    ("tag:attr-requote", v)
                }
                _ => {
                    // value of another attribute of the same document
                    let other = toks[*rng.pick(&tags)];
                    let oa = attrs(doc, other.0, other.1);
                    if oa.is_empty() {
                        ("tag:attr-value-hostile", splice(doc, a.2, a.3, &hostile(rng)))
                    } else {
                        let o = *rng.pick(&oa);
                        ("tag:attr-value-swap", splice(doc, a.2, a.3, &doc[o.2..o.3].to_vec()))
                    }
                }
            }
        }
        10 | 11 => {
            let at = if rng.bool() { t.0 } else { t.1 };
            ("tag:insert-markup", splice(doc, at, at, pb(rng, INSERTS)))
        }
        12 | 13 => {
            if texts.is_empty() {
                return ("tag:insert-markup", splice(doc, t.1, t.1, pb(rng, INSERTS)));
            }
            let x = toks[*rng.pick(&texts)];
            ("tag:text-hostile", splice(doc, x.0, x.1, &hostile(rng)))
        }
        14 => {
            // namespace prefix on the element
            let ns = if doc.get(t.0 + 1) == Some(&b'/') { t.0 + 2 } else { t.0 + 1 };
            ("tag:prefix-element", splice(doc, ns, ns, b"x:"))
        }
        _ => {
            // nest the whole document inside itself at this tag
            let mut v = Vec::with_capacity(doc.len() * 2);
            v.extend_from_slice(&doc[..t.1]);
            v.extend_from_slice(doc);
            v.extend_from_slice(&doc[t.1..]);
            ("tag:nest-document", v)
        }
    }
}

/// Documents that are not derived from a valid one.
pub fn random_document(rng: &mut Rng) -> (&'static str, Vec<u8>) {
    match rng.below(6) {
        0 => {
            let n = rng.range(0, 300) as usize;
            ("random:bytes", rng.bytes(n))
        }
        1 => {
            let n = rng.range(0, 300) as usize;
            let v: Vec<u8> = (0..n).map(|_| *rng.pick(b"<>/=\"' &;!?-[]ab:x\n")).collect();
            ("random:markup-soup", v)
        }
        2 => {
            // plausible start, random tail
            let mut v = b"<".to_vec();
            v.extend_from_slice(pb(rng, ELEMENT_NAMES));
            for _ in 0..rng.below(6) {
                v.push(b' ');
                v.extend_from_slice(pb(rng, ATTR_NAMES));
                v.extend_from_slice(b"=\"");
                v.extend_from_slice(&hostile(rng));
                v.push(b'"');
            }
            if rng.bool() {
                v.extend_from_slice(b">");
                let n = rng.range(0, 80) as usize;
                v.extend_from_slice(&rng.bytes(n));
            } else {
                v.extend_from_slice(b"/>");
            }
            ("random:plausible-start", v)
        }
        3 => {
            // assembled from the vocabulary: random nesting
            let mut v = Vec::new();
            let mut stack: Vec<&[u8]> = Vec::new();
            for _ in 0..rng.range(1, 30) {
                match rng.below(5) {
                    0 | 1 => {
                        let name: &[u8] = pb(rng, ELEMENT_NAMES);
                        v.push(b'<');
                        v.extend_from_slice(name);
                        for _ in 0..rng.below(4) {
                            v.push(b' ');
                            v.extend_from_slice(pb(rng, ATTR_NAMES));
                            v.extend_from_slice(b"=\"");
                            v.extend_from_slice(pb(rng, HOSTILE));
                            v.push(b'"');
                        }
                        if rng.bool() {
                            v.extend_from_slice(b"/>");
                        } else {
                            v.push(b'>');
                            stack.push(name);
                        }
                    }
                    2 => {
                        if let Some(name) = stack.pop() {
                            v.extend_from_slice(b"</");
                            v.extend_from_slice(name);
                            v.push(b'>');
                        }
                    }
                    3 => v.extend_from_slice(pb(rng, HOSTILE)),
                    _ => v.extend_from_slice(pb(rng, INSERTS)),
                }
            }
            while let Some(name) = stack.pop() {
                if rng.chance(1, 8) {
                    break;
                }
                v.extend_from_slice(b"</");
                v.extend_from_slice(name);
                v.push(b'>');
            }
            ("random:vocabulary", v)
        }
        4 => {
            // deep nesting
            let depth = if super::c11_gen::small() { rng.range(20, 60) as usize } else { rng.range(100, 3000) as usize };
            let name: &[u8] = pb(rng, &[b"class", b"failed_pdu", b"report_error", b"msg", b"x"]);
            let mut v = Vec::new();
            for _ in 0..depth {
                v.push(b'<');
                v.extend_from_slice(name);
                v.push(b'>');
            }
            ("random:deep-nesting", v)
        }
        _ => ("random:empty-or-space", pb(rng, &[b"", b" ", b"\n", b"\xef\xbb\xbf", b"<", b"<?xml?>"]).to_vec()),
    }
}


/// Grafts one complete element of `donor` (start tag through its matching
/// end tag, or an empty-element tag) into `doc` right after a random tag.
/// This produces documents that mix PDUs of different message types, which
/// single-document mutators never do.
pub fn graft(rng: &mut Rng, doc: &[u8], donor: &[u8]) -> (&'static str, Vec<u8>) {
    let dt = tokens(donor);
    let tags: Vec<usize> = (0..dt.len()).filter(|i| dt[*i].2).collect();
    // candidate start tags in the donor: not the first tag (root), not end tags, not declarations
    let starts: Vec<usize> = tags
        .iter()
        .copied()
        .skip(1)
        .filter(|i| {
            let t = dt[*i];
            let b = &donor[t.0..t.1];
            b.len() > 2 && b[1] != b'/' && b[1] != b'?' && b[1] != b'!'
        })
        .collect();
    let here = tokens(doc);
    let here_tags: Vec<usize> = (0..here.len()).filter(|i| here[*i].2).collect();
    if starts.is_empty() || here_tags.is_empty() {
        return tag_mutation(rng, doc);
    }
    let si = *rng.pick(&starts);
    let st = dt[si];
    let self_closing = donor[st.0..st.1].ends_with(b"/>");
    let mut end = st.1;
    if !self_closing {
        let mut depth = 1i32;
        for i in tags.iter().copied().filter(|i| *i > si) {
            let t = dt[i];
            let b = &donor[t.0..t.1];
            if b.len() > 2 && b[1] == b'/' {
                depth -= 1;
            } else if b.len() > 2 && b[1] != b'?' && b[1] != b'!' && !b.ends_with(b"/>") {
                depth += 1;
            }
            if depth == 0 {
                end = t.1;
                break;
            }
        }
    }
    let at = here[*rng.pick(&here_tags)].1;
    ("cross:graft-element", splice(doc, at, at, &donor[st.0..end]))
}
