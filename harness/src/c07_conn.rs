//! C07 helper: broken streams at the *connection* level.
//!
//! `c07.rs` feeds damaged streams to the PDU readers one PDU at a time. The
//! readers that matter to a user sit one level up: `Client::step` (through
//! `serial()` / `reset()`: cache response, payload sequence, end of data) and
//! the server's connection task (query header raced against notifications,
//! serial query payload). Whether a header that announces a wrong version,
//! type or length ends the read with an error - and whether a stream that
//! ends early ends the reader at all - is decided there, per position in the
//! response and per code path. This module drives both over a mock socket.
//!
//! * Client: a protocol-valid response transcript (laid out by the
//!   independent encoder of `c07_io`, for a reset query, a serial query, and a
//!   serial query answered with Cache Reset; protocol versions 0..2; on a new
//!   client and on a client that has completed an exchange before, so that
//!   the version is already negotiated) in which exactly one header field of
//!   exactly one PDU is overwritten, or which ends at some byte position. The
//!   step is polled by hand with a counting waker inside an entered (never
//!   driven) paused-clock runtime: a poll budget, the socket's count of reads
//!   after end-of-stream and "Pending without a wake-up" make not-terminating
//!   a bounded observation.
//! * Server: the real `Server::run` with one mock connection whose input is a
//!   query stream that ends at every byte position; the connection task has
//!   to be gone (socket dropped) within a bounded number of scheduler turns.
//!
//! What is demanded (statement: a stream whose header announces a wrong
//! type, length or version, or that ends early, terminates with an error;
//! never panics, never waits or spins forever): see `must_fail`. Everything
//! the statement leaves open (a type change that gives another well-formed
//! PDU, a length change of a variable-length PDU that is still possible, a
//! changed session field) is recorded, not judged.
//!
//! This file is included from `c07.rs` with `#[path]`.

use crate::c07_gen::{b16, b32, random_script};
use crate::c07_io::{hex_capped, Chunking, Pdu, EOF_READS_TOLERATED};
use crate::core::{catch, hex, panic_location, take_last_panic, Ctx, Rng, Stage, Tier};
use rpki::rtr::client::{Client, PayloadError, PayloadTarget, PayloadUpdate};
use rpki::rtr::payload::{Action, Payload, PayloadRef, Timing};
use rpki::rtr::server::{NotifySender, PayloadDiff, PayloadSet, PayloadSource, Server, Socket};
use rpki::rtr::state::{Serial, State};
use serde_json::{json, Value};
use std::collections::HashSet;
use std::future::Future;
use std::io;
use std::pin::Pin;
use std::sync::atomic::{AtomicU64, Ordering};
use std::sync::{Arc, Mutex};
use std::task::{Context, Poll, Wake, Waker};
use tokio::io::{AsyncRead, AsyncWrite, ReadBuf};

/// several exchanges on one connection, damage at every PDU position of the conversation
#[path = "c07_sess.rs"]
mod sess;

//------------ mock socket ---------------------------------------------------

/// The peer may write this much before the mock refuses (the longest
/// legitimate output of the workload is a few hundred octets).
const OUTPUT_LIMIT: usize = 64 * 1024;

#[derive(Default)]
struct Shared {
    out: Vec<u8>,
    consumed: usize,
    reads_after_eof: u32,
    tripped: bool,
    dropped: bool,
    /// socket calls of any kind
    activity: u64,
    pendings: u64,
    overflow: bool,
}

/// Serves `data[..limit]` in the given delivery pattern and then end of
/// stream: `EOF_READS_TOLERATED` reads are answered with a plain EOF, the next
/// one with an error (so a loop that keeps reading a closed stream ends and
/// is seen). Swallows everything written to it.
struct Peer {
    data: Vec<u8>,
    limit: usize,
    pos: usize,
    chunking: Chunking,
    script_idx: usize,
    pended: bool,
    sh: Arc<Mutex<Shared>>,
}

impl Peer {
    fn new(data: Vec<u8>, limit: usize, chunking: Chunking, sh: Arc<Mutex<Shared>>) -> Self {
        let limit = limit.min(data.len());
        Peer { data, limit, pos: 0, chunking, script_idx: 0, pended: false, sh }
    }
}

impl Drop for Peer {
    fn drop(&mut self) {
        let mut g = self.sh.lock().unwrap_or_else(|e| e.into_inner());
        g.dropped = true;
        g.activity += 1;
    }
}

impl AsyncRead for Peer {
    fn poll_read(self: Pin<&mut Self>, cx: &mut Context<'_>, buf: &mut ReadBuf<'_>) -> Poll<io::Result<()>> {
        let this = self.get_mut();
        let mut g = this.sh.lock().unwrap_or_else(|e| e.into_inner());
        g.activity += 1;
        let room = buf.remaining();
        if room == 0 {
            return Poll::Ready(Ok(()));
        }
        let allowance = match &this.chunking {
            Chunking::AllAtOnce => usize::MAX,
            Chunking::ByteWise => {
                if !this.pended {
                    this.pended = true;
                    g.pendings += 1;
                    cx.waker().wake_by_ref();
                    return Poll::Pending;
                }
                this.pended = false;
                1
            }
            Chunking::Script(script) => {
                let step = if script.is_empty() { usize::MAX } else { script[this.script_idx % script.len()] };
                this.script_idx += 1;
                if step == 0 {
                    g.pendings += 1;
                    cx.waker().wake_by_ref();
                    return Poll::Pending;
                }
                step
            }
        };
        if this.pos >= this.limit {
            g.reads_after_eof += 1;
            if g.reads_after_eof > EOF_READS_TOLERATED {
                g.tripped = true;
                return Poll::Ready(Err(io::Error::new(io::ErrorKind::Other, "verif: stream was read again after two end-of-stream answers")));
            }
            return Poll::Ready(Ok(()));
        }
        let n = room.min(allowance).min(this.limit - this.pos);
        buf.put_slice(&this.data[this.pos..this.pos + n]);
        this.pos += n;
        g.consumed = this.pos;
        Poll::Ready(Ok(()))
    }
}

impl AsyncWrite for Peer {
    fn poll_write(self: Pin<&mut Self>, _cx: &mut Context<'_>, data: &[u8]) -> Poll<io::Result<usize>> {
        let mut g = self.sh.lock().unwrap_or_else(|e| e.into_inner());
        g.activity += 1;
        if g.out.len() + data.len() > OUTPUT_LIMIT {
            g.overflow = true;
            return Poll::Ready(Err(io::Error::new(io::ErrorKind::BrokenPipe, "verif: output limit of the mock socket")));
        }
        g.out.extend_from_slice(data);
        Poll::Ready(Ok(data.len()))
    }

    fn poll_flush(self: Pin<&mut Self>, _cx: &mut Context<'_>) -> Poll<io::Result<()>> {
        self.sh.lock().unwrap_or_else(|e| e.into_inner()).activity += 1;
        Poll::Ready(Ok(()))
    }

    fn poll_shutdown(self: Pin<&mut Self>, _cx: &mut Context<'_>) -> Poll<io::Result<()>> {
        self.sh.lock().unwrap_or_else(|e| e.into_inner()).activity += 1;
        Poll::Ready(Ok(()))
    }
}

impl Socket for Peer {}

//------------ hand driver ----------------------------------------------------

struct WakeCount(AtomicU64);

impl Wake for WakeCount {
    fn wake(self: Arc<Self>) {
        self.0.fetch_add(1, Ordering::SeqCst);
    }
    fn wake_by_ref(self: &Arc<Self>) {
        self.0.fetch_add(1, Ordering::SeqCst);
    }
}

enum Driven<T> {
    Done(T, u64),
    /// still pending (and asking to be polled again) after the budget
    Budget(u64),
    /// returned Pending without having woken the waker: waits for something
    /// that the mock socket never provides (a timer)
    Parked(u64),
}

fn drive_counted<F: Future>(mut fut: Pin<&mut F>, budget: u64) -> Driven<F::Output> {
    let wc = Arc::new(WakeCount(AtomicU64::new(0)));
    let waker = Waker::from(wc.clone());
    let mut cx = Context::from_waker(&waker);
    let mut polls = 0u64;
    loop {
        polls += 1;
        let before = wc.0.load(Ordering::SeqCst);
        match fut.as_mut().poll(&mut cx) {
            Poll::Ready(v) => return Driven::Done(v, polls),
            Poll::Pending => {
                if wc.0.load(Ordering::SeqCst) == before {
                    return Driven::Parked(polls);
                }
                if polls >= budget {
                    return Driven::Budget(polls);
                }
            }
        }
    }
}

fn budget_for(stream_len: usize) -> u64 {
    16 * (stream_len as u64 + 8) + 64
}

//------------ client side: target, transcripts --------------------------------

struct Upd {
    reset: bool,
    items: Vec<(Action, Payload)>,
}

impl PayloadUpdate for Upd {
    fn push_update(&mut self, action: Action, payload: Payload) -> Result<(), PayloadError> {
        self.items.push((action, payload));
        Ok(())
    }
}

#[derive(Default)]
struct Tgt {
    applied: Vec<(bool, usize)>,
}

impl PayloadTarget for Tgt {
    type Update = Upd;
    fn start(&mut self, reset: bool) -> Upd {
        Upd { reset, items: Vec::new() }
    }
    fn apply(&mut self, update: Upd, _timing: Timing) -> Result<(), PayloadError> {
        self.applied.push((update.reset, update.items.len()));
        Ok(())
    }
}

/// A payload PDU that is valid in protocol version `v`.
fn gen_payload(r: &mut Rng, v: u8, announce_only: bool) -> Pdu {
    let kinds: &[u8] = match v {
        0 => &[4, 6],
        1 => &[4, 6, 9],
        _ => &[4, 6, 9, 11],
    };
    let flags = if announce_only { 1 } else { r.below(2) as u8 };
    match *r.pick(kinds) {
        4 => {
            let plen = r.range(0, 32) as u8;
            let mlen = if r.bool() { plen } else { r.range(plen as u64, 32) as u8 };
            let addr = if plen == 0 { 0 } else { r.next_u32() & (u32::MAX << (32 - plen as u32)) };
            Pdu::V4 { v, flags, plen, mlen, addr, asn: b32(r), via_item: true, explicit_max: true }
        }
        6 => {
            let plen = r.range(0, 128) as u8;
            let mlen = if r.bool() { plen } else { r.range(plen as u64, 128) as u8 };
            let addr = if plen == 0 { 0 } else { r.next_u128() & (u128::MAX << (128 - plen as u32)) };
            Pdu::V6 { v, flags, plen, mlen, addr, asn: b32(r), via_item: true, explicit_max: true }
        }
        9 => {
            let mut ski = [0u8; 20];
            ski.copy_from_slice(&r.bytes(20));
            let len = *r.pick(&[0usize, 1, 4, 33, 91]);
            Pdu::RouterKey { v, flags, ski, asn: b32(r), info: r.bytes(len), via_item: true }
        }
        _ => {
            let n = if flags == 0 && r.bool() { 0 } else { r.range(1, 4) as usize };
            Pdu::Aspa { v, flags, customer: b32(r), providers: (0..n).map(|_| b32(r)).collect(), via_item: true }
        }
    }
}

/// Cache Response, payload PDUs, End of Data: what a server sends in answer
/// to a reset query (`diff == false`: announcements only) or a serial query.
fn gen_response(r: &mut Rng, v: u8, diff: bool, session: u16, new_serial: u32, max_payload: u64) -> Vec<Pdu> {
    let mut pdus = vec![Pdu::CacheResponse { v, session }];
    let n = match r.below(8) {
        0 => 0,
        1 => 1,
        _ => r.range(2, max_payload.max(2)),
    };
    for _ in 0..n {
        pdus.push(gen_payload(r, v, !diff));
    }
    // refresh well away from zero: the client waits that long for a Serial
    // Notify before its next query (the clock never moves in this workload)
    pdus.push(Pdu::EndOfData { v, session, serial: new_serial, refresh: r.range(600, 86_400) as u32, retry: r.range(1, 7200) as u32, expire: r.range(600, 172_800) as u32 });
    pdus
}

fn concat(pdus: &[Pdu]) -> (Vec<u8>, Vec<usize>) {
    let mut bytes = Vec::new();
    let mut bounds = vec![0usize];
    for p in pdus {
        bytes.extend_from_slice(&p.encode());
        bounds.push(bytes.len());
    }
    (bytes, bounds)
}

#[derive(Clone, Copy, Debug, PartialEq, Eq)]
enum Path {
    /// new client without state: reset query
    FreshReset,
    /// new client with state: serial query answered with data
    FreshSerial,
    /// new client with state: serial query answered with Cache Reset, then reset query
    FreshFallback,
    /// after one completed exchange on the connection: Serial Notify, serial query answered with data
    NegotiatedSerial,
    /// after one completed exchange: Serial Notify, serial query answered with Cache Reset, then reset query
    NegotiatedFallback,
}

impl Path {
    fn name(self) -> &'static str {
        match self {
            Path::FreshReset => "reset",
            Path::FreshSerial => "serial",
            Path::FreshFallback => "serial-then-reset",
            Path::NegotiatedSerial => "negotiated+serial",
            Path::NegotiatedFallback => "negotiated+serial-then-reset",
        }
    }

    /// which reader of the client takes the judged response
    fn reader(self) -> &'static str {
        match self {
            Path::FreshReset | Path::FreshFallback | Path::NegotiatedFallback => "reset",
            Path::FreshSerial | Path::NegotiatedSerial => "serial",
        }
    }
}

/// One scenario: what the client is and what the server sends.
struct Scenario {
    path: Path,
    v: u8,
    client_version: u8,
    init_state: Option<(u16, u32)>,
    /// undamaged octets in front of the judged response (earlier exchange,
    /// Serial Notify, Cache Reset)
    pre: Vec<u8>,
    /// completed steps before the judged one
    pre_steps: usize,
    /// the judged response
    pdus: Vec<Pdu>,
    bytes: Vec<u8>,
    bounds: Vec<usize>,
}

fn gen_scenario(r: &mut Rng, path: Path, v: u8, max_payload: u64) -> Scenario {
    let session = b16(r);
    let s0 = b32(r);
    let s1 = s0.wrapping_add(r.range(1, 3) as u32);
    let s2 = s1.wrapping_add(r.range(1, 3) as u32);
    // the client may ask with a higher version than the cache answers with
    let client_version = r.range(v as u64, 2) as u8;
    let mut pre: Vec<u8> = Vec::new();
    let mut pre_steps = 0;
    let mut init_state = None;
    let judged_serial;
    let diff;
    match path {
        Path::FreshReset => {
            diff = false;
            judged_serial = s1;
        }
        Path::FreshSerial => {
            init_state = Some((session, s0));
            diff = true;
            judged_serial = s1;
        }
        Path::FreshFallback => {
            init_state = Some((session, s0));
            pre.extend_from_slice(&Pdu::CacheReset { v }.encode());
            diff = false;
            judged_serial = s1;
        }
        Path::NegotiatedSerial | Path::NegotiatedFallback => {
            // first exchange: reset or serial
            if r.bool() {
                init_state = Some((session, s0));
            }
            let first = gen_response(r, v, init_state.is_some(), session, s1, 3);
            pre.extend_from_slice(&concat(&first).0);
            pre_steps = 1;
            pre.extend_from_slice(&Pdu::SerialNotify { v, session, serial: s2 }.encode());
            if path == Path::NegotiatedFallback {
                pre.extend_from_slice(&Pdu::CacheReset { v }.encode());
                diff = false;
            } else {
                diff = true;
            }
            judged_serial = s2;
        }
    }
    let pdus = gen_response(r, v, diff, session, judged_serial, max_payload);
    let (bytes, bounds) = concat(&pdus);
    Scenario { path, v, client_version, init_state, pre, pre_steps, pdus, bytes, bounds }
}

#[derive(Clone, Copy, Debug, PartialEq, Eq)]
enum Damage {
    Intact,
    Version { k: usize, new: u8 },
    Type { k: usize, new: u8 },
    Length { k: usize, announced: u32 },
    Session { k: usize, new: u16 },
    /// the stream ends after this many octets of the judged response
    Truncated { kept: usize },
}

fn position_name(sc: &Scenario, k: usize) -> &'static str {
    let n = sc.pdus.len();
    if k == 0 {
        "cache-response"
    } else if k + 1 == n {
        "end-of-data"
    } else if n == 3 {
        "only-payload"
    } else if k == 1 {
        "first-payload"
    } else if k + 2 == n {
        "last-payload"
    } else {
        "middle-payload"
    }
}

fn position_class(sc: &Scenario, k: usize) -> &'static str {
    let n = sc.pdus.len();
    if k == 0 {
        "cache-response"
    } else if k + 1 == n {
        "end-of-data"
    } else {
        "payload"
    }
}

/// Types no cache ever sends to a router (queries, unassigned numbers).
/// Serial Notify (0) is left out: a router may get one at any time.
fn type_no_cache_sends(t: u8) -> bool {
    matches!(t, 1 | 2 | 5) || t >= 12
}

/// The statement obliges an error: (reason, upper bound for the octets the
/// client may have taken from the judged response when it gives up).
fn must_fail(sc: &Scenario, d: Damage) -> Option<(&'static str, usize)> {
    let n = sc.pdus.len();
    match d {
        Damage::Intact | Damage::Session { .. } => None,
        Damage::Truncated { kept } => {
            if kept < sc.bytes.len() {
                Some(("stream-ends-inside-response", kept))
            } else {
                None
            }
        }
        // exactly one PDU disagrees with the others about the version: whichever
        // the client takes for the negotiated one, the next PDU at the latest
        // announces a wrong one
        Damage::Version { k, .. } => Some(("version-differs-from-negotiated", sc.bounds[(k + 2).min(n)])),
        Damage::Type { k, new } => {
            if type_no_cache_sends(new) {
                let len = sc.bounds[k + 1] - sc.bounds[k];
                Some(("type-no-cache-sends", sc.bounds[k] + len.max(32)))
            } else {
                None
            }
        }
        Damage::Length { k, announced } => {
            let impossible = match &sc.pdus[k] {
                Pdu::CacheResponse { .. } => announced != 8,
                Pdu::V4 { .. } => announced != 20,
                Pdu::V6 { .. } => announced != 32,
                Pdu::EndOfData { v, .. } => announced != if *v == 0 { 12 } else { 24 },
                Pdu::RouterKey { .. } => announced < 32,
                Pdu::Aspa { .. } => announced < 12 || (announced - 12) % 4 != 0,
                _ => false,
            };
            if impossible {
                Some(("length-impossible-for-type", sc.bounds[k].saturating_add((announced as usize).max(32))))
            } else {
                None
            }
        }
    }
}

fn damage_class(d: Damage, true_len: u32) -> String {
    match d {
        Damage::Intact => "intact".into(),
        Damage::Version { new, .. } => {
            if new <= 3 {
                format!("version->{}", new)
            } else {
                "version->4..255".into()
            }
        }
        Damage::Type { new, .. } => {
            if new <= 11 && new != 5 {
                format!("type->{}", new)
            } else {
                "type->unassigned".into()
            }
        }
        Damage::Length { announced, .. } => {
            if announced < 8 {
                "length->0..7".into()
            } else if announced.abs_diff(true_len) <= 4 {
                format!("length->true{:+}", announced as i64 - true_len as i64)
            } else if announced <= 40 {
                "length->8..40".into()
            } else if announced < 0x1_0000 {
                "length->41..65535".into()
            } else {
                "length->2^16..".into()
            }
        }
        Damage::Session { .. } => "session-changed".into(),
        Damage::Truncated { .. } => "truncated".into(),
    }
}

struct Outcome {
    pre_failed: Option<String>,
    end: &'static str,
    result: Option<Result<(), String>>,
    polls: u64,
    consumed: usize,
    reads_after_eof: u32,
    tripped: bool,
    applied_in_step: usize,
    items_in_step: usize,
    sent: Vec<u8>,
    panic: Option<String>,
}

/// Runs the scenario's client over `stream[..limit]`.
fn run_client(sc: &Scenario, stream: &[u8], limit: usize, chunking: &Chunking) -> Outcome {
    let sh = Arc::new(Mutex::new(Shared::default()));
    let peer = Peer::new(stream.to_vec(), limit, chunking.clone(), sh.clone());
    let state = sc.init_state.map(|(se, sn)| State::from_parts(se, Serial::from(sn)));
    let mut client = Client::with_initial_version(sc.client_version, peer, Tgt::default(), state);
    let budget = budget_for(stream.len());
    let mut out = Outcome {
        pre_failed: None,
        end: "done",
        result: None,
        polls: 0,
        consumed: 0,
        reads_after_eof: 0,
        tripped: false,
        applied_in_step: 0,
        items_in_step: 0,
        sent: Vec::new(),
        panic: None,
    };
    for _ in 0..sc.pre_steps {
        let r = catch(|| {
            let fut = std::pin::pin!(client.step());
            drive_counted(fut, budget)
        });
        match r {
            Ok(Driven::Done(Ok(()), _)) => {}
            Ok(Driven::Done(Err(e), _)) => out.pre_failed = Some(format!("Err({:?}: {})", e.kind(), e)),
            Ok(Driven::Budget(p)) => out.pre_failed = Some(format!("pending after {} polls", p)),
            Ok(Driven::Parked(p)) => out.pre_failed = Some(format!("parked after {} polls", p)),
            Err(text) => out.pre_failed = Some(format!("panic: {}", text)),
        }
        if out.pre_failed.is_some() {
            return out;
        }
    }
    let applied_before = client.target().applied.len();
    let r = catch(|| {
        let fut = std::pin::pin!(client.step());
        drive_counted(fut, budget)
    });
    match r {
        Ok(Driven::Done(res, polls)) => {
            out.polls = polls;
            out.result = Some(res.map_err(|e| format!("{:?}: {}", e.kind(), e)));
        }
        Ok(Driven::Budget(polls)) => {
            out.polls = polls;
            out.end = "budget";
        }
        Ok(Driven::Parked(polls)) => {
            out.polls = polls;
            out.end = "parked";
        }
        Err(text) => {
            out.end = "panic";
            out.panic = Some(text);
        }
    }
    let applied = &client.target().applied;
    out.applied_in_step = applied.len() - applied_before.min(applied.len());
    out.items_in_step = applied.iter().skip(applied_before).map(|a| a.1).sum();
    let g = sh.lock().unwrap_or_else(|e| e.into_inner());
    out.consumed = g.consumed;
    out.reads_after_eof = g.reads_after_eof;
    out.tripped = g.tripped;
    out.sent = g.out.clone();
    out
}

struct ConnMon {
    evals: u64,
    seen: HashSet<String>,
    strict_err: u64,
    open_ok: u64,
    open_err: u64,
    clean_ok: u64,
    clean_refused: u64,
    parked: u64,
    eof_reads_max: u32,
}

fn scenario_json(sc: &Scenario) -> Value {
    json!({
        "path": sc.path.name(),
        "response_version": sc.v,
        "client_initial_version": sc.client_version,
        "client_initial_state": sc.init_state.map(|(a, b)| format!("{}:{}", a, b)),
        "completed_steps_before": sc.pre_steps,
        "undamaged_octets_before_the_response_hex": hex_capped(&sc.pre, 512),
        "response_pdus": sc.pdus.iter().map(|p| p.to_json()).collect::<Vec<_>>(),
        "response_hex": hex_capped(&sc.bytes, 2048),
        "response_pdu_boundaries": sc.bounds,
    })
}

/// One client run over the damaged stream, judged.
fn judge_client(ctx: &mut Ctx, mon: &mut ConnMon, sc: &Scenario, d: Damage, chunking: &Chunking) {
    // build the stream
    let mut resp = sc.bytes.clone();
    let mut limit_in_resp = resp.len();
    let (k, true_len) = match d {
        Damage::Version { k, new } => {
            resp[sc.bounds[k]] = new;
            (k, 0)
        }
        Damage::Type { k, new } => {
            resp[sc.bounds[k] + 1] = new;
            (k, 0)
        }
        Damage::Session { k, new } => {
            resp[sc.bounds[k] + 2..sc.bounds[k] + 4].copy_from_slice(&new.to_be_bytes());
            (k, 0)
        }
        Damage::Length { k, announced } => {
            resp[sc.bounds[k] + 4..sc.bounds[k] + 8].copy_from_slice(&announced.to_be_bytes());
            (k, (sc.bounds[k + 1] - sc.bounds[k]) as u32)
        }
        Damage::Truncated { kept } => {
            limit_in_resp = kept;
            let k = sc.bounds.iter().rposition(|b| *b <= kept).unwrap_or(0).min(sc.pdus.len() - 1);
            (k, 0)
        }
        Damage::Intact => (0, 0),
    };
    if resp == sc.bytes && !matches!(d, Damage::Intact | Damage::Truncated { .. }) {
        return; // the overwrite changed nothing
    }
    let base = sc.pre.len();
    let mut stream = sc.pre.clone();
    stream.extend_from_slice(&resp);
    let limit = base + limit_in_resp;
    let o = run_client(sc, &stream, limit, chunking);
    mon.evals += 1;
    let dclass = damage_class(d, true_len);
    let pos = if d == Damage::Intact { "-" } else { position_name(sc, k) };
    let kind = if d == Damage::Intact { "-" } else { sc.pdus[k].name() };
    let class = format!("conn client {} v{} {} {}:{} {}", sc.path.name(), sc.v, dclass, pos, kind, chunking.label());
    if mon.seen.insert(class.clone()) {
        ctx.sig(&class);
    }
    if o.reads_after_eof > mon.eof_reads_max {
        mon.eof_reads_max = o.reads_after_eof;
    }
    let detail = |extra: Value| -> Value {
        json!({
            "scenario": scenario_json(sc),
            "damage": format!("{:?}", d),
            "damaged_pdu": if d == Damage::Intact { Value::Null } else { json!({"index": k, "position": pos, "pdu": sc.pdus[k].to_json()}) },
            "stream_hex": hex_capped(&stream, 4096),
            "stream_ends_after": limit,
            "delivery": format!("{:?}", chunking),
            "observed": extra,
        })
    };
    if let Some(why) = &o.pre_failed {
        // the undamaged exchange in front did not complete: nothing to judge
        ctx.obs("conn_client_undamaged_first_exchange_did_not_complete", 1);
        if ctx.wants_sample("conn-client-first-exchange-refused") {
            let v = detail(json!({"first_exchange": why}));
            ctx.sample("conn-client-first-exchange-refused", || v);
        }
        return;
    }
    let reader = sc.path.reader();
    if let Some(text) = &o.panic {
        ctx.violation(
            &format!("C07:panic:client-step:{}", panic_location(text)),
            &format!("Client::step panicked on a damaged response: {}", text),
            detail(json!({"panic": text})),
        );
        return;
    }
    if o.end == "budget" {
        ctx.violation(
            &format!("C07:client-step-no-completion-within-poll-budget:{}", reader),
            &format!("Client::step was still pending (and asking to be polled) after {} polls on a stream of {} octets", o.polls, limit),
            detail(json!({"polls": o.polls, "consumed": o.consumed, "reads_after_eof": o.reads_after_eof})),
        );
        return;
    }
    if o.tripped || o.reads_after_eof > EOF_READS_TOLERATED {
        ctx.violation(
            &format!("C07:client-keeps-reading-after-eof:{}", reader),
            &format!("Client::step read the stream {} times after it had ended (it only stopped because the mock socket turned the third read into an error)", o.reads_after_eof),
            detail(json!({"reads_after_eof": o.reads_after_eof, "consumed": o.consumed, "result": format!("{:?}", o.result)})),
        );
        return;
    }
    if o.end == "parked" {
        // waits for something the socket will never deliver (a timer): the
        // statement says "forever", a timer is not; recorded
        mon.parked += 1;
        if ctx.wants_sample("conn-client-parked") {
            let v = detail(json!({"polls": o.polls, "consumed": o.consumed}));
            ctx.sample("conn-client-parked", || v);
        }
        return;
    }
    let ok = matches!(o.result, Some(Ok(())));
    match must_fail(sc, d) {
        Some((reason, bound)) => {
            if ok {
                ctx.violation(
                    &format!("C07:client-accepts-damaged-response:{}:{}:{}", reader, reason, if matches!(d, Damage::Truncated { .. }) { "any" } else { position_class(sc, k) }),
                    &format!(
                        "Client::step returned Ok and handed {} items to the target although the response is damaged ({}: {:?} at PDU #{} {}, {})",
                        o.items_in_step, reason, d, k, kind, pos
                    ),
                    detail(json!({"result": "Ok", "target_apply_calls_in_step": o.applied_in_step, "items_handed_to_target": o.items_in_step, "consumed": o.consumed, "octets_sent_by_client_hex": hex_capped(&o.sent, 256)})),
                );
                return;
            }
            mon.strict_err += 1;
            if o.consumed > base + bound {
                ctx.violation(
                    &format!("C07:client-overread-on-damaged-response:{}:{}", reader, reason),
                    &format!("Client::step gave up only after taking {} octets of the response; the damaged PDU (and the one after it) end at {}", o.consumed.saturating_sub(base), bound),
                    detail(json!({"result": format!("{:?}", o.result), "consumed": o.consumed, "bound": base + bound})),
                );
                return;
            }
            if ctx.wants_sample("conn-client-damaged-refused") {
                let v = json!({"path": sc.path.name(), "version": sc.v, "damage": format!("{:?}", d), "position": pos, "pdu": kind, "header_hex": if matches!(d, Damage::Truncated { .. }) { String::new() } else { hex(&resp[sc.bounds[k]..sc.bounds[k] + 8]) },
                    "delivery": chunking.label(), "result": format!("{:?}", o.result), "octets_taken": o.consumed, "polls": o.polls});
                ctx.sample("conn-client-damaged-refused", || v);
            }
        }
        None => {
            if d == Damage::Intact {
                if ok {
                    mon.clean_ok += 1;
                } else {
                    mon.clean_refused += 1;
                    if ctx.wants_sample("conn-client-clean-response-refused") {
                        let v = detail(json!({"result": format!("{:?}", o.result)}));
                        ctx.sample("conn-client-clean-response-refused", || v);
                    }
                }
            } else if ok {
                mon.open_ok += 1;
                ctx.obs(&format!("conn_client_open_outcome_ok:{}", dclass), 1);
                if ctx.wants_sample("conn-client-open-case-accepted") {
                    let v = json!({"path": sc.path.name(), "version": sc.v, "damage": format!("{:?}", d), "position": pos, "pdu": kind, "header_hex": hex(&resp[sc.bounds[k]..sc.bounds[k] + 8]), "items_handed_to_target": o.items_in_step});
                    ctx.sample("conn-client-open-case-accepted", || v);
                }
            } else {
                mon.open_err += 1;
            }
        }
    }
}

fn client_faults(ctx: &mut Ctx, mon: &mut ConnMon, r: &mut Rng, sc: &Scenario, reduced: bool) {
    let n = sc.pdus.len();
    let script = random_script(r);
    let patterns: Vec<Chunking> = if reduced {
        vec![match r.below(3) {
            0 => Chunking::AllAtOnce,
            1 => Chunking::ByteWise,
            _ => script.clone(),
        }]
    } else {
        vec![Chunking::AllAtOnce, if r.bool() { Chunking::ByteWise } else { script.clone() }]
    };
    for (pi, chunking) in patterns.iter().enumerate() {
        judge_client(ctx, mon, sc, Damage::Intact, chunking);
        for k in 0..n {
            // version: the other two, the first unassigned, edges, a random one
            let mut versions: Vec<u8> = vec![0, 1, 2, 3, 4, 0x7F, 0x80, 0xFE, 0xFF, r.next_u32() as u8, r.next_u32() as u8];
            if reduced {
                versions = vec![(sc.v + 1) % 3, (sc.v + 2) % 3, 3];
            }
            versions.retain(|x| *x != sc.v);
            versions.sort();
            versions.dedup();
            for new in versions {
                judge_client(ctx, mon, sc, Damage::Version { k, new }, chunking);
            }
            if pi > 0 && !reduced {
                // the other delivery pattern repeats the version and truncation faults only
                continue;
            }
            let mut types: Vec<u8> = if reduced { vec![0, 5, 7, 10, 11, 0xFF] } else { (0..=13).chain([0x7F, 0x80, 0xFF, r.next_u32() as u8]).collect() };
            types.retain(|x| *x != sc.pdus[k].type_code());
            types.sort();
            types.dedup();
            for new in types {
                judge_client(ctx, mon, sc, Damage::Type { k, new }, chunking);
            }
            let t = (sc.bounds[k + 1] - sc.bounds[k]) as u32;
            let mut lens: Vec<u32> = if reduced {
                vec![0, 7, t - 1, t + 1, t + 4]
            } else {
                vec![0, 1, 7, 8, 9, 11, 12, 13, 16, 19, 20, 21, 23, 24, 25, 28, 31, 32, 33, 36, t.saturating_sub(4), t.saturating_sub(1), t + 1, t + 2, t + 3, t + 4, t + 8, 1024, 0xFFFF, 0x1_0000, 0x1_0004]
            };
            lens.retain(|x| *x != t);
            lens.sort();
            lens.dedup();
            for announced in lens {
                judge_client(ctx, mon, sc, Damage::Length { k, announced }, chunking);
            }
            let s = u16::from_be_bytes([sc.bytes[sc.bounds[k] + 2], sc.bytes[sc.bounds[k] + 3]]);
            for new in [s.wrapping_add(1), s ^ 0x8000, !s] {
                judge_client(ctx, mon, sc, Damage::Session { k, new }, chunking);
            }
        }
        // the server closes at every octet of the response
        for kept in 0..sc.bytes.len() {
            if reduced && kept > 48 && kept % 5 != 0 && !sc.bounds.contains(&kept) {
                continue;
            }
            judge_client(ctx, mon, sc, Damage::Truncated { kept }, chunking);
        }
    }
}

//------------ server side ------------------------------------------------------

struct SrcData {
    state: State,
    diff_from: State,
    full: Vec<Payload>,
    diff: Vec<(Payload, Action)>,
}

#[derive(Clone)]
struct Src(Arc<SrcData>);

struct FullIter(Arc<SrcData>, usize);
struct DiffIter(Arc<SrcData>, usize, usize);

impl PayloadSet for FullIter {
    fn next(&mut self) -> Option<PayloadRef<'_>> {
        let p = self.0.full.get(self.1)?;
        self.1 += 1;
        Some(p.as_ref())
    }
}

impl PayloadDiff for DiffIter {
    fn next(&mut self) -> Option<(PayloadRef<'_>, Action)> {
        if self.1 >= self.2 {
            return None;
        }
        let p = self.0.diff.get(self.1)?;
        self.1 += 1;
        Some((p.0.as_ref(), p.1))
    }
}

fn same_state(a: State, b: State) -> bool {
    a.session() == b.session() && u32::from(a.serial()) == u32::from(b.serial())
}

impl PayloadSource for Src {
    type Set = FullIter;
    type Diff = DiffIter;
    fn ready(&self) -> bool {
        true
    }
    fn notify(&self) -> State {
        self.0.state
    }
    fn full(&self) -> (State, FullIter) {
        (self.0.state, FullIter(self.0.clone(), 0))
    }
    fn diff(&self, state: State) -> Option<(State, DiffIter)> {
        if same_state(state, self.0.state) {
            Some((self.0.state, DiffIter(self.0.clone(), 0, 0)))
        } else if same_state(state, self.0.diff_from) {
            Some((self.0.state, DiffIter(self.0.clone(), 0, self.0.diff.len())))
        } else {
            None
        }
    }
    fn timing(&self) -> Timing {
        Timing { refresh: 3600, retry: 600, expire: 7200 }
    }
}

fn lib_payload(p: &Pdu) -> Option<Payload> {
    let (_, item) = crate::c07_lib::build(p);
    item
}

fn gen_source(r: &mut Rng) -> (Src, u16, u32) {
    let session = b16(r);
    let serial = b32(r);
    let mut full = Vec::new();
    let mut diff = Vec::new();
    for i in 0..4 {
        let mut p = gen_payload(r, 2, true);
        if i == 3 {
            // at least one PDU of a type that older versions do not carry
            while !matches!(p, Pdu::Aspa { .. } | Pdu::RouterKey { .. }) {
                p = gen_payload(r, 2, true);
            }
        }
        if let Some(it) = lib_payload(&p) {
            if i < 2 {
                diff.push((it.clone(), if i == 0 { Action::Announce } else { Action::Withdraw }));
            }
            if i != 1 {
                full.push(it);
            }
        }
    }
    let state = State::from_parts(session, Serial::from(serial));
    let diff_from = State::from_parts(session, Serial::from(serial.wrapping_sub(1)));
    (Src(Arc::new(SrcData { state, diff_from, full, diff })), session, serial)
}

/// A stream of what a router may send (and a few things it must not).
fn gen_queries(r: &mut Rng, session: u16, serial: u32) -> Vec<Pdu> {
    let v = r.below(3) as u8;
    let n = r.range(1, 3);
    let mut out = Vec::new();
    for i in 0..n {
        let v = if i > 0 && r.below(6) == 0 { (v + 1) % 3 } else { v };
        let p = match r.below(12) {
            0..=2 => Pdu::ResetQuery { v },
            3 | 4 => Pdu::SerialQuery { v, session, serial: serial.wrapping_sub(1) },
            5 => Pdu::SerialQuery { v, session, serial },
            6 => Pdu::SerialQuery { v, session: session.wrapping_add(1), serial: b32(r) },
            7 => Pdu::SerialQuery { v, session, serial: b32(r) },
            8 => {
                let n = r.range(0, 12) as usize;
                let m = r.range(0, 20) as usize;
                Pdu::Error { v, code: r.below(9) as u16, pdu: r.bytes(n), text: r.bytes(m) }
            }
            9 => Pdu::CacheResponse { v, session },
            10 => Pdu::ResetQuery { v: if r.bool() { 3 } else { 0xFF } },
            _ => Pdu::SerialNotify { v, session, serial },
        };
        out.push(p);
    }
    out
}

struct ServerOutcome {
    dropped: bool,
    turns: u64,
    parked: bool,
    reads_after_eof: u32,
    tripped: bool,
    consumed: usize,
    out_len: usize,
    overflow: bool,
    panic: Option<String>,
}

/// Runs `Server::run` with one connection that is given `stream[..limit]` and
/// then end of stream. `notify_at`: scheduler turn before which a
/// notification is fired.
fn run_server(src: &Src, stream: &[u8], limit: usize, chunking: &Chunking, notify_at: Option<u64>) -> ServerOutcome {
    take_last_panic();
    let sh = Arc::new(Mutex::new(Shared::default()));
    let peer = Peer::new(stream.to_vec(), limit, chunking.clone(), sh.clone());
    let rt = tokio::runtime::Builder::new_current_thread().enable_time().start_paused(true).build().expect("tokio runtime");
    let budget = budget_for(stream.len());
    let (turns, parked, gone) = rt.block_on(async {
        let mut sender = NotifySender::new();
        let listener = futures_util::stream::iter(vec![Ok::<Peer, io::Error>(peer)]);
        let server = Server::new(listener, sender.clone(), src.clone());
        let handle = tokio::spawn(server.run());
        let mut turns = 0u64;
        let mut calm = 0u32;
        let mut last = 0u64;
        let mut parked = false;
        let mut gone = false;
        loop {
            if notify_at == Some(turns) {
                sender.notify();
            }
            tokio::task::yield_now().await;
            turns += 1;
            let (dropped, activity) = {
                let g = sh.lock().unwrap_or_else(|e| e.into_inner());
                (g.dropped, g.activity)
            };
            if dropped {
                gone = true;
                break;
            }
            if turns >= budget {
                break;
            }
            if activity == last {
                calm += 1;
                if calm >= 16 && notify_at.map(|t| turns > t).unwrap_or(true) {
                    parked = true;
                    break;
                }
            } else {
                calm = 0;
                last = activity;
            }
        }
        handle.abort();
        (turns, parked, gone)
    });
    drop(rt);
    let g = sh.lock().unwrap_or_else(|e| e.into_inner());
    ServerOutcome {
        dropped: gone,
        turns,
        parked,
        reads_after_eof: g.reads_after_eof,
        tripped: g.tripped,
        consumed: g.consumed,
        out_len: g.out.len(),
        overflow: g.overflow,
        panic: take_last_panic(),
    }
}

fn cut_class(bounds: &[usize], cut: usize) -> String {
    let i = bounds.iter().rposition(|b| *b <= cut).unwrap_or(0);
    let off = cut - bounds[i];
    if off == 0 {
        if i + 1 == bounds.len() {
            "after-last-pdu".into()
        } else if i == 0 {
            "before-first-header".into()
        } else {
            format!("between-pdus-{}", i)
        }
    } else if off < 8 {
        format!("header+{}", off)
    } else {
        format!("body+{}", (off - 8).min(8))
    }
}

fn server_faults(ctx: &mut Ctx, mon: &mut ConnMon, r: &mut Rng, reduced: bool) {
    let (src, session, serial) = gen_source(r);
    let pdus = gen_queries(r, session, serial);
    let (bytes, bounds) = concat(&pdus);
    let script = random_script(r);
    let chunking = match r.below(3) {
        0 => Chunking::AllAtOnce,
        1 => Chunking::ByteWise,
        _ => script,
    };
    let names: Vec<&str> = pdus.iter().map(|p| p.name()).collect();
    for cut in 0..=bytes.len() {
        if reduced && cut % 3 != 0 && !bounds.contains(&cut) {
            continue;
        }
        let notify_at = if r.below(4) == 0 { Some(r.below(4)) } else { None };
        let o = run_server(&src, &bytes, cut, &chunking, notify_at);
        mon.evals += 1;
        let i = bounds.iter().rposition(|b| *b <= cut).unwrap_or(0).min(pdus.len() - 1);
        let class = format!("conn server in-{} v{} closes-{} {} notify={}", names[i], pdus[i].version().min(3), cut_class(&bounds, cut), chunking.label(), notify_at.is_some());
        if mon.seen.insert(class.clone()) {
            ctx.sig(&class);
        }
        if o.reads_after_eof > mon.eof_reads_max {
            mon.eof_reads_max = o.reads_after_eof;
        }
        let detail = |extra: Value| -> Value {
            json!({
                "query_stream_pdus": pdus.iter().map(|p| p.to_json()).collect::<Vec<_>>(),
                "query_stream_hex": hex_capped(&bytes, 1024),
                "pdu_boundaries": bounds,
                "peer_closes_after": cut,
                "delivery": format!("{:?}", chunking),
                "notification_before_scheduler_turn": notify_at,
                "observed": extra,
            })
        };
        let seen = json!({"connection_task_gone": o.dropped, "scheduler_turns": o.turns, "reads_after_eof": o.reads_after_eof, "octets_taken": o.consumed, "octets_written": o.out_len});
        if let Some(text) = &o.panic {
            ctx.violation(
                &format!("C07:panic:server-connection:{}", panic_location(text)),
                &format!("the server's connection task panicked on a query stream that ends early: {}", text),
                detail(json!({"panic": text, "seen": seen})),
            );
            return;
        }
        if o.tripped || o.reads_after_eof > EOF_READS_TOLERATED {
            ctx.violation(
                "C07:server-connection-keeps-reading-after-eof",
                &format!("the server's connection task read the query stream {} times after it had ended (it only stopped because the mock socket turned the third read into an error): on a real socket it spins", o.reads_after_eof),
                detail(seen),
            );
            return;
        }
        if o.parked {
            ctx.violation(
                "C07:server-connection-waits-after-eof",
                &format!("the peer closed after {} octets; {} scheduler turns later the connection task still exists and does nothing", cut, o.turns),
                detail(seen),
            );
            return;
        }
        if !o.dropped {
            ctx.violation(
                "C07:server-connection-no-completion-within-turn-budget",
                &format!("the peer closed after {} octets; the connection task was still running after {} scheduler turns", cut, o.turns),
                detail(seen),
            );
            return;
        }
        if o.overflow {
            ctx.obs("conn_server_output_limit_hit", 1);
        }
        ctx.obs_max("conn_server_scheduler_turns_until_connection_gone", o.turns);
        if cut < bytes.len() && ctx.wants_sample("conn-server-peer-closes-early") {
            let v = json!({"query_stream": names, "stream_len": bytes.len(), "peer_closes_after": cut, "position": cut_class(&bounds, cut), "delivery": chunking.label(), "seen": seen});
            ctx.sample("conn-server-peer-closes-early", || v);
        }
    }
}

//------------ entry ------------------------------------------------------------

pub fn run_conn(ctx: &mut Ctx) {
    let miri = ctx.stage == Stage::Miri;
    if miri && (ctx.tier == Tier::Quick || ctx.shard % 3 != 0) {
        // one client scenario with all its faults costs minutes under Miri;
        // the packed PDU structs are covered by the PDU-level Miri workload and
        // the client/server pair by C06's Miri stage. Thorough: every third shard.
        return;
    }
    let mut mon = ConnMon { evals: 0, seen: HashSet::new(), strict_err: 0, open_ok: 0, open_err: 0, clean_ok: 0, clean_refused: 0, parked: 0, eof_reads_max: 0 };
    let mut r = ctx.rng("connection-level");
    // client: scenarios per shard
    let scenarios = ctx.stage_budget((960, 24_000), 1_200, 12, 0);
    let paths = [Path::FreshReset, Path::FreshSerial, Path::FreshFallback, Path::NegotiatedSerial, Path::NegotiatedFallback];
    {
        // timers of the client need a runtime context; nothing ever drives it
        let rt = tokio::runtime::Builder::new_current_thread().enable_time().start_paused(true).build().expect("tokio runtime");
        let _guard = rt.enter();
        for i in 0..scenarios {
            // shards start at different places of the (path, version) grid
            let j = i + ctx.shard;
            let path = paths[(j % 5) as usize];
            let v = ((j / 5) % 3) as u8;
            let sc = gen_scenario(&mut r, path, v, if miri { 3 } else { 6 });
            ctx.breadcrumb(&format!("conn client scenario {} {} v{}", i, path.name(), v));
            client_faults(ctx, &mut mon, &mut r, &sc, miri);
        }
        // multi-exchange conversations (own PRNG stream, own counters)
        sess::run_sessions(ctx);
    }
    // server: query streams per shard, every cut
    let streams = ctx.stage_budget((640, 16_000), 800, 12, 0);
    for i in 0..streams {
        ctx.breadcrumb(&format!("conn server stream {}", i));
        server_faults(ctx, &mut mon, &mut r, miri);
    }
    ctx.evals(mon.evals);
    ctx.obs("conn_client_damaged_responses_refused_as_required", mon.strict_err);
    ctx.obs("conn_client_open_cases_accepted", mon.open_ok);
    ctx.obs("conn_client_open_cases_refused", mon.open_err);
    ctx.obs("conn_client_undamaged_responses_completed", mon.clean_ok);
    ctx.obs("conn_client_undamaged_responses_refused", mon.clean_refused);
    ctx.obs("conn_client_steps_parked_on_a_timer", mon.parked);
    ctx.obs_max("conn_reads_after_eof_in_one_stream", mon.eof_reads_max as u64);
    if mon.clean_refused > 0 {
        ctx.notes.push(format!("C07: {} undamaged response transcripts were refused by Client::step (see samples); the damaged variants of a refused transcript say little", mon.clean_refused));
    }
    if ctx.tier == Tier::Quick && mon.strict_err == 0 {
        ctx.notes.push("C07: connection-level workload refused no damaged response in this shard".into());
    }
}
