//! C04 — iterators of decoded values under the standard iterator adapters.
//!
//! The property puts "every accessor and iterator of a successfully decoded
//! value" under its no-panic / no-loop clause. A `for` loop only ever calls
//! `next()`; callers also write `skip(n)`, `step_by(n)`, `nth(n)`, `count()`,
//! `last()`, `collect()`, `rev()`, `len()`, and an iterator type may override
//! any of the methods behind those (`nth`, `size_hint`, `count`, `last`,
//! `fold`, `next_back`, `nth_back`, `len`) with a shortcut of its own. Such a
//! shortcut is arithmetic on positions, and it goes wrong where arithmetic
//! goes wrong: at the ends of the number space (a block ending at
//! AS4294967295, the block AS0, the whole space with its 2^32 members, the
//! last address) and for distances that run past the end of the sequence.
//!
//! This module is an interpreter for small *adapter programs* — a few
//! positioning calls (`next`, `nth(d)`, `size_hint`) on a fresh iterator
//! followed by one consuming adapter (`skip(d)…`, `step_by(d)…`, `take(d)…`,
//! `count`, `last`, `fold`, `collect`, `enumerate().nth`, `chain().nth`,
//! `peekable().nth`) — whose every result is compared with a **reference
//! obtained by plain `next()` stepping** on another fresh iterator of the same
//! value (bounded: the first `cap` items), extended, for the ASN iterators
//! only, by the arithmetic the block's own bounds prescribe (member `i` of
//! ASmin-ASmax is `min + i`), so that programs can be judged on blocks of
//! billions of members without walking them. Distances are given relative to
//! what remains (`Rem(-1)`, `Rem(0)`, `Rem(+1)`: to the last item, exactly to
//! the end, one past it) or absolutely (0, 1, 2^24, 2^32-1, 2^32,
//! usize::MAX). A program is only run when its cost *on an iterator without
//! any shortcut* (every `nth(n)` = n steps) fits the step budget; the few
//! walks over all 2^32 members are separate, budgeted probes.
//!
//! Iterators that also implement `DoubleEndedIterator` / `ExactSizeIterator`
//! get `rev`, `next_back`, `nth_back`, meeting in the middle and `len`
//! (found at compile time by method-resolution order, so the same harness
//! source compiles whether or not a given iterator type has those impls).
//!
//! Two users: the accessor sweep of `c04_eval.rs` runs a fixed plan over every
//! iterator of every accepted value (macro `laws!`), and `run_iter_laws`
//! below is a workload of its own: generated values whose members sit at the
//! ends of the number spaces, decoded through the library's entry points and
//! put under random programs.
//!
//! What is reported: a panic (by the caller's catch_unwind, signature = panic
//! site) and a result that differs from `next()` stepping
//! (`C04:iter-disagrees:<iterator>:<adapter>`): an adapter that yields items
//! the iteration does not have, or does not end where it ends, is how a
//! position shortcut makes `for x in it.step_by(n)` run on. `size_hint` is
//! held to its contract only (lower <= remaining <= upper): `collect` and
//! `extend` reserve memory for the lower bound.

use std::cell::Cell;
use std::marker::PhantomData;

pub const UMAX: usize = usize::MAX;
pub const U32MAX: usize = u32::MAX as usize;

//------------ what is being called right now (for panic attribution) --------

thread_local! {
    /// (iterator, adapter) the engine is inside of; read by the caller's
    /// panic handling so that a panic site deep inside the library can be
    /// reported together with the adapter call that led there.
    pub static CURRENT: Cell<(&'static str, &'static str)> = const { Cell::new(("", "")) };
}

#[inline]
fn at_work(iter: &'static str, adapter: &'static str) {
    CURRENT.with(|c| c.set((iter, adapter)));
}

pub fn current() -> Option<(&'static str, &'static str)> {
    let c = CURRENT.with(|c| c.get());
    if c.0.is_empty() {
        None
    } else {
        Some(c)
    }
}

/// `C04_NO_ITERLAWS` switches this module off (to measure what it costs;
/// experiments only, never set by the driver).
pub fn switched_off() -> bool {
    static OFF: std::sync::OnceLock<bool> = std::sync::OnceLock::new();
    *OFF.get_or_init(|| std::env::var_os("C04_NO_ITERLAWS").is_some())
}

pub fn clear_current() {
    CURRENT.with(|c| c.set(("", "")));
}

//------------ programs ------------------------------------------------------

/// A distance: absolute, or relative to the number of items that remain at
/// the moment the call is made (`Rem(0)` = exactly to the end: `nth(Rem(0))`
/// is the first call that must return `None`).
#[derive(Clone, Copy, Debug, PartialEq, Eq)]
pub enum Dist {
    Abs(usize),
    Rem(i32),
}

#[derive(Clone, Copy, Debug, PartialEq, Eq)]
pub enum Op {
    Next,
    Nth(Dist),
    Hint,
}

#[derive(Clone, Copy, Debug, PartialEq, Eq)]
pub enum Term {
    Stop,
    Count,
    Last,
    Fold,
    Collect,
    /// `skip(d)`, then `next()`, `size_hint()`, `next()`
    SkipNext(Dist),
    SkipCount(Dist),
    SkipLast(Dist),
    /// `skip(a).nth(b)` (a + b may exceed usize)
    SkipNth(Dist, Dist),
    /// `step_by(d)` and up to k items
    StepTake(Dist, usize),
    /// `step_by(d).nth(n)`
    StepNth(Dist, usize),
    TakeNth(Dist, Dist),
    TakeLast(Dist),
    TakeCount(Dist),
    EnumNth(Dist),
    /// `chain(fresh iterator of the same value).nth(d)`, d relative to what remains of the first
    ChainNth(Dist),
    PeekNth(Dist),
}

#[derive(Clone, Debug)]
pub struct Program {
    pub ops: Vec<Op>,
    pub term: Term,
}

fn prog(ops: &[Op], term: Term) -> Program {
    Program { ops: ops.to_vec(), term }
}

/// The fixed plan of the accessor sweep: every adapter, each with the
/// distances "to the last item", "exactly to the end", "past the end", the
/// powers of two a 32-bit position overflows at, and usize::MAX, from the
/// start and after a step or two.
pub fn fixed_plan() -> &'static [Program] {
    static PLAN: std::sync::OnceLock<Vec<Program>> = std::sync::OnceLock::new();
    PLAN.get_or_init(|| {
        use Dist::*;
        use Op::*;
        use Term::*;
        let mut p = Vec::new();
        p.push(prog(&[Hint, Nth(Abs(0)), Hint, Nth(Abs(1)), Hint, Next, Hint, Nth(Rem(1))], Stop));
        for d in [Rem(-1), Rem(0), Rem(1), Abs(UMAX), Abs(U32MAX), Abs(U32MAX + 1), Abs(UMAX - 1), Abs(U32MAX - 1)] {
            p.push(prog(&[Nth(d)], Stop));
        }
        p.push(prog(&[Next, Nth(Rem(0))], Stop));
        p.push(prog(&[Next, Nth(Abs(U32MAX))], Stop));
        p.push(prog(&[Next, Next, Nth(Abs(UMAX))], Stop));
        p.push(prog(&[Nth(Rem(-1)), Hint, Next], Stop));
        p.push(prog(&[Nth(Abs(1)), Nth(Rem(-1)), Hint, Nth(Abs(0))], Stop));
        for t in [Count, Last, Fold, Collect] {
            p.push(prog(&[], t));
        }
        for d in [Abs(1), Rem(-1), Rem(0), Rem(1), Abs(UMAX), Abs(U32MAX)] {
            p.push(prog(&[], SkipNext(d)));
        }
        p.push(prog(&[], SkipCount(Abs(1))));
        p.push(prog(&[], SkipCount(Rem(1))));
        p.push(prog(&[], SkipLast(Rem(-1))));
        p.push(prog(&[], SkipLast(Rem(0))));
        p.push(prog(&[], SkipNth(Abs(UMAX), Abs(UMAX))));
        p.push(prog(&[], SkipNth(Abs(1), Rem(-2))));
        p.push(prog(&[], SkipNth(Abs(1), Rem(-1))));
        for d in [Abs(1), Abs(2), Rem(-1), Rem(0), Rem(1), Abs(UMAX), Abs(U32MAX), Abs(1 << 24)] {
            p.push(prog(&[], StepTake(d, 8)));
        }
        p.push(prog(&[], StepNth(Abs(2), 1)));
        p.push(prog(&[], StepNth(Abs(UMAX), 1)));
        p.push(prog(&[], StepNth(Abs(3), U32MAX)));
        p.push(prog(&[], TakeNth(Rem(1), Rem(0))));
        p.push(prog(&[], TakeNth(Abs(2), Abs(UMAX))));
        p.push(prog(&[], TakeLast(Rem(1))));
        p.push(prog(&[], TakeLast(Abs(2))));
        p.push(prog(&[], TakeCount(Abs(UMAX))));
        p.push(prog(&[], EnumNth(Rem(-1))));
        p.push(prog(&[], EnumNth(Rem(0))));
        p.push(prog(&[], ChainNth(Rem(0))));
        p.push(prog(&[], ChainNth(Abs(UMAX))));
        p.push(prog(&[], PeekNth(Rem(-1))));
        p.push(prog(&[], PeekNth(Rem(0))));
        p.push(prog(&[Next], SkipNext(Rem(0))));
        p.push(prog(&[Next], StepTake(Rem(0), 4)));
        p.push(prog(&[Next], Count));
        p.push(prog(&[Next, Nth(Abs(0))], Last));
        p
    })
}

/// Distances the random programs draw from.
pub fn random_dist(rng: &mut crate::core::Rng) -> Dist {
    match rng.below(16) {
        0 => Dist::Abs(0),
        1 => Dist::Abs(1),
        2 => Dist::Abs(2 + rng.usize_below(6)),
        3 => Dist::Abs(rng.usize_below(300)),
        4 => Dist::Abs(rng.usize_below(1 << 20)),
        5 => Dist::Rem(-2),
        6 | 7 => Dist::Rem(-1),
        8 | 9 => Dist::Rem(0),
        10 => Dist::Rem(1),
        11 => Dist::Rem(2 + rng.below(40) as i32),
        12 => Dist::Abs(UMAX - rng.usize_below(2)),
        13 => Dist::Abs((U32MAX - 1) + rng.usize_below(3)),
        14 => Dist::Abs(1usize << (8 * (1 + rng.usize_below(7)))),
        _ => Dist::Abs((1usize << 31) - 1 + rng.usize_below(3)),
    }
}

pub fn random_program(rng: &mut crate::core::Rng) -> Program {
    let n_ops = match rng.below(8) {
        0 | 1 => 0,
        2..=4 => 1,
        5 | 6 => 2,
        _ => 3 + rng.usize_below(3),
    };
    let mut ops = Vec::with_capacity(n_ops);
    for _ in 0..n_ops {
        ops.push(match rng.below(6) {
            0 | 1 => Op::Next,
            2 => Op::Hint,
            _ => Op::Nth(random_dist(rng)),
        });
    }
    let d = random_dist(rng);
    let term = match rng.below(20) {
        0 => Term::Stop,
        1 => Term::Count,
        2 => Term::Last,
        3 => Term::Fold,
        4 => Term::Collect,
        5 | 6 => Term::SkipNext(d),
        7 => Term::SkipCount(d),
        8 => Term::SkipLast(d),
        9 => Term::SkipNth(d, random_dist(rng)),
        10..=12 => Term::StepTake(d, 1 + rng.usize_below(12)),
        13 => Term::StepNth(d, *rng.pick(&[0usize, 1, 2, 3, 255, U32MAX, UMAX])),
        14 => Term::TakeNth(d, random_dist(rng)),
        15 => Term::TakeLast(d),
        16 => Term::TakeCount(d),
        17 => Term::EnumNth(d),
        18 => Term::ChainNth(d),
        _ => Term::PeekNth(d),
    };
    Program { ops, term }
}

//------------ reference -----------------------------------------------------

/// Member `i` as the reference has it.
#[derive(Clone, Copy, Debug, PartialEq, Eq)]
pub enum At {
    Item(u64),
    End,
    /// beyond the stepped prefix of a sequence whose length is not known
    Unknown,
}

/// What plain `next()` stepping yields (keys of the first items), and, for the
/// ASN iterators, the arithmetic continuation.
pub struct Reference<'m> {
    pub known: Vec<u64>,
    pub complete: bool,
    pub model: Option<&'m dyn Fn(u64) -> Option<u64>>,
    pub model_len: Option<u64>,
    /// the model was offered but contradicted by stepping (then it is not used)
    pub model_rejected: bool,
}

impl<'m> Reference<'m> {
    pub fn by_stepping<I: Iterator>(
        name: &'static str,
        mk: &impl Fn() -> I,
        key: &impl Fn(&I::Item) -> u64,
        cap: usize,
        model: Option<(&'m dyn Fn(u64) -> Option<u64>, u64)>,
    ) -> Self {
        at_work(name, "next");
        let mut it = mk();
        let mut known = Vec::new();
        let mut complete = false;
        loop {
            match it.next() {
                Some(x) => {
                    if known.len() == cap {
                        break;
                    }
                    known.push(key(&x));
                }
                None => {
                    complete = true;
                    break;
                }
            }
        }
        let mut r = Reference { known, complete, model: None, model_len: None, model_rejected: false };
        if let Some((f, len)) = model {
            let fits = r.known.iter().enumerate().all(|(i, k)| f(i as u64) == Some(*k))
                && (if r.complete { len == r.known.len() as u64 } else { len > r.known.len() as u64 })
                && f(len).is_none();
            if fits {
                r.model = Some(f);
                r.model_len = Some(len);
            } else {
                r.model_rejected = true;
            }
        }
        r
    }

    pub fn len(&self) -> Option<u128> {
        if self.complete {
            Some(self.known.len() as u128)
        } else {
            self.model_len.map(|l| l as u128)
        }
    }

    pub fn at(&self, i: u128) -> At {
        if i < self.known.len() as u128 {
            return At::Item(self.known[i as usize]);
        }
        if self.complete {
            return At::End;
        }
        match (self.model, self.model_len) {
            (Some(f), Some(len)) => {
                if i >= len as u128 {
                    At::End
                } else {
                    match f(i as u64) {
                        Some(k) => At::Item(k),
                        None => At::End,
                    }
                }
            }
            _ => At::Unknown,
        }
    }
}

//------------ results -------------------------------------------------------

#[derive(Clone, Debug)]
pub struct LawBreak {
    pub iter: &'static str,
    pub adapter: &'static str,
    pub text: String,
}

#[derive(Clone, Copy, Debug, Default)]
pub struct Stats {
    pub iters: u64,
    pub programs: u64,
    pub compared: u64,
    pub past_end: u64,
    pub ends_at_top: u64,
    pub starts_at_zero: u64,
    pub longer_than_prefix: u64,
    pub modelled: u64,
    pub model_rejected: u64,
    pub not_run_cost: u64,
    pub not_run_unknown: u64,
    pub double_ended: u64,
    pub exact_size: u64,
    pub hints: u64,
}

impl Stats {
    pub fn add(&mut self, o: &Stats) {
        self.iters += o.iters;
        self.programs += o.programs;
        self.compared += o.compared;
        self.past_end += o.past_end;
        self.ends_at_top += o.ends_at_top;
        self.starts_at_zero += o.starts_at_zero;
        self.longer_than_prefix += o.longer_than_prefix;
        self.modelled += o.modelled;
        self.model_rejected += o.model_rejected;
        self.not_run_cost += o.not_run_cost;
        self.not_run_unknown += o.not_run_unknown;
        self.double_ended += o.double_ended;
        self.exact_size += o.exact_size;
        self.hints += o.hints;
    }

    pub fn pairs(&self) -> [(&'static str, u64); 14] {
        [
            ("iterlaws:iterators_put_under_adapters", self.iters),
            ("iterlaws:adapter_programs_run", self.programs),
            ("iterlaws:adapter_results_compared_with_next_stepping", self.compared),
            ("iterlaws:jumps_that_ran_past_the_end", self.past_end),
            ("iterlaws:asn_iterators_ending_at_AS4294967295", self.ends_at_top),
            ("iterlaws:asn_iterators_starting_at_AS0", self.starts_at_zero),
            ("iterlaws:iterators_longer_than_the_stepped_prefix", self.longer_than_prefix),
            ("iterlaws:iterators_judged_with_the_arithmetic_continuation", self.modelled),
            ("iterlaws:arithmetic_continuation_contradicted_by_stepping(not_used)", self.model_rejected),
            ("iterlaws:programs_not_run(cost_without_shortcut_over_budget)", self.not_run_cost),
            ("iterlaws:programs_not_run(target_beyond_known_prefix)", self.not_run_unknown),
            ("iterlaws:double_ended_iterators_probed(rev,next_back,nth_back)", self.double_ended),
            ("iterlaws:exact_size_iterators_probed(len)", self.exact_size),
            ("iterlaws:size_hints_checked", self.hints),
        ]
    }
}

pub struct Laws {
    /// iterators the engine may still look at (per evaluation)
    pub iters_left: u32,
    /// steps one program may cost on an iterator without shortcuts
    pub walk: u64,
    /// steps all programs of this evaluation together may cost
    pub walk_total: u64,
    /// items stepped for the reference
    pub cap: usize,
    pub stats: Stats,
    pub breaks: Vec<LawBreak>,
    /// programs run on every iterator in addition to the fixed plan
    pub extra: Vec<Program>,
}

impl Laws {
    pub fn new(iters: u32, walk: u64, cap: usize) -> Self {
        Laws { iters_left: iters, walk, walk_total: walk.saturating_mul(64), cap, stats: Stats::default(), breaks: Vec::new(), extra: Vec::new() }
    }

    pub fn off() -> Self {
        Laws::new(0, 0, 0)
    }

    pub fn open(&mut self) -> bool {
        if self.iters_left == 0 {
            return false;
        }
        self.iters_left -= 1;
        true
    }

    fn broke(&mut self, iter: &'static str, adapter: &'static str, text: String) {
        if self.breaks.len() < 6 {
            self.breaks.push(LawBreak { iter, adapter, text });
        }
    }
}

//------------ interpreter ---------------------------------------------------

struct Cur<'a, 'm> {
    name: &'static str,
    r: &'a Reference<'m>,
    pos: u128,
    walk: u64,
    trace: Vec<(&'static str, u128)>,
}

enum Flow {
    Go,
    Ended,
    NoCost,
    NoKnow,
    Broke,
}

fn dist_text(n: u128) -> String {
    if n == UMAX as u128 {
        "usize::MAX".into()
    } else if n > UMAX as u128 {
        format!("usize::MAX+{}", n - UMAX as u128)
    } else if n == U32MAX as u128 {
        "u32::MAX".into()
    } else if n > 1 << 20 {
        format!("{:#x}", n)
    } else {
        n.to_string()
    }
}

impl<'a, 'm> Cur<'a, 'm> {
    fn rem(&self) -> Option<u128> {
        self.r.len().map(|l| l.saturating_sub(self.pos))
    }

    fn prefix_rem(&self) -> u128 {
        (self.r.known.len() as u128).saturating_sub(self.pos)
    }

    fn resolve(&self, d: Dist) -> Option<usize> {
        match d {
            Dist::Abs(n) => Some(n),
            Dist::Rem(k) => {
                let base = match self.rem() {
                    Some(r) => r,
                    None => {
                        if k >= 0 {
                            return None;
                        }
                        self.prefix_rem()
                    }
                };
                let v = base as i128 + k as i128;
                if v < 0 {
                    return None;
                }
                usize::try_from(v).ok()
            }
        }
    }

    /// May a jump of `n` from the current position be made: its result known
    /// to the reference and its cost without any shortcut within the budget?
    fn reach(&mut self, n: u128, extra: u64) -> Result<At, Flow> {
        let target = self.pos.saturating_add(n);
        let exp = self.r.at(target);
        if exp == At::Unknown {
            return Err(Flow::NoKnow);
        }
        let cost = match self.rem() {
            Some(rem) => n.min(rem),
            None => n,
        };
        if cost.saturating_add(extra as u128) > self.walk as u128 {
            return Err(Flow::NoCost);
        }
        self.walk -= cost as u64 + extra;
        Ok(exp)
    }

    fn story(&self) -> String {
        let mut s = String::new();
        for (i, (k, n)) in self.trace.iter().enumerate() {
            if i > 0 {
                s.push('.');
            }
            if k.ends_with('(') {
                s.push_str(k);
                s.push_str(&dist_text(*n));
                s.push(')');
            } else {
                s.push_str(k);
            }
        }
        s
    }

    fn shape(&self) -> String {
        match self.r.len() {
            Some(l) => format!("{} items by next() stepping{}", l, if self.r.complete { "" } else { " (first items stepped, the rest by the block's bounds)" }),
            None => format!("more than {} items", self.r.known.len()),
        }
    }

    fn differ(&self, laws: &mut Laws, adapter: &'static str, got: String, exp: String) -> Flow {
        laws.broke(
            self.name,
            adapter,
            format!("{} on an iterator of {}: {} where next() stepping gives {}", self.story(), self.shape(), got, exp),
        );
        Flow::Broke
    }

    fn check(&mut self, laws: &mut Laws, adapter: &'static str, got: Option<u64>, exp: At) -> bool {
        laws.stats.compared += 1;
        match (got, exp) {
            (Some(g), At::Item(e)) if g == e => true,
            (None, At::End) => {
                laws.stats.past_end += 1;
                true
            }
            (_, At::Unknown) => true,
            (g, e) => {
                let show = |o: Option<u64>| match o {
                    Some(k) => format!("Some(item with key {:#x})", k),
                    None => "None".into(),
                };
                let exp = match e {
                    At::Item(k) => show(Some(k)),
                    _ => "None".into(),
                };
                self.differ(laws, adapter, show(g), exp);
                false
            }
        }
    }

    fn check_hint(&self, laws: &mut Laws, h: (usize, Option<usize>), consumed_extra: u128, adapter: &'static str) -> bool {
        laws.stats.hints += 1;
        let (lo, hi) = h;
        let pos = self.pos.saturating_add(consumed_extra);
        let against = if let Some(l) = self.r.len() {
            let rem = l.saturating_sub(pos);
            (lo as u128) > rem || hi.map(|h| (h as u128) < rem).unwrap_or(false)
        } else {
            let pr = (self.r.known.len() as u128).saturating_sub(pos);
            hi.map(|h| (h as u128) < pr).unwrap_or(false)
        };
        let bad = against || hi.map(|h| h < lo).unwrap_or(false);
        if bad {
            self.differ(
                laws,
                adapter,
                format!("size_hint() = ({}, {:?})", lo, hi),
                match self.r.len() {
                    Some(l) => format!("{} remaining items", l.saturating_sub(pos)),
                    None => format!("at least {} remaining items", (self.r.known.len() as u128).saturating_sub(pos)),
                },
            );
        }
        !bad
    }
}

fn step<I: Iterator>(it: &mut I, key: &impl Fn(&I::Item) -> u64, op: Op, c: &mut Cur, laws: &mut Laws) -> Flow {
    match op {
        Op::Next => {
            let exp = match c.reach(0, 1) {
                Ok(e) => e,
                Err(f) => return f,
            };
            c.trace.push(("next()", 0));
            at_work(c.name, "next");
            let got = it.next().map(|x| key(&x));
            if !c.check(laws, "next", got, exp) {
                return Flow::Broke;
            }
            if exp == At::End {
                return Flow::Ended;
            }
            c.pos += 1;
            Flow::Go
        }
        Op::Nth(d) => {
            let Some(n) = c.resolve(d) else { return Flow::NoKnow };
            let exp = match c.reach(n as u128, 1) {
                Ok(e) => e,
                Err(f) => return f,
            };
            c.trace.push(("nth(", n as u128));
            at_work(c.name, "nth");
            let got = it.nth(n).map(|x| key(&x));
            if !c.check(laws, "nth", got, exp) {
                return Flow::Broke;
            }
            if exp == At::End {
                return Flow::Ended;
            }
            c.pos += n as u128 + 1;
            Flow::Go
        }
        Op::Hint => {
            c.trace.push(("size_hint()", 0));
            at_work(c.name, "size_hint");
            let h = it.size_hint();
            if !c.check_hint(laws, h, 0, "size_hint") {
                return Flow::Broke;
            }
            Flow::Go
        }
    }
}

/// Runs one program on a fresh iterator.
pub fn run_program<I: Iterator, M: Fn() -> I, K: Fn(&I::Item) -> u64>(
    name: &'static str,
    mk: &M,
    key: &K,
    r: &Reference,
    p: &Program,
    laws: &mut Laws,
) {
    let granted = laws.walk.min(laws.walk_total);
    let mut c = Cur { name, r, pos: 0, walk: granted, trace: Vec::with_capacity(8) };
    let flow = program_on_fresh(mk, key, p, &mut c, laws);
    laws.walk_total -= granted - c.walk;
    match flow {
        Flow::NoCost => laws.stats.not_run_cost += 1,
        Flow::NoKnow => laws.stats.not_run_unknown += 1,
        _ => laws.stats.programs += 1,
    }
}

fn program_on_fresh<I: Iterator, M: Fn() -> I, K: Fn(&I::Item) -> u64>(mk: &M, key: &K, p: &Program, c: &mut Cur, laws: &mut Laws) -> Flow {
    let name = c.name;
    at_work(name, "new");
    let mut it = mk();
    for op in &p.ops {
        match step(&mut it, key, *op, c, laws) {
            Flow::Go => {}
            Flow::Ended => {
                // after the end: results are the iterator's own business
                // (it need not be fused), panicking is not
                at_work(name, "next-after-end");
                let _ = it.next();
                at_work(name, "nth-after-end");
                let _ = it.nth(1);
                at_work(name, "size_hint-after-end");
                let _ = it.size_hint();
                return Flow::Ended;
            }
            other => return other,
        }
    }
    terminal(it, mk, key, p.term, c, laws)
}

/// Keys of members `from`, `from+1`, … (at most `n`), stopping at the end.
fn keys_from(r: &Reference, from: u128, n: u128) -> Vec<u64> {
    let mut v = Vec::new();
    let mut i = from;
    while (i - from) < n {
        match r.at(i) {
            At::Item(k) => v.push(k),
            _ => break,
        }
        i += 1;
    }
    v
}

fn fold_of(keys: impl Iterator<Item = u64>) -> (u64, u64) {
    let mut n = 0u64;
    let mut h = 0u64;
    for k in keys {
        n += 1;
        h = h.wrapping_add(k.wrapping_mul(n | 1));
    }
    (n, h)
}

fn terminal<I: Iterator, M: Fn() -> I, K: Fn(&I::Item) -> u64>(it: I, mk: &M, key: &K, term: Term, c: &mut Cur, laws: &mut Laws) -> Flow {
    let name = c.name;
    macro_rules! need {
        ($e:expr) => {
            match $e {
                Some(v) => v,
                None => return Flow::NoKnow,
            }
        };
    }
    macro_rules! reach {
        ($n:expr, $extra:expr) => {
            match c.reach($n, $extra) {
                Ok(e) => e,
                Err(f) => return f,
            }
        };
    }
    let ok = |b: bool| if b { Flow::Go } else { Flow::Broke };
    match term {
        Term::Stop => Flow::Go,
        Term::Count => {
            let rem = need!(c.rem());
            reach!(rem, 1);
            c.trace.push(("count()", 0));
            at_work(name, "count");
            let got = it.count();
            laws.stats.compared += 1;
            if got as u128 != rem {
                return c.differ(laws, "count", format!("{}", got), format!("{} remaining items", rem));
            }
            Flow::Go
        }
        Term::Last => {
            let rem = need!(c.rem());
            reach!(rem, 1);
            let exp = if rem == 0 { At::End } else { c.r.at(c.pos + rem - 1) };
            c.trace.push(("last()", 0));
            at_work(name, "last");
            let got = it.last().map(|x| key(&x));
            ok(c.check(laws, "last", got, exp))
        }
        Term::Fold => {
            let rem = need!(c.rem());
            reach!(rem, 1);
            let exp = fold_of((0..rem).filter_map(|i| match c.r.at(c.pos + i) {
                At::Item(k) => Some(k),
                _ => None,
            }));
            c.trace.push(("fold(..)", 0));
            at_work(name, "fold");
            let got = it.fold((0u64, 0u64), |(n, h), x| {
                let n = n + 1;
                (n, h.wrapping_add(key(&x).wrapping_mul(n | 1)))
            });
            laws.stats.compared += 1;
            if got != exp {
                return c.differ(laws, "fold", format!("{} items, digest {:#x}", got.0, got.1), format!("{} items, digest {:#x}", exp.0, exp.1));
            }
            Flow::Go
        }
        Term::Collect => {
            let rem = need!(c.rem());
            // the collected items and the expected keys are the harness's own
            // memory inside the caller's heap window: keep them small
            if rem > (laws.cap as u128).max(16) {
                return Flow::NoCost;
            }
            reach!(rem, 1);
            let exp = keys_from(c.r, c.pos, rem);
            c.trace.push(("collect::<Vec<_>>()", 0));
            at_work(name, "collect");
            let got: Vec<u64> = it.collect::<Vec<_>>().iter().map(|x| key(x)).collect();
            laws.stats.compared += 1;
            if got != exp {
                return c.differ(laws, "collect", format!("{} items", got.len()), format!("{} items (or other items)", exp.len()));
            }
            Flow::Go
        }
        Term::SkipNext(d) => {
            let n = need!(c.resolve(d));
            let e1 = reach!(n as u128, 2);
            c.trace.push(("skip(", n as u128));
            at_work(name, "skip");
            let mut s = it.skip(n);
            c.trace.push(("next()", 0));
            let g1 = s.next().map(|x| key(&x));
            if !c.check(laws, "skip", g1, e1) {
                return Flow::Broke;
            }
            if e1 == At::End {
                at_work(name, "skip-after-end");
                let _ = s.next();
                let _ = s.size_hint();
                return Flow::Go;
            }
            c.trace.push(("size_hint()", 0));
            let h = s.size_hint();
            if !c.check_hint(laws, h, n as u128 + 1, "skip") {
                return Flow::Broke;
            }
            c.trace.pop();
            c.trace.push(("next()", 0));
            let e2 = c.r.at(c.pos + n as u128 + 1);
            let g2 = s.next().map(|x| key(&x));
            ok(c.check(laws, "skip", g2, e2))
        }
        Term::SkipCount(d) => {
            let n = need!(c.resolve(d));
            let rem = need!(c.rem());
            reach!(rem, 1);
            c.trace.push(("skip(", n as u128));
            c.trace.push(("count()", 0));
            at_work(name, "skip");
            let got = it.skip(n).count();
            laws.stats.compared += 1;
            let exp = rem.saturating_sub(n as u128);
            if n as u128 >= rem {
                laws.stats.past_end += 1;
            }
            if got as u128 != exp {
                return c.differ(laws, "skip", format!("{}", got), format!("{} items after the skipped ones", exp));
            }
            Flow::Go
        }
        Term::SkipLast(d) => {
            let n = need!(c.resolve(d));
            let rem = need!(c.rem());
            reach!(rem, 1);
            let exp = if (n as u128) < rem { c.r.at(c.pos + rem - 1) } else { At::End };
            c.trace.push(("skip(", n as u128));
            c.trace.push(("last()", 0));
            at_work(name, "skip");
            let got = it.skip(n).last().map(|x| key(&x));
            ok(c.check(laws, "skip", got, exp))
        }
        Term::SkipNth(a, b) => {
            let a = need!(c.resolve(a));
            let b = need!(c.resolve(b));
            let exp = reach!(a as u128 + b as u128, 2);
            c.trace.push(("skip(", a as u128));
            c.trace.push(("nth(", b as u128));
            at_work(name, "skip");
            let got = it.skip(a).nth(b).map(|x| key(&x));
            ok(c.check(laws, "skip", got, exp))
        }
        Term::StepTake(d, k) => {
            let s = need!(c.resolve(d)).max(1);
            c.trace.push(("step_by(", s as u128));
            // first item: one step; every further one: min(s, what remains) steps
            reach!(0, 1);
            at_work(name, "step_by");
            let mut sb = it.step_by(s);
            let h = sb.size_hint();
            {
                // StepBy derives its hint from the inner one: hold it to the contract as well
                laws.stats.hints += 1;
                if let Some(rem) = c.rem() {
                    let n = if rem == 0 { 0 } else { (rem - 1) / s as u128 + 1 };
                    if (h.0 as u128) > n || h.1.map(|x| (x as u128) < n).unwrap_or(false) {
                        return c.differ(laws, "step_by", format!("size_hint() = ({}, {:?})", h.0, h.1), format!("{} items at this stride", n));
                    }
                }
            }
            for j in 0..k as u128 {
                let idx = c.pos + j * s as u128;
                let exp = c.r.at(idx);
                if exp == At::Unknown {
                    break;
                }
                if j > 0 {
                    let cost = match c.r.len() {
                        Some(l) => (s as u128).min(l.saturating_sub(idx - s as u128)),
                        None => s as u128,
                    };
                    if cost > c.walk as u128 {
                        break;
                    }
                    c.walk -= cost as u64;
                }
                c.trace.push(("next()", 0));
                let got = sb.next().map(|x| key(&x));
                if !c.check(laws, "step_by", got, exp) {
                    return Flow::Broke;
                }
                if exp == At::End {
                    break;
                }
            }
            Flow::Go
        }
        Term::StepNth(d, n) => {
            let s = need!(c.resolve(d)).max(1);
            // std's StepBy::nth falls into a subtraction loop of up to `step`
            // rounds when step * (n + 1) does not fit usize: not the library's time
            if (s as u128) * (n as u128 + 1) > UMAX as u128 {
                return Flow::NoCost;
            }
            let exp = reach!((s as u128).saturating_mul(n as u128), 2);
            c.trace.push(("step_by(", s as u128));
            c.trace.push(("nth(", n as u128));
            at_work(name, "step_by");
            let got = it.step_by(s).nth(n).map(|x| key(&x));
            ok(c.check(laws, "step_by", got, exp))
        }
        Term::TakeNth(k, n) => {
            let k = need!(c.resolve(k));
            let n = need!(c.resolve(n));
            let exp = if n < k { reach!(n as u128, 1) } else {
                reach!(k as u128, 1);
                At::End
            };
            c.trace.push(("take(", k as u128));
            c.trace.push(("nth(", n as u128));
            at_work(name, "take");
            let got = it.take(k).nth(n).map(|x| key(&x));
            ok(c.check(laws, "take", got, exp))
        }
        Term::TakeLast(k) => {
            let k = need!(c.resolve(k));
            let m = match c.rem() {
                Some(rem) => (k as u128).min(rem),
                None => {
                    if k as u128 > c.prefix_rem() {
                        return Flow::NoKnow;
                    }
                    k as u128
                }
            };
            reach!(m, 1);
            let exp = if m == 0 { At::End } else { c.r.at(c.pos + m - 1) };
            c.trace.push(("take(", k as u128));
            c.trace.push(("last()", 0));
            at_work(name, "take");
            let got = it.take(k).last().map(|x| key(&x));
            ok(c.check(laws, "take", got, exp))
        }
        Term::TakeCount(k) => {
            let k = need!(c.resolve(k));
            let m = match c.rem() {
                Some(rem) => (k as u128).min(rem),
                None => {
                    if k as u128 > c.prefix_rem() {
                        return Flow::NoKnow;
                    }
                    k as u128
                }
            };
            reach!(m, 1);
            c.trace.push(("take(", k as u128));
            c.trace.push(("count()", 0));
            at_work(name, "take");
            let got = it.take(k).count();
            laws.stats.compared += 1;
            if got as u128 != m {
                return c.differ(laws, "take", format!("{}", got), format!("{}", m));
            }
            Flow::Go
        }
        Term::EnumNth(d) => {
            let n = need!(c.resolve(d));
            let exp = reach!(n as u128, 1);
            c.trace.push(("enumerate()", 0));
            c.trace.push(("nth(", n as u128));
            at_work(name, "enumerate");
            let got = it.enumerate().nth(n);
            if let Some((i, _)) = &got {
                if *i != n {
                    return c.differ(laws, "enumerate", format!("index {}", i), format!("index {}", n));
                }
            }
            let got = got.map(|(_, x)| key(&x));
            ok(c.check(laws, "enumerate", got, exp))
        }
        Term::ChainNth(d) => {
            let n = need!(c.resolve(d));
            let rem = need!(c.rem());
            let len = need!(c.r.len());
            // members of the first part, then those of a fresh iterator from its start
            let (exp, cost) = if (n as u128) < rem {
                (c.r.at(c.pos + n as u128), n as u128)
            } else {
                (c.r.at(n as u128 - rem), (n as u128).min(rem + len))
            };
            if cost + 2 > c.walk as u128 {
                return Flow::NoCost;
            }
            c.trace.push(("chain(fresh)", 0));
            c.trace.push(("nth(", n as u128));
            at_work(name, "chain");
            let got = it.chain(mk()).nth(n).map(|x| key(&x));
            ok(c.check(laws, "chain", got, exp))
        }
        Term::PeekNth(d) => {
            let n = need!(c.resolve(d));
            let exp = reach!(n as u128, 2);
            let e0 = c.r.at(c.pos);
            c.trace.push(("peekable()", 0));
            c.trace.push(("peek()", 0));
            at_work(name, "peekable");
            let mut p = it.peekable();
            let g0 = p.peek().map(|x| key(x));
            if !c.check(laws, "peekable", g0, e0) {
                return Flow::Broke;
            }
            c.trace.push(("nth(", n as u128));
            let got = p.nth(n).map(|x| key(&x));
            ok(c.check(laws, "peekable", got, exp))
        }
    }
}

/// Counts one iterator source.
pub fn note_source(r: &Reference, laws: &mut Laws) {
    laws.stats.iters += 1;
    if !r.complete {
        laws.stats.longer_than_prefix += 1;
    }
    if r.model.is_some() {
        laws.stats.modelled += 1;
    }
    if r.model_rejected {
        laws.stats.model_rejected += 1;
    }
}

/// Runs a plan over one iterator source.
pub fn run_plan<I: Iterator, M: Fn() -> I, K: Fn(&I::Item) -> u64>(name: &'static str, mk: &M, key: &K, r: &Reference, plan: &[Program], laws: &mut Laws) {
    for p in plan {
        if !laws.breaks.is_empty() {
            break;
        }
        run_program(name, mk, key, r, p, laws);
    }
}

//------------ DoubleEndedIterator / ExactSizeIterator, where implemented ----

/// Carrier for the probes that need more than `Iterator`. Which impl of
/// `back` / `exact` a call `(&probe).back(..)` resolves to is decided by
/// method-resolution order at the (non-generic) call site: the impl on
/// `Probe<..>` itself (bounded by the extra trait) if the bound holds,
/// otherwise the do-nothing impl on `&Probe<..>`.
pub struct Probe<'a, 'm, I: Iterator, M, K> {
    pub name: &'static str,
    pub mk: &'a M,
    pub key: &'a K,
    pub r: &'a Reference<'m>,
    _p: PhantomData<fn() -> I>,
}

impl<'a, 'm, I: Iterator, M: Fn() -> I, K: Fn(&I::Item) -> u64> Probe<'a, 'm, I, M, K> {
    pub fn new(name: &'static str, mk: &'a M, key: &'a K, r: &'a Reference<'m>) -> Self {
        Probe { name, mk, key, r, _p: PhantomData }
    }
}

pub trait BackYes {
    fn back(&self, laws: &mut Laws);
}

pub trait BackNo {
    fn back(&self, laws: &mut Laws);
}

pub trait ExactYes {
    fn exact(&self, laws: &mut Laws);
}

pub trait ExactNo {
    fn exact(&self, laws: &mut Laws);
}

impl<I: Iterator, M, K> BackNo for &Probe<'_, '_, I, M, K> {
    fn back(&self, _laws: &mut Laws) {}
}

impl<I: Iterator, M, K> ExactNo for &Probe<'_, '_, I, M, K> {
    fn exact(&self, _laws: &mut Laws) {}
}

impl<I: DoubleEndedIterator, M: Fn() -> I, K: Fn(&I::Item) -> u64> BackYes for Probe<'_, '_, I, M, K> {
    fn back(&self, laws: &mut Laws) {
        let Some(len) = self.r.len() else { return };
        laws.stats.double_ended += 1;
        let name = self.name;
        let key = self.key;
        let r = self.r;
        let walk = laws.walk as u128;
        let mut c = Cur { name, r, pos: 0, walk: laws.walk, trace: Vec::new() };
        let from_back = |j: u128| if j < len { r.at(len - 1 - j) } else { At::End };
        // rev(): the last items, then past the front
        {
            c.trace.clear();
            c.trace.push(("rev()", 0));
            at_work(name, "rev");
            let mut rv = (self.mk)().rev();
            for j in 0..(len + 1).min(5) {
                c.trace.push(("next()", 0));
                let got = rv.next().map(|x| key(&x));
                if !c.check(laws, "rev", got, from_back(j)) {
                    return;
                }
            }
        }
        // nth_back at and past the front end
        let ds: [u128; 8] = [0, 1, len.saturating_sub(1), len, len + 1, UMAX as u128, U32MAX as u128, U32MAX as u128 + 1];
        for n in ds {
            if n.min(len) > walk || n > UMAX as u128 {
                continue;
            }
            c.trace.clear();
            c.trace.push(("nth_back(", n));
            at_work(name, "nth_back");
            let mut it = (self.mk)();
            let got = it.nth_back(n as usize).map(|x| key(&x));
            if !c.check(laws, "nth_back", got, from_back(n)) {
                return;
            }
            if n < len {
                // what is left in front of it
                c.trace.push(("size_hint()", 0));
                let h = it.size_hint();
                let rest = len - 1 - n;
                laws.stats.hints += 1;
                if (h.0 as u128) > rest || h.1.map(|x| (x as u128) < rest).unwrap_or(false) {
                    c.differ(laws, "nth_back", format!("size_hint() = ({}, {:?})", h.0, h.1), format!("{} remaining items", rest));
                    return;
                }
            } else {
                at_work(name, "next_back-after-end");
                let _ = it.next_back();
            }
        }
        // both ends towards the middle: every member once
        if len <= walk.min(4096) {
            c.trace.clear();
            c.trace.push(("next()/next_back() alternating", 0));
            at_work(name, "next_back");
            let mut it = (self.mk)();
            let (mut f, mut b) = (0u128, 0u128);
            let mut front = true;
            loop {
                let got = if front { it.next() } else { it.next_back() }.map(|x| key(&x));
                let exp = if f + b >= len { At::End } else if front { r.at(f) } else { from_back(b) };
                if !c.check(laws, "next_back", got, exp) {
                    return;
                }
                if exp == At::End {
                    break;
                }
                if front {
                    f += 1
                } else {
                    b += 1
                }
                front = !front;
            }
            // rev().count(), rev().last(), rfold
            c.trace.clear();
            c.trace.push(("rev()", 0));
            c.trace.push(("count()", 0));
            at_work(name, "rev");
            let n = (self.mk)().rev().count();
            laws.stats.compared += 1;
            if n as u128 != len {
                c.differ(laws, "rev", format!("{}", n), format!("{} items", len));
                return;
            }
            c.trace.pop();
            c.trace.push(("last()", 0));
            let got = (self.mk)().rev().last().map(|x| key(&x));
            if !c.check(laws, "rev", got, if len == 0 { At::End } else { r.at(0) }) {
                return;
            }
            c.trace.clear();
            c.trace.push(("rfold(..)", 0));
            at_work(name, "rfold");
            let got = (self.mk)().rfold((0u64, 0u64), |(n, h), x| {
                let n = n + 1;
                (n, h.wrapping_add(key(&x).wrapping_mul(n | 1)))
            });
            let exp = fold_of((0..len).filter_map(|j| match from_back(j) {
                At::Item(k) => Some(k),
                _ => None,
            }));
            laws.stats.compared += 1;
            if got != exp {
                c.differ(laws, "rfold", format!("{} items, digest {:#x}", got.0, got.1), format!("{} items, digest {:#x}", exp.0, exp.1));
                return;
            }
        }
        // a step from the front, then from the back, then past what is left
        if len >= 1 {
            c.trace.clear();
            c.trace.push(("next()", 0));
            at_work(name, "next_back");
            let mut it = (self.mk)();
            let g = it.next().map(|x| key(&x));
            if !c.check(laws, "next", g, r.at(0)) {
                return;
            }
            c.trace.push(("next_back()", 0));
            let g = it.next_back().map(|x| key(&x));
            if !c.check(laws, "next_back", g, if len >= 2 { from_back(0) } else { At::End }) {
                return;
            }
            if len >= 2 && len - 2 <= walk {
                c.trace.push(("nth_back(", len - 2));
                at_work(name, "nth_back");
                let g = it.nth_back((len - 2) as usize).map(|x| key(&x));
                if !c.check(laws, "nth_back", g, At::End) {
                    return;
                }
            }
        }
        // rev() under skip / step_by
        for n in [len.saturating_sub(1), len, UMAX as u128] {
            if n.min(len) > walk {
                continue;
            }
            c.trace.clear();
            c.trace.push(("rev()", 0));
            c.trace.push(("skip(", n));
            c.trace.push(("next()", 0));
            at_work(name, "rev");
            let got = (self.mk)().rev().skip(n as usize).next().map(|x| key(&x));
            if !c.check(laws, "rev", got, from_back(n)) {
                return;
            }
        }
    }
}

impl<I: ExactSizeIterator, M: Fn() -> I, K: Fn(&I::Item) -> u64> ExactYes for Probe<'_, '_, I, M, K> {
    fn exact(&self, laws: &mut Laws) {
        laws.stats.exact_size += 1;
        let name = self.name;
        let r = self.r;
        let mut c = Cur { name, r, pos: 0, walk: laws.walk, trace: Vec::new() };
        let mut it = (self.mk)();
        let mut consumed = 0u128;
        for round in 0..3 {
            c.trace.push(("len()", 0));
            at_work(name, "len");
            let got = it.len() as u128;
            laws.stats.compared += 1;
            let bad = match r.len() {
                Some(l) => got != l.saturating_sub(consumed),
                None => got < (r.known.len() as u128).saturating_sub(consumed),
            };
            if bad {
                c.differ(
                    laws,
                    "len",
                    format!("{}", got),
                    match r.len() {
                        Some(l) => format!("{} remaining items", l.saturating_sub(consumed)),
                        None => format!("more than {} remaining items", (r.known.len() as u128).saturating_sub(consumed)),
                    },
                );
                return;
            }
            c.trace.pop();
            if round == 0 {
                c.trace.push(("next()", 0));
                at_work(name, "next");
                if it.next().is_none() {
                    return;
                }
                consumed += 1;
            } else if round == 1 {
                // to the last item, if that is affordable
                let Some(l) = r.len() else { return };
                let rest = l.saturating_sub(consumed);
                if rest == 0 || rest > laws.walk as u128 {
                    return;
                }
                c.trace.push(("nth(", rest - 1));
                at_work(name, "nth");
                if it.nth((rest - 1) as usize).is_none() {
                    return;
                }
                consumed = l;
            }
        }
    }
}

/// Reference by stepping, the fixed plan plus `laws.extra`, and the probes for
/// the optional iterator traits, over one iterator source. `$mk` must be a
/// closure giving a fresh iterator of the value, `$key` a closure from
/// `&Item` to a `u64` that tells items apart, `$model` `None` or
/// `Some((&member_fn, length))`. Must be expanded where the iterator type is
/// concrete (not inside a function generic over it).
macro_rules! c04_laws {
    ($laws:expr, $name:expr, $mk:expr, $key:expr, $model:expr) => {{
        #[allow(unused_imports)]
        use $crate::c04::c04_iter::{BackNo as _, BackYes as _, ExactNo as _, ExactYes as _};
        let laws: &mut $crate::c04::c04_iter::Laws = $laws;
        if laws.open() {
            let mk = $mk;
            let key = $key;
            let model: Option<(&dyn Fn(u64) -> Option<u64>, u64)> = $model;
            let r = $crate::c04::c04_iter::Reference::by_stepping($name, &mk, &key, laws.cap, model);
            $crate::c04::c04_iter::note_source(&r, laws);
            $crate::c04::c04_iter::run_plan($name, &mk, &key, &r, $crate::c04::c04_iter::fixed_plan(), laws);
            if !laws.extra.is_empty() {
                let extra = std::mem::take(&mut laws.extra);
                $crate::c04::c04_iter::run_plan($name, &mk, &key, &r, &extra, laws);
                laws.extra = extra;
            }
            if laws.breaks.is_empty() {
                let probe = $crate::c04::c04_iter::Probe::new($name, &mk, &key, &r);
                (&probe).back(laws);
                (&probe).exact(laws);
            }
            $crate::c04::c04_iter::clear_current();
        }
    }};
}


//------------ models of the ASN iterators -----------------------------------

/// Member `i` of ASlo-AShi.
pub fn as_block_model(lo: u32, hi: u32) -> (impl Fn(u64) -> Option<u64>, u64) {
    let (lo, hi) = (lo as u64, hi as u64);
    (move |i: u64| if lo <= hi && i <= hi - lo { Some(lo + i) } else { None }, if lo <= hi { hi - lo + 1 } else { 0 })
}

/// Member `i` of the concatenation of blocks (what `iter_asns` walks).
pub fn as_blocks_model(blocks: Vec<(u32, u32)>) -> (impl Fn(u64) -> Option<u64>, u64) {
    let blocks: Vec<(u64, u64)> = blocks.into_iter().filter(|(a, b)| a <= b).map(|(a, b)| (a as u64, b as u64)).collect();
    let total: u64 = blocks.iter().map(|(a, b)| b - a + 1).sum();
    (
        move |mut i: u64| {
            for (a, b) in &blocks {
                let n = b - a + 1;
                if i < n {
                    return Some(a + i);
                }
                i -= n;
            }
            None
        },
        total,
    )
}

pub fn mix(a: u64, b: u64) -> u64 {
    (a ^ 0x9E37_79B9_7F4A_7C15).wrapping_mul(0x0100_0000_01b3).rotate_left(23) ^ b.wrapping_mul(0xff51_afd7_ed55_8ccd)
}

pub fn mix128(a: u128, b: u128) -> u64 {
    mix(mix(a as u64, (a >> 64) as u64), mix(b as u64, (b >> 64) as u64))
}

//------------ every iterator of a decoded value ------------------------------
//
// Called by the accessor sweep (c04_eval.rs, `every = false`: the members at
// both ends of a list and those that touch an end of the number space) and by
// the workload below (`every = true`). The iterator types are concrete here,
// which is what the macro needs.

use bytes::Bytes;
use rpki::repository::aspa::AsProviderAttestation;
use rpki::repository::crl::{CrlEntry, RevokedCertificates};
use rpki::repository::manifest::{FileAndHash, ManifestContent, ManifestHash};
use rpki::repository::resources::{AsBlock, AsBlocks, Asn, IpBlock, IpBlocks, Prefix};
use rpki::repository::roa::{FriendlyRoaIpAddress, RoaIpAddress, RouteOriginAttestation};
use rpki::repository::tal::{Tal, TalUri};
use rpki::resources::asn::SmallAsnSet;
use rpki::uri;

use crate::core::fnv64;

pub fn asn_key(a: &Asn) -> u64 {
    a.into_u32() as u64
}

pub fn prefix_key(p: &Prefix) -> u64 {
    mix128(p.addr().to_bits(), p.addr_len() as u128)
}

fn hkey<T: std::hash::Hash>(t: &T) -> u64 {
    use std::hash::Hasher;
    let mut h = std::collections::hash_map::DefaultHasher::new();
    t.hash(&mut h);
    h.finish()
}

/// The ASN iterators of a block list: `iter` / `into_iter` of the blocks, the
/// list iterator and `iter_asns`.
pub fn laws_as(laws: &mut Laws, b: &AsBlocks, every: bool) {
    if laws.iters_left == 0 {
        return;
    }
    let total = b.iter().take(4097).count();
    let mut edge = 0u32;
    for (i, blk) in b.iter().take(4096).enumerate() {
        let (lo, hi) = (blk.min().into_u32(), blk.max().into_u32());
        let at_edge = lo == 0 || hi >= u32::MAX - 1;
        if !(every || i < 3 || i + 3 >= total || (at_edge && edge < 6)) {
            continue;
        }
        if at_edge {
            edge += 1;
        }
        if hi == u32::MAX {
            laws.stats.ends_at_top += 1;
        }
        if lo == 0 {
            laws.stats.starts_at_zero += 1;
        }
        let (f, len) = as_block_model(lo, hi);
        c04_laws!(&mut *laws, "AsBlock::iter", || blk.iter(), asn_key, Some((&f, len)));
        c04_laws!(&mut *laws, "AsBlock::into_iter", || blk.into_iter(), asn_key, Some((&f, len)));
    }
    c04_laws!(&mut *laws, "AsBlocks::iter", || b.iter(), |x: &AsBlock| ((x.min().into_u32() as u64) << 32) | x.max().into_u32() as u64, None);
    if total <= 4096 {
        let (f, len) = as_blocks_model(b.iter().map(|x| (x.min().into_u32(), x.max().into_u32())).collect());
        c04_laws!(&mut *laws, "AsBlocks::iter_asns", || b.iter_asns(), asn_key, Some((&f, len)));
    } else {
        c04_laws!(&mut *laws, "AsBlocks::iter_asns", || b.iter_asns(), asn_key, None);
    }
}

/// The list iterator and the prefix decomposition of the ranges.
pub fn laws_ip(laws: &mut Laws, b: &IpBlocks, v4: bool, every: bool) {
    if laws.iters_left == 0 {
        return;
    }
    c04_laws!(&mut *laws, "IpBlocks::iter", || b.iter(), |x: &IpBlock| mix128(x.min().to_bits(), x.max().to_bits()), None);
    let total = b.iter().take(4097).count();
    for (i, blk) in b.iter().take(4096).enumerate() {
        if !(every || i < 2 || i + 2 >= total) {
            continue;
        }
        if let IpBlock::Range(r) = blk {
            if v4 {
                c04_laws!(&mut *laws, "AddressRange::to_v4_prefixes", || r.to_v4_prefixes(), prefix_key, None);
            } else {
                c04_laws!(&mut *laws, "AddressRange::to_v6_prefixes", || r.to_v6_prefixes(), prefix_key, None);
            }
        }
    }
}

pub fn laws_revoked(laws: &mut Laws, r: &RevokedCertificates) {
    c04_laws!(
        &mut *laws,
        "RevokedCertificates::iter",
        || r.iter(),
        |e: &CrlEntry| mix(fnv64(&e.user_certificate.into_array()), e.revocation_date.timestamp() as u64),
        None
    );
}

pub fn laws_mft(laws: &mut Laws, m: &ManifestContent, base: &uri::Rsync) {
    c04_laws!(
        &mut *laws,
        "ManifestContent::iter",
        || m.iter(),
        |f: &FileAndHash<Bytes, Bytes>| mix(fnv64(f.file().as_ref()), fnv64(f.hash().as_ref())),
        None
    );
    c04_laws!(
        &mut *laws,
        "ManifestContent::iter_uris",
        || m.iter_uris(base),
        |p: &(uri::Rsync, ManifestHash)| mix(fnv64(p.0.as_str().as_bytes()), fnv64(p.1.as_slice())),
        None
    );
}

pub fn laws_roa(laws: &mut Laws, c: &RouteOriginAttestation) {
    let k = |a: &RoaIpAddress| mix(prefix_key(&a.prefix()), a.max_length().map(|m| m as u64 + 1).unwrap_or(0));
    c04_laws!(&mut *laws, "RoaIpAddresses::iter(v4)", || c.v4_addrs().iter(), k, None);
    c04_laws!(&mut *laws, "RoaIpAddresses::iter(v6)", || c.v6_addrs().iter(), k, None);
    c04_laws!(
        &mut *laws,
        "RouteOriginAttestation::iter",
        || c.iter(),
        |f: &FriendlyRoaIpAddress| mix(prefix_key(&f.prefix()), ((f.max_length() as u64) << 1) | f.is_v4() as u64),
        None
    );
    c04_laws!(&mut *laws, "RouteOriginAttestation::iter_origins", || c.iter_origins(), |o: &rpki::rtr::payload::RouteOrigin| hkey(o), None);
}

pub fn laws_aspa(laws: &mut Laws, c: &AsProviderAttestation) {
    let set = c.provider_as_set();
    c04_laws!(&mut *laws, "ProviderAsSet::iter", || set.iter(), asn_key, None);
    if set.len() > 4096 || laws.iters_left == 0 {
        return;
    }
    let small = set.to_set();
    c04_laws!(&mut *laws, "SmallAsnSet::iter", || small.iter(), asn_key, None);
    // the set-operation iterators against a set that shares the first provider
    // and holds both ends of the AS number space
    let mut other: Vec<Asn> = vec![Asn::from_u32(0)];
    other.extend(small.iter().next());
    other.push(Asn::from_u32(u32::MAX));
    other.sort();
    other.dedup();
    let other = SmallAsnSet::from_iter(other);
    c04_laws!(&mut *laws, "SmallAsnSet::difference", || small.difference(&other), asn_key, None);
    c04_laws!(&mut *laws, "SmallAsnSet::symmetric_difference", || small.symmetric_difference(&other), asn_key, None);
    c04_laws!(&mut *laws, "SmallAsnSet::intersection", || small.intersection(&other), asn_key, None);
    c04_laws!(&mut *laws, "SmallAsnSet::union", || small.union(&other), asn_key, None);
}

pub fn laws_tal(laws: &mut Laws, t: &Tal) {
    c04_laws!(&mut *laws, "Tal::uris", || t.uris(), |u: &&TalUri| fnv64(u.as_str().as_bytes()), None);
}

pub fn laws_octets(laws: &mut Laws, s: &bcder::OctetString) {
    c04_laws!(&mut *laws, "OctetString::iter", || s.iter(), |x: &&[u8]| fnv64(x), None);
    c04_laws!(&mut *laws, "OctetString::octets", || s.octets(), |x: &u8| *x as u64, None);
}

//------------ the workload ---------------------------------------------------
//
// Values whose members sit at the ends of the number spaces, written by the
// independent DER writer, decoded through the library's entry points, every
// iterator of the decoded value under the fixed plan plus random programs.

use super::c04_eval::Ep;
use super::{catch2, hex, panic_sig, unhex, Case, Mon, Seed, EVAL_STARTED_AT};
use crate::c02_cms as cms;
use crate::c03_gen::Flavour;
use crate::core::{Ctx, Rng, Stage, Tier};
use crate::der;
use crate::keys::PoolSigner;
use bcder::Mode;
use rpki::repository::resources::{AddressFamily, AsResources};
use serde_json::{json, Value};
use std::sync::atomic::Ordering;

#[derive(Clone, Copy, Debug, PartialEq, Eq)]
pub enum Kind {
    AsBlocksDer,
    AsBlocksBer,
    AsResDer,
    AsResBer,
    V4,
    V6,
    Mft,
    Revoked,
    Roa,
    Aspa,
}

const KINDS: [Kind; 10] =
    [Kind::AsBlocksDer, Kind::AsBlocksBer, Kind::AsResDer, Kind::AsResBer, Kind::V4, Kind::V6, Kind::Mft, Kind::Revoked, Kind::Roa, Kind::Aspa];

impl Kind {
    pub fn name(self) -> &'static str {
        match self {
            Kind::AsBlocksDer => "as-blocks-der",
            Kind::AsBlocksBer => "as-blocks-ber",
            Kind::AsResDer => "as-identifiers-der",
            Kind::AsResBer => "as-identifiers-ber",
            Kind::V4 => "v4-blocks",
            Kind::V6 => "v6-blocks",
            Kind::Mft => "manifest-content",
            Kind::Revoked => "revoked-certificates",
            Kind::Roa => "roa",
            Kind::Aspa => "aspa",
        }
    }

    pub fn from_name(s: &str) -> Option<Kind> {
        KINDS.iter().copied().find(|k| k.name() == s)
    }

    /// The entry point of the ordinary evaluation the same bytes belong to.
    fn ep(self) -> Ep {
        match self {
            Kind::AsBlocksDer | Kind::AsResDer => Ep::AsResDer,
            Kind::AsBlocksBer | Kind::AsResBer => Ep::AsResBer,
            Kind::V4 | Kind::V6 => Ep::IpResDer,
            Kind::Mft => Ep::MftContentDer,
            Kind::Revoked => Ep::CrlTbsDer,
            Kind::Roa => Ep::RoaRelaxed,
            Kind::Aspa => Ep::AspaRelaxed,
        }
    }
}

/// Decodes and puts every iterator of the value under `laws`. Returns whether
/// the decoder produced a value.
fn decode_and_check(kind: Kind, data: &[u8], laws: &mut Laws, base: &uri::Rsync) -> bool {
    at_work("decode", kind.name());
    match kind {
        Kind::AsBlocksDer | Kind::AsBlocksBer => {
            let m = if kind == Kind::AsBlocksBer { Mode::Ber } else { Mode::Der };
            match m.decode(data, AsBlocks::take_from) {
                Ok(b) => {
                    laws_as(laws, &b, true);
                    true
                }
                Err(_) => false,
            }
        }
        Kind::AsResDer | Kind::AsResBer => {
            let m = if kind == Kind::AsResBer { Mode::Ber } else { Mode::Der };
            match m.decode(data, AsResources::take_from) {
                Ok(r) => {
                    if let Ok(b) = r.to_blocks() {
                        laws_as(laws, &b, true);
                    }
                    true
                }
                Err(_) => false,
            }
        }
        Kind::V4 => match Mode::Der.decode(data, |c| IpBlocks::take_from_with_family(c, AddressFamily::Ipv4)) {
            Ok(b) => {
                laws_ip(laws, &b, true, true);
                true
            }
            Err(_) => false,
        },
        Kind::V6 => match Mode::Der.decode(data, IpBlocks::take_from) {
            Ok(b) => {
                laws_ip(laws, &b, false, true);
                true
            }
            Err(_) => false,
        },
        Kind::Mft => match Mode::Der.decode(data, ManifestContent::take_from) {
            Ok(m) => {
                laws_mft(laws, &m, base);
                true
            }
            Err(_) => false,
        },
        Kind::Revoked => match Mode::Der.decode(data, RevokedCertificates::take_from) {
            Ok(r) => {
                laws_revoked(laws, &r);
                true
            }
            Err(_) => false,
        },
        Kind::Roa => match rpki::repository::roa::Roa::decode(data, false) {
            Ok(r) => {
                laws_roa(laws, r.content());
                true
            }
            Err(_) => false,
        },
        Kind::Aspa => match rpki::repository::aspa::Aspa::decode(data, false) {
            Ok(a) => {
                laws_aspa(laws, a.content());
                if let Ok(b) = a.content().as_resources().to_blocks() {
                    laws_as(laws, &b, true);
                }
                true
            }
            Err(_) => false,
        },
    }
}

/// An AS number near an end of the number space (or anywhere).
fn as_edge(rng: &mut Rng) -> u64 {
    const MAX: u64 = u32::MAX as u64;
    match rng.below(12) {
        0..=2 => MAX,
        3 => MAX - 1,
        4 => MAX - rng.below(8),
        5 => MAX - rng.below(5000),
        6 => rng.below(3),
        7 => 65534 + rng.below(4),
        8 => (1u64 << 31) - 1 + rng.below(3),
        9 => rng.below(1 << 32),
        10 => rng.below(100_000),
        _ => (1u64 << (1 + rng.below(32))) - 1,
    }
}

fn as_size(rng: &mut Rng) -> u64 {
    match rng.below(10) {
        0 | 1 => 1,
        2 => 2,
        3 => 1 + rng.below(8),
        4 => 1 + rng.below(300),
        5 => 1 + rng.below(5000),
        6 => 1 + rng.below(70_000),
        7 => 1 + rng.below(1 << 22),
        8 => 1 << 33, // down to AS0
        _ => 1 + rng.below(1 << 32),
    }
}

/// A list of AS blocks: each ends at an edge value and reaches down by one of
/// the size classes; three in four lists are what a conforming encoder writes
/// (ascending, not touching), the rest are left as drawn.
fn gen_as_list(rng: &mut Rng, small_only: bool) -> (Vec<(u128, u128)>, String) {
    let n = *rng.pick(&[1usize, 1, 1, 2, 2, 3, 4, 6, 12]);
    let mut v: Vec<(u64, u64)> = Vec::new();
    for _ in 0..n {
        let hi = as_edge(rng);
        let mut size = as_size(rng);
        if small_only {
            size = size.min(40);
        }
        let lo = hi.saturating_sub(size - 1);
        v.push((lo, hi));
    }
    let canonical = rng.chance(3, 4);
    if canonical {
        v.sort();
        let mut out: Vec<(u64, u64)> = Vec::new();
        for (lo, hi) in v {
            match out.last() {
                Some((_, phi)) if lo <= phi + 1 => {}
                _ => out.push((lo, hi)),
            }
        }
        v = out;
    }
    let top = v.iter().any(|b| b.1 == u32::MAX as u64);
    let zero = v.iter().any(|b| b.0 == 0);
    let whole = v.iter().any(|b| b.0 == 0 && b.1 == u32::MAX as u64);
    let big = v.iter().map(|b| b.1 - b.0 + 1).max().unwrap_or(0);
    let size_class = match big {
        0..=1 => "ids",
        2..=64 => "<=64",
        65..=4096 => "<=4096",
        4097..=65536 => "<=2^16",
        65537..=4194304 => "<=2^22",
        _ => ">2^22",
    };
    let label = format!(
        "{}|{}blocks|largest{}|top={}|zero={}|whole={}",
        if canonical { "canonical" } else { "as-drawn" },
        v.len().min(7),
        size_class,
        top as u8,
        zero as u8,
        whole as u8
    );
    (v.into_iter().map(|(a, b)| (a as u128, b as u128)).collect(), label)
}

fn gen_mft(rng: &mut Rng, small_only: bool) -> (Vec<u8>, String) {
    let n = if small_only { *rng.pick(&[0usize, 1, 2, 3]) } else { *rng.pick(&[0usize, 1, 1, 2, 3, 5, 9, 33, 64, 65, 200, 257]) };
    let exts = ["roa", "cer", "crl", "asa", "mft", "gbr"];
    let entries: Vec<cms::MftEntry> = (0..n)
        .map(|i| {
            let name = format!("f{:05}-{}.{}", i, rng.below(97), exts[i % exts.len()]);
            let mut hash = [0u8; 32];
            hash[..8].copy_from_slice(&rng.next_u64().to_be_bytes());
            cms::MftEntry::new(name.as_bytes(), &hash)
        })
        .collect();
    let t0 = cms::unix_from_civil(2025, 1, 1, 0, 0, 0);
    let t1 = cms::unix_from_civil(2033, 1, 1, 0, 0, 0);
    (cms::manifest_econtent(1 + rng.below(1 << 40), t0, t1, &entries), format!("{}files", class_n(n)))
}

fn class_n(n: usize) -> &'static str {
    match n {
        0 => "0",
        1 => "1",
        2 => "2",
        3..=8 => "3-8",
        9..=64 => "9-64",
        65..=256 => "65-256",
        _ => ">256",
    }
}

fn gen_revoked(rng: &mut Rng, small_only: bool) -> (Vec<u8>, String) {
    let n = if small_only { *rng.pick(&[0usize, 1, 2, 3]) } else { *rng.pick(&[0usize, 1, 1, 2, 3, 5, 9, 33, 64, 65, 200, 257]) };
    let when = cms::x509_time(cms::unix_from_civil(2024, 5, 1, 0, 0, 0));
    let entries: Vec<Vec<u8>> = (0..n)
        .map(|_| {
            // serial numbers at the ends of what the type holds (20 octets)
            let serial: Vec<u8> = match rng.below(8) {
                0 => vec![0],
                1 => vec![1],
                2 => vec![0x7F],
                3 => vec![0x80],
                4 => vec![0xFF; 8],
                5 => {
                    let mut s = vec![0x7F];
                    s.extend_from_slice(&[0xFF; 19]);
                    s
                }
                6 => {
                    let n = 1 + rng.usize_below(19);
                    rng.bytes(n)
                }
                _ => rng.next_u64().to_be_bytes().to_vec(),
            };
            der::seq(&[&der::uint_be(&serial), &when])
        })
        .collect();
    (der::seq_of(&entries), format!("{}entries", class_n(n)))
}

fn gen_roa_content(rng: &mut Rng) -> (Vec<u8>, String) {
    let mut v4: Vec<(cms::Pfx, Option<u8>)> = Vec::new();
    let mut v6: Vec<(cms::Pfx, Option<u8>)> = Vec::new();
    let n4 = *rng.pick(&[0usize, 1, 1, 2, 3, 9, 64, 65]);
    let n6 = *rng.pick(&[0usize, 0, 1, 2, 3, 9, 64, 65]);
    for _ in 0..n4 {
        let len = *rng.pick(&[0u8, 1, 8, 24, 31, 32]);
        let a: u32 = match rng.below(4) {
            0 => 0,
            1 => u32::MAX,
            2 => 0xFFFF_FF00,
            _ => rng.next_u32(),
        };
        let a = if len == 0 { 0 } else { a & (u32::MAX << (32 - len as u32)) };
        let ml = match rng.below(3) {
            0 => None,
            1 => Some(32),
            _ => Some(len.max(1)),
        };
        v4.push((cms::Pfx::v4(a, len), ml));
    }
    for _ in 0..n6 {
        let len = *rng.pick(&[0u8, 1, 48, 64, 127, 128]);
        let a: u128 = match rng.below(4) {
            0 => 0,
            1 => u128::MAX,
            2 => 0x2001_0db8u128 << 96,
            _ => rng.next_u128(),
        };
        let a = if len == 0 { 0 } else { a & (u128::MAX << (128 - len as u32)) };
        let ml = match rng.below(3) {
            0 => None,
            1 => Some(128),
            _ => Some(len.max(1)),
        };
        v6.push((cms::Pfx::v6(a, len), ml));
    }
    let mut fams = Vec::new();
    if !v4.is_empty() {
        fams.push(cms::RoaFamily::v4(v4));
    }
    if !v6.is_empty() {
        fams.push(cms::RoaFamily::v6(v6));
    }
    let asn = *rng.pick(&[0u32, 1, 64496, u32::MAX - 1, u32::MAX]);
    (cms::roa_econtent(asn, &fams, false), format!("{}v4|{}v6", class_n(n4), class_n(n6)))
}

fn gen_aspa_content(rng: &mut Rng) -> (Vec<u8>, String) {
    let customer = *rng.pick(&[0u32, 1, 64496, 1 << 31, u32::MAX - 1, u32::MAX]);
    let n = *rng.pick(&[1usize, 1, 2, 3, 5, 9, 64, 65, 300]);
    let mut provs: Vec<u32> = (0..n).map(|_| as_edge(rng) as u32).collect();
    if rng.chance(1, 2) {
        provs.push(u32::MAX);
    }
    if rng.chance(1, 2) {
        provs.push(0);
    }
    provs.sort();
    provs.dedup();
    provs.retain(|p| *p != customer);
    if provs.is_empty() {
        provs.push(customer.wrapping_add(1));
    }
    let top = provs.last() == Some(&u32::MAX);
    let zero = provs.first() == Some(&0);
    (cms::aspa_econtent(customer, &provs), format!("{}providers|top={}|zero={}", class_n(provs.len()), top as u8, zero as u8))
}

/// What the stage can afford.
struct Plan {
    walk: u64,
    walk_total: u64,
    cap: usize,
    extra: usize,
    small_only: bool,
}

fn plan_for(ctx: &Ctx) -> Plan {
    match (ctx.stage, ctx.tier) {
        (Stage::Native, Tier::Thorough) => Plan { walk: 1 << 20, walk_total: 1 << 24, cap: 256, extra: 32, small_only: false },
        (Stage::Native, _) => Plan { walk: 1 << 16, walk_total: 1 << 21, cap: 256, extra: 24, small_only: false },
        (Stage::Miri, _) => Plan { walk: 128, walk_total: 4096, cap: 16, extra: 4, small_only: true },
        _ => Plan { walk: 1 << 14, walk_total: 1 << 19, cap: 256, extra: 24, small_only: false },
    }
}

#[allow(clippy::too_many_arguments)]
fn one_case(ctx: &mut Ctx, mon: &mut Mon, kind: Kind, data: &[u8], salt: u64, plan: &Plan, label: &str, total: &mut Stats, base: &uri::Rsync) {
    mon.evals += 1;
    {
        let head = format!("iterlaws kind={} salt={} walk={} extra={} ", kind.name(), salt, plan.walk, plan.extra);
        if data.len() <= 6000 {
            let h = hex(data);
            mon.crumb.put(&[head.as_bytes(), b"hex=", h.as_bytes()]);
        } else {
            mon.crumb.put(&[head.as_bytes()]);
        }
    }
    let mut prng = Rng::new(salt);
    let mut laws = Laws::new(256, plan.walk, plan.cap);
    laws.walk_total = plan.walk_total;
    laws.extra = (0..plan.extra).map(|_| random_program(&mut prng)).collect();
    clear_current();
    let t0 = if mon.miri { 0 } else { crate::alloc::thread_cpu_ns() };
    EVAL_STARTED_AT.store(t0, Ordering::Relaxed);
    let res = catch2(|| decode_and_check(kind, data, &mut laws, base));
    EVAL_STARTED_AT.store(0, Ordering::Relaxed);
    let replay = json!({"iterlaws": kind.name(), "hex": hex(data), "salt": salt, "walk": plan.walk, "walk_total": plan.walk_total, "cap": plan.cap, "extra": plan.extra});
    let decoded = match res {
        Ok(d) => d,
        Err((text, via)) => {
            mon.panics += 1;
            let (it, ad) = current().unwrap_or(("?", "?"));
            ctx.violation(
                &panic_sig(&text, &via),
                &format!("panic while the iterators of a decoded value ({}) were used through iterator adapters: {} / {}: {}{}", kind.name(), it, ad, text,
                         via.as_ref().map(|v| format!(" [reached from {}]", v)).unwrap_or_default()),
                json!({"kind": kind.name(), "value": label, "iterator": it, "adapter": ad, "panic": text, "innermost_library_frame": via,
                       "len": data.len(), "replay_case": replay}),
            );
            clear_current();
            total.add(&laws.stats);
            return;
        }
    };
    clear_current();
    for b in &laws.breaks {
        ctx.violation(
            &format!("C04:iter-disagrees:{}:{}", b.iter, b.adapter),
            &format!("{} of a decoded value ({}): {}", b.iter, kind.name(), b.text),
            json!({"kind": kind.name(), "value": label, "iterator": b.iter, "adapter": b.adapter, "observed": b.text, "len": data.len(), "replay_case": replay}),
        );
    }
    if decoded {
        mon.accepted += 1;
    } else {
        mon.rejected += 1;
    }
    ctx.sig(&format!("iterlaws|{}|{}|{}", kind.name(), label, if decoded { "decoded" } else { "refused" }));
    let key = if decoded { "iterator adapter laws: generated value, decoded" } else { "iterator adapter laws: generated value, refused by the decoder" };
    if ctx.wants_sample(key) {
        let st = laws.stats;
        ctx.sample(key, || {
            json!({"kind": kind.name(), "value": label, "input_hex": hex(&data[..data.len().min(160)]), "input_len": data.len(),
                   "iterators": st.iters, "programs_run": st.programs, "results_compared": st.compared, "jumps_past_the_end": st.past_end,
                   "programs_not_run_for_cost": st.not_run_cost, "size_hints_checked": st.hints})
        });
    }
    total.add(&laws.stats);
}

/// The workload. `seeds` / `signer`: for the ROA and ASPA cases (a pool-signed
/// object whose content is replaced and which is signed again).
pub(super) fn run_iter_laws(ctx: &mut Ctx, mon: &mut Mon, seeds: &[Seed], signer: Option<&PoolSigner>) {
    if switched_off() {
        return;
    }
    let plan = plan_for(ctx);
    let cases = ctx.stage_budget((16_000, 320_000), 4_000, 12, 0);
    let mut rng = ctx.rng("iter-laws");
    let env = super::c04_scale::Env { seeds, pool: signer };
    let base = mon.opts.fixed.base.clone();
    let mut total = Stats::default();
    let mut through_sweep = 0u64;
    for i in 0..cases {
        let pick = rng.below(16);
        let (kind, data, label): (Kind, Vec<u8>, String) = match pick {
            0..=6 => {
                let (blocks, label) = gen_as_list(&mut rng, plan.small_only);
                let list = crate::c03::as_der(&blocks, rng.chance(1, 6));
                match rng.below(4) {
                    0 => (Kind::AsBlocksDer, list, label),
                    1 => (Kind::AsBlocksBer, list, label),
                    2 => (Kind::AsResDer, der::seq(&[&der::tlv(0xA0, &list)]), label),
                    _ => (Kind::AsResBer, der::seq(&[&der::tlv(0xA0, &list)]), label),
                }
            }
            7 | 8 => {
                let (d, shape) = super::gen_blocks(Flavour::V4, &mut rng);
                (Kind::V4, d, shape.to_string())
            }
            9 | 10 => {
                let (d, shape) = super::gen_blocks(Flavour::V6, &mut rng);
                (Kind::V6, d, shape.to_string())
            }
            11 | 12 => {
                let (d, l) = gen_mft(&mut rng, plan.small_only);
                (Kind::Mft, d, l)
            }
            13 => {
                let (d, l) = gen_revoked(&mut rng, plan.small_only);
                (Kind::Revoked, d, l)
            }
            14 => {
                let (c, l) = gen_roa_content(&mut rng);
                match signer.and_then(|_| env.econtent("built/r.roa", c, true)) {
                    Some(d) => (Kind::Roa, d, l),
                    None => continue,
                }
            }
            _ => {
                let (c, l) = gen_aspa_content(&mut rng);
                match signer.and_then(|_| env.econtent("built/a.asa", c, false)) {
                    Some(d) => (Kind::Aspa, d, l),
                    None => continue,
                }
            }
        };
        let salt = rng.next_u64();
        one_case(ctx, mon, kind, &data, salt, &plan, &label, &mut total, &base);
        // the same bytes through the ordinary evaluation as well (heap and CPU budgets, fixed plan inside the sweep)
        if i % 4 == 0 && !mon.miri {
            through_sweep += 1;
            mon.eval(ctx, &Case { ep: kind.ep(), data: &data, mutator: &format!("gen-iterlaws:{}", kind.name()), seed: "generated" });
        }
    }
    ctx.obs("iterlaws:generated_values", cases);
    ctx.obs("iterlaws:generated_values_also_through_the_ordinary_evaluation", through_sweep);
    if ctx.is_native() {
        big_walks(ctx, mon, &mut total);
    }
    for (k, v) in total.pairs() {
        ctx.obs(k, v);
    }
}

//------------ walks over billions of members ---------------------------------
//
// On an iterator without shortcuts `count()`, `last()`, `nth(2^32-1)`,
// `step_by(2^24)` over AS0-AS4294967295 (every trust anchor has that block)
// take 2^32 steps: seconds. A position shortcut makes them instant — and is
// where `max - min + 1` no longer fits 32 bits. Each native shard takes one of
// these walks per quick run (four per thorough run), chosen by shard and seed.

/// (name, program, through `iter_asns` instead of the block's own iterator).
/// The first sixteen are the quick tier's (one per shard), all of them the
/// thorough tier's.
fn big_programs() -> Vec<(&'static str, Program, bool)> {
    use Dist::*;
    use Op::*;
    use Term::*;
    vec![
        ("count", prog(&[], Count), false),
        ("last", prog(&[], Last), false),
        ("nth(u32::MAX).next", prog(&[Nth(Abs(U32MAX)), Hint, Next], Stop), false),
        ("nth(2^32)", prog(&[Nth(Abs(U32MAX + 1))], Stop), false),
        ("next.nth(u32::MAX)", prog(&[Next, Nth(Abs(U32MAX))], Stop), false),
        ("step_by(2^24)", prog(&[], StepTake(Abs(1 << 24), 300)), false),
        ("skip(len-3)", prog(&[], SkipNext(Rem(-3))), false),
        ("step_by(u32::MAX)", prog(&[], StepTake(Abs(U32MAX), 4)), false),
        ("skip(len-2).count", prog(&[], SkipCount(Rem(-2))), false),
        ("skip(u32::MAX).nth(u32::MAX)", prog(&[], SkipNth(Abs(U32MAX), Abs(U32MAX))), false),
        ("chain.nth(len+1)", prog(&[], ChainNth(Rem(1))), false),
        ("take(usize::MAX).last", prog(&[], TakeLast(Abs(UMAX))), false),
        ("nth(2^31).nth(2^31-2).next", prog(&[Nth(Abs(1 << 31)), Hint, Nth(Abs((1 << 31) - 2)), Hint, Next], Stop), false),
        ("nth(len-1).hint", prog(&[Nth(Rem(-1)), Hint, Next], Stop), false),
        ("iter_asns.count", prog(&[], Count), true),
        ("iter_asns.last", prog(&[], Last), true),
        ("skip(len).last", prog(&[], SkipLast(Rem(0))), false),
        ("enumerate.nth(len-1)", prog(&[], EnumNth(Rem(-1))), false),
    ]
}

fn big_walks(ctx: &mut Ctx, mon: &mut Mon, total: &mut Stats) {
    const MAX: u32 = u32::MAX;
    let blocks: [(u32, u32); 4] = [(0, MAX), (1, MAX), (0, MAX - 1), (1 << 31, MAX)];
    let programs = big_programs();
    let n = programs.len() as u64;
    let mut picks: Vec<(usize, usize)> = Vec::new(); // (block, program)
    if ctx.tier == Tier::Thorough {
        for j in 0..4u64 {
            let k = ctx.shard * 4 + j + ctx.seed;
            picks.push((((ctx.shard + j) % 4) as usize, (k % n) as usize));
        }
    } else {
        // sixteen shards: each of the first sixteen programs once per run
        picks.push((0, ((ctx.shard + ctx.seed) % n.min(16)) as usize));
    }
    if let Some(v) = std::env::var("C04_BIG_WALK").ok().and_then(|v| v.parse::<usize>().ok()) {
        picks = vec![(0, v % programs.len())]; // experiments only; never set by the driver
    }
    for (bi, pi) in picks {
        let (lo, hi) = blocks[bi];
        let data = crate::c03::as_der(&[(lo as u128, hi as u128)], false);
        let (what, p, flat) = &programs[pi];
        let flat = *flat;
        mon.evals += 1;
        let head = format!("iterlaws big-walk block=AS{}-AS{} program={} through_iter_asns={} hex={}", lo, hi, what, flat, hex(&data));
        mon.crumb.put(&[head.as_bytes()]);
        let mut laws = Laws::new(4, 1 << 34, 64);
        laws.walk_total = 1 << 35;
        clear_current();
        let t0 = crate::alloc::thread_cpu_ns();
        let res = catch2(|| {
            let Ok(b) = Mode::Der.decode(data.as_slice(), AsBlocks::take_from) else { return false };
            let Some(blk) = b.iter().next() else { return false };
            let (f, len) = as_block_model(blk.min().into_u32(), blk.max().into_u32());
            if flat {
                let mk = || b.iter_asns();
                let r = Reference::by_stepping("AsBlocks::iter_asns", &mk, &asn_key, 64, Some((&f, len)));
                note_source(&r, &mut laws);
                run_program("AsBlocks::iter_asns", &mk, &asn_key, &r, p, &mut laws);
            } else {
                let mk = || blk.iter();
                let r = Reference::by_stepping("AsBlock::iter", &mk, &asn_key, 64, Some((&f, len)));
                note_source(&r, &mut laws);
                run_program("AsBlock::iter", &mk, &asn_key, &r, p, &mut laws);
            }
            true
        });
        let cpu = crate::alloc::thread_cpu_ns().saturating_sub(t0);
        let name = if flat { "AsBlocks::iter_asns" } else { "AsBlock::iter" };
        let detail = json!({"block": format!("AS{}-AS{}", lo, hi), "program": what, "iterator": name, "input_hex": hex(&data),
                            "how_to_replay": "re-run the shard with the same seed (the walk is chosen by shard and seed)"});
        match res {
            Err((text, via)) => {
                mon.panics += 1;
                let (it, ad) = current().unwrap_or(("?", "?"));
                ctx.violation(
                    &panic_sig(&text, &via),
                    &format!("panic in {} over AS{}-AS{} under {} ({} / {}): {}", name, lo, hi, what, it, ad, text),
                    detail,
                );
            }
            Ok(_) => {
                for b in &laws.breaks {
                    ctx.violation(
                        &format!("C04:iter-disagrees:{}:{}", b.iter, b.adapter),
                        &format!("{} over AS{}-AS{} under {}: {}", b.iter, lo, hi, what, b.text),
                        detail.clone(),
                    );
                }
                mon.accepted += 1;
            }
        }
        clear_current();
        ctx.sig(&format!("iterlaws|big-walk|AS{}-AS{}|{}|{}", lo, hi, name, what));
        ctx.obs("iterlaws:walks_over_billions_of_members", 1);
        ctx.obs_max("iterlaws:cpu_ms_of_the_longest_big_walk", cpu / 1_000_000);
        ctx.sample("iterator adapter laws: walk over billions of members", || {
            json!({"block": format!("AS{}-AS{}", lo, hi), "iterator": name, "program": what, "cpu_ms": cpu / 1_000_000,
                   "results_compared": laws.stats.compared, "programs_run": laws.stats.programs, "not_run_for_cost": laws.stats.not_run_cost})
        });
        total.add(&laws.stats);
    }
}

/// Replays `{"iterlaws": kind, "hex": .., "salt": .., "walk": .., "walk_total": .., "cap": .., "extra": ..}`.
pub(super) fn run_iterlaws_case(ctx: &mut Ctx, mon: &mut Mon, case: &Value) {
    let Some(kind) = Kind::from_name(case["iterlaws"].as_str().unwrap_or("")) else {
        ctx.notes.push("C04: iterlaws case without a known kind".into());
        return;
    };
    let data = unhex(case["hex"].as_str().unwrap_or(""));
    let plan = Plan {
        walk: case["walk"].as_u64().unwrap_or(1 << 16),
        walk_total: case["walk_total"].as_u64().unwrap_or(1 << 21),
        cap: case["cap"].as_u64().unwrap_or(256) as usize,
        extra: case["extra"].as_u64().unwrap_or(24) as usize,
        small_only: false,
    };
    let base = mon.opts.fixed.base.clone();
    let mut total = Stats::default();
    one_case(ctx, mon, kind, &data, case["salt"].as_u64().unwrap_or(0), &plan, "replayed case", &mut total, &base);
    for (k, v) in total.pairs() {
        ctx.obs(k, v);
    }
    ctx.sig("replay|iterlaws");
}
