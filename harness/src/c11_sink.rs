//! C11 — sinks that fail, sinks that take a few octets per call.
//!
//! Every round-trip check writes into a `Vec`, which never fails and always
//! takes everything it is offered. An application writes into a file, a
//! socket, a fixed buffer. This module runs every writing entry point of the
//! six message types (`write_xml`; `to_xml_vec` / `to_xml_string` /
//! `to_xml_bytes` are compared with it) against an environment model of
//! `io::Write`:
//!
//!  * a sink with room for exactly `k` octets, for every `k` from 0 to the
//!    length of the document (long documents: the first few hundred, the last
//!    few hundred, every multiple of 4 KiB ± 1 — which contains the multiples
//!    of 8 KiB and 64 KiB — and a stride), that then answers every call with
//!    an error, or with `Ok(0)`, for good; at the edge it either takes the
//!    part that fits or refuses the whole call; before the edge it takes
//!    everything, or 1 / 7 / 4096 octets per call;
//!  * the same with an error that happens once (the call at the edge fails,
//!    later calls succeed again): whatever was refused is missing;
//!  * sinks that never fail but take 1, 2, 3, 7, 61, 1000, 4096 octets per
//!    call, or answer every third call with `ErrorKind::Interrupted`.
//!
//! Law (the statement's "is written as well-formed XML", read for a sink that
//! can fail): `Ok(())` from the writer implies that the sink holds the
//! complete document — the very octets a `Vec` receives from the same
//! message, which the round-trip oracle has parsed back and expat has
//! accepted. Whenever the sink holds anything else, the writer must have
//! returned `Err`. What the writer returns when everything fitted is left
//! open (an error from a sink that merely takes few octets per call is
//! counted, not reported: the Base64 encoder of the certificate-bearing
//! messages refuses short writes).
//!
//! A sink that answers `Ok(0)` stops doing so after 10000 answers in a row
//! and fails instead, so that a writer that keeps asking cannot stall the
//! check; that this happened is recorded (`sink:ok0_answered_10000_times_in_a_row`).

use super::{c11_gen as gen, AnyMsg, Crypto, Gen};
use crate::core::{Ctx, Rng, Tier};
use rpki::ca::idexchange::{ChildRequest, Handle, ParentResponse, PublisherRequest, RepositoryResponse, ServiceUri};
use rpki::ca::provisioning as prov;
use rpki::ca::publication as publ;
use rpki::crypto::KeyIdentifier;
use rpki::repository::resources::{AsBlocksBuilder, Asn, IpBlocksBuilder, Ipv4Blocks, Ipv6Blocks, ResourceSet};
use rpki::repository::x509::Time;
use rpki::rrdp;
use rpki::uri;
use serde_json::json;
use std::io;
use std::str::FromStr;

//------------ the sink -------------------------------------------------------------

#[derive(Clone, Copy, Debug, PartialEq, Eq)]
enum Full {
    /// every call after the edge: `Err`
    Error(io::ErrorKind),
    /// every call after the edge: `Ok(0)`
    Zero,
    /// the call at the edge fails once; later calls succeed (and the sink has
    /// unlimited room from then on)
    ErrorOnce,
}

#[derive(Clone, Copy, Debug)]
struct SinkPlan {
    room: usize,
    per_call: usize,
    partial_at_edge: bool,
    full: Full,
    /// every third call before the edge is answered with `Interrupted`
    interrupts: bool,
}

const ZERO_SPIN_LIMIT: u64 = 10_000;

struct Sink {
    plan: SinkPlan,
    out: Vec<u8>,
    calls: u64,
    refused: u64,
    zero_run: u64,
    spun: bool,
    failed_once: bool,
}

impl Sink {
    fn new(plan: SinkPlan) -> Self {
        Sink { plan, out: Vec::new(), calls: 0, refused: 0, zero_run: 0, spun: false, failed_once: false }
    }
}

impl io::Write for Sink {
    fn write(&mut self, buf: &[u8]) -> io::Result<usize> {
        if buf.is_empty() {
            return Ok(0);
        }
        self.calls += 1;
        if self.plan.interrupts && self.calls % 3 == 0 {
            return Err(io::Error::from(io::ErrorKind::Interrupted));
        }
        let unlimited = self.plan.full == Full::ErrorOnce && self.failed_once;
        let left = if unlimited { usize::MAX } else { self.plan.room.saturating_sub(self.out.len()) };
        let mut n = buf.len().min(self.plan.per_call);
        if left == 0 || (n > left && !self.plan.partial_at_edge) {
            self.refused += 1;
            return match self.plan.full {
                Full::Error(kind) => Err(io::Error::new(kind, "the sink is full")),
                Full::ErrorOnce => {
                    self.failed_once = true;
                    Err(io::Error::other("the sink failed (once)"))
                }
                Full::Zero => {
                    self.zero_run += 1;
                    if self.zero_run > ZERO_SPIN_LIMIT {
                        self.spun = true;
                        Err(io::Error::other("the sink has answered Ok(0) often enough"))
                    } else {
                        Ok(0)
                    }
                }
            };
        }
        n = n.min(left);
        self.out.extend_from_slice(&buf[..n]);
        Ok(n)
    }

    fn flush(&mut self) -> io::Result<()> {
        // no second chance to notice a failure
        Ok(())
    }
}

//------------ the population of messages ------------------------------------------------

fn handle<T>(s: &str) -> Handle<T> {
    Handle::from_str(s).unwrap_or_else(|_| Handle::new(s.into()))
}

fn rsync(s: &str) -> uri::Rsync {
    uri::Rsync::from_str(s).expect("uri")
}

fn https(s: &str) -> uri::Https {
    uri::Https::from_str(s).expect("uri")
}

fn empty_set() -> ResourceSet {
    ResourceSet::new(AsBlocksBuilder::new().finalize(), Ipv4Blocks::from(IpBlocksBuilder::new().finalize()), Ipv6Blocks::from(IpBlocksBuilder::new().finalize()))
}

fn small_set() -> ResourceSet {
    let mut a = AsBlocksBuilder::new();
    a.push((Asn::from_u32(64512), Asn::from_u32(64520)));
    ResourceSet::new(a.finalize(), Ipv4Blocks::from_str("10.0.0.0/8, 192.168.0.0-192.168.3.7").expect("v4"), Ipv6Blocks::from_str("2001:db8::/32").expect("v6"))
}

/// One message of every variant of every type (with their optional parts in
/// both states), and a few long ones: documents around and above 8 KiB,
/// 64 KiB and 128 KiB, and one whose single attribute value is longer than
/// 8 KiB.
fn population(crypto: Option<&Crypto>, rng: &mut Rng, small: bool) -> Vec<(String, AnyMsg)> {
    let mut v: Vec<(String, AnyMsg)> = Vec::new();
    let key = KeyIdentifier::from([0x11u8; 20]);
    let hash = rrdp::Hash::from([0x22u8; 32]);
    let idc = |rng: &mut Rng| {
        let n = 1 + rng.usize_below(200);
        publ::Base64::from_content(&rng.bytes(n))
    };
    let sender = || handle("child");
    let recipient = || handle("parent");
    // RFC 6492
    v.push(("provisioning.list".into(), AnyMsg::Prov(prov::Message::list(sender(), recipient()))));
    v.push((
        "provisioning.revoke".into(),
        AnyMsg::Prov(prov::Message::revoke(sender(), recipient(), prov::RevocationRequest::new("class <1> & 'two'".into(), key))),
    ));
    v.push((
        "provisioning.revoke_response".into(),
        AnyMsg::Prov(prov::Message::revoke_response(sender(), recipient(), prov::RevocationResponse::from(&prov::RevocationRequest::new("c".into(), key)))),
    ));
    let np = match rng.below(4) {
        0 => prov::NotPerformedResponse::err_1101(),
        1 => prov::NotPerformedResponse::err_1204(),
        2 => prov::NotPerformedResponse::err_1302(),
        _ => prov::NotPerformedResponse::err_2001(),
    };
    if let Ok(m) = prov::Message::not_performed_response(sender(), recipient(), np) {
        v.push(("provisioning.error_response".into(), AnyMsg::Prov(m)));
    }
    if let Some(c) = crypto {
        let mut limit = prov::RequestResourceLimit::new();
        limit.with_ipv4(Ipv4Blocks::from_str("10.0.0.0/24").expect("v4"));
        v.push((
            "provisioning.issue".into(),
            AnyMsg::Prov(prov::Message::issue(sender(), recipient(), prov::IssuanceRequest::new("class".into(), limit.clone(), c.csrs[0].clone()))),
        ));
        v.push((
            "provisioning.issue:no-limit".into(),
            AnyMsg::Prov(prov::Message::issue(sender(), recipient(), prov::IssuanceRequest::new("class".into(), prov::RequestResourceLimit::new(), c.csrs[1].clone()))),
        ));
        let issued = |i: usize| prov::IssuedCert::new(rsync("rsync://repo.example/m/ca/child.cer"), if i % 2 == 0 { prov::RequestResourceLimit::new() } else { limit.clone() }, c.certs[i % c.certs.len()].clone());
        let signing = || prov::SigningCert::new(rsync("rsync://repo.example/m/ta's&co.cer"), c.certs[0].clone());
        v.push((
            "provisioning.issue_response".into(),
            AnyMsg::Prov(prov::Message::issue_response(
                recipient_as_sender(),
                sender_as_recipient(),
                prov::IssuanceResponse::new("class".into(), small_set(), Time::utc(2030, 1, 2, 3, 4, 5), issued(1), signing()),
            )),
        ));
        v.push((
            "provisioning.list_response:0-classes".into(),
            AnyMsg::Prov(prov::Message::list_response(recipient_as_sender(), sender_as_recipient(), prov::ResourceClassListResponse::new(Vec::new()))),
        ));
        let class = |name: &str, n: usize| {
            prov::ResourceClassEntitlements::new(name.into(), if n == 0 { empty_set() } else { small_set() }, Time::utc(2030, 1, 2, 3, 4, 5), (0..n).map(issued).collect(), signing())
        };
        v.push((
            "provisioning.list_response:2-classes".into(),
            AnyMsg::Prov(prov::Message::list_response(recipient_as_sender(), sender_as_recipient(), prov::ResourceClassListResponse::new(vec![class("a", 0), class("b & c", 2)]))),
        ));
        if !small {
            // about 70 kB: above the 64 KiB mark, with Base64 bodies all the way
            v.push((
                "provisioning.list_response:long".into(),
                AnyMsg::Prov(prov::Message::list_response(
                    recipient_as_sender(),
                    sender_as_recipient(),
                    prov::ResourceClassListResponse::new((0..6).map(|i| class(&format!("class {i}"), 5)).collect()),
                )),
            ));
        }
    }
    // RFC 8181
    v.push(("publication.list_query".into(), AnyMsg::Publ(publ::Message::list_query())));
    v.push(("publication.success".into(), AnyMsg::Publ(publ::Message::success())));
    let list_reply = |n: usize| {
        let mut r = publ::ListReply::empty();
        for i in 0..n {
            r.add_element(publ::ListElement::new(rsync(&format!("rsync://repo.example/m/ca/it's/object-{i:05}.roa")), hash));
        }
        AnyMsg::Publ(publ::Message::list_reply(r))
    };
    v.push(("publication.list_reply:0".into(), list_reply(0)));
    v.push(("publication.list_reply:1".into(), list_reply(1)));
    v.push(("publication.list_reply:3".into(), list_reply(3)));
    let content = |rng: &mut Rng, n: usize| publ::Base64::from_content(&rng.bytes(n));
    let tag = |s: &str| Some(s.to_string());
    let u = |s: &str| rsync(&format!("rsync://repo.example/m/ca/{s}"));
    let mut d = publ::PublishDelta::empty();
    d.add_publish(publ::Publish::new(tag("a & b"), u("a.roa"), content(rng, 77)));
    v.push(("publication.delta:publish".into(), AnyMsg::Publ(publ::Message::delta(d))));
    let mut d = publ::PublishDelta::empty();
    d.add_update(publ::Update::new(tag("<t>"), u("b.roa"), content(rng, 300), hash));
    v.push(("publication.delta:update".into(), AnyMsg::Publ(publ::Message::delta(d))));
    let mut d = publ::PublishDelta::empty();
    d.add_withdraw(publ::Withdraw::new(tag("w"), u("c's.roa"), hash));
    v.push(("publication.delta:withdraw".into(), AnyMsg::Publ(publ::Message::delta(d))));
    v.push(("publication.delta:empty".into(), AnyMsg::Publ(publ::Message::delta(publ::PublishDelta::empty()))));
    let mut d = publ::PublishDelta::empty();
    d.add_publish(publ::Publish::new(tag("1"), u("a.roa"), content(rng, 10)));
    d.add_update(publ::Update::new(tag("2"), u("b.roa"), content(rng, 11), hash));
    d.add_withdraw(publ::Withdraw::new(tag("3"), u("c.roa"), hash));
    if crypto.is_some() {
        d.add_publish(publ::Publish::with_hash_tag(u("d.roa"), content(rng, 12)));
        d.add_withdraw(publ::Withdraw::with_hash_tag(u("e.roa"), hash));
    }
    v.push(("publication.delta:mixed".into(), AnyMsg::Publ(publ::Message::delta(d))));
    for (label, codes) in [
        ("publication.error_reply:1", vec![publ::ReportErrorCode::NoObjectPresent]),
        ("publication.error_reply:3", vec![publ::ReportErrorCode::XmlError, publ::ReportErrorCode::ObjectAlreadyPresent, publ::ReportErrorCode::OtherError]),
    ] {
        let mut r = publ::ErrorReply::empty();
        for c in codes {
            r.add_error(publ::ReportError::with_code(c));
        }
        v.push((label.into(), AnyMsg::Publ(publ::Message::error(r))));
    }
    // RFC 8183
    v.push(("idexchange.child_request".into(), AnyMsg::ChildReq(ChildRequest::new(idc(rng), handle("child")))));
    let b = idc(rng);
    if let Ok(req) = serde_json::from_value::<ChildRequest>(json!({"id_cert": b.as_str(), "child_handle": "child", "tag": "R&D 'tag'"})) {
        v.push(("idexchange.child_request:tag".into(), AnyMsg::ChildReq(req)));
    }
    v.push((
        "idexchange.parent_response:tag".into(),
        AnyMsg::ParentResp(ParentResponse::new(idc(rng), handle("parent"), handle("child"), ServiceUri::Https(https("https://ca.example/rfc6492/child;a=1&b='2'")), tag("a <tag>"))),
    ));
    v.push((
        "idexchange.parent_response:http".into(),
        AnyMsg::ParentResp(ParentResponse::new(idc(rng), handle("parent"), handle("child"), ServiceUri::Http("http://localhost:3000/rfc6492/\"x\"".into()), None)),
    ));
    v.push(("idexchange.publisher_request".into(), AnyMsg::PubReq(PublisherRequest::new(idc(rng), handle("publisher"), None))));
    v.push(("idexchange.publisher_request:tag".into(), AnyMsg::PubReq(PublisherRequest::new(idc(rng), handle("publisher"), tag("t&t")))));
    v.push((
        "idexchange.repository_response".into(),
        AnyMsg::RepoResp(RepositoryResponse::new(
            idc(rng),
            handle("publisher"),
            ServiceUri::Https(https("https://repo.example/rfc8181/publisher")),
            rsync("rsync://repo.example/m/publisher's/"),
            Some(https("https://repo.example/rrdp/notification.xml")),
            tag("tag"),
        )),
    ));
    v.push((
        "idexchange.repository_response:no-rrdp".into(),
        AnyMsg::RepoResp(RepositoryResponse::new(idc(rng), handle("publisher"), ServiceUri::Https(https("https://repo.example/p")), rsync("rsync://repo.example/m/p/"), None, None)),
    ));
    if !small {
        // long documents: lengths around 8 KiB, above 64 KiB and above 128 KiB
        v.push(("publication.list_reply:8KiB".into(), list_reply(57)));
        v.push(("publication.list_reply:64KiB".into(), list_reply(460)));
        v.push(("publication.list_reply:128KiB".into(), list_reply(930)));
        let mut d = publ::PublishDelta::empty();
        d.add_publish(publ::Publish::new(tag("big"), u("big.roa"), content(rng, 51_000)));
        d.add_withdraw(publ::Withdraw::new(tag("after"), u("z.roa"), hash));
        v.push(("publication.delta:one-68kB-object".into(), AnyMsg::Publ(publ::Message::delta(d))));
        // a single attribute value longer than 8 KiB, a special character in front of it
        let long_tag = format!("R&D {}", "abcdefghijklmnopqrstuvwxyz0123456789".repeat(260));
        v.push(("idexchange.publisher_request:9kB-tag".into(), AnyMsg::PubReq(PublisherRequest::new(idc(rng), handle("publisher"), Some(long_tag)))));
        v.push((
            "idexchange.child_request:8KiB-id-cert".into(),
            AnyMsg::ChildReq(ChildRequest::new(publ::Base64::from_content(&rng.bytes(6200)), handle("child"))),
        ));
    }
    v
}

fn recipient_as_sender<T>() -> Handle<T> {
    handle("parent")
}

fn sender_as_recipient<T>() -> Handle<T> {
    handle("child")
}

//------------ which rooms ---------------------------------------------------------

fn rooms_for(ctx: &Ctx, len: usize, rng: &mut Rng) -> Vec<usize> {
    if ctx.is_miri() {
        return (0..=len + 1).filter(|r| r % 128 == 0 || r + 20 >= len).collect();
    }
    let dense = if ctx.tier == Tier::Thorough { 12_000 } else { 3_000 };
    if len <= dense {
        return (0..=len + 1).collect();
    }
    let stride = if ctx.tier == Tier::Thorough { 29 } else { 211 };
    let phase = rng.usize_below(stride);
    (0..=len + 1)
        .filter(|r| {
            *r < 300
                || r + 600 >= len
                || r % stride == phase
                // buffer-size multiples and their neighbours
                || (r + 2) % 4096 <= 4
        })
        .collect()
}

fn region(reference: &[u8], arrived: &[u8]) -> &'static str {
    if !reference.starts_with(arrived) {
        "different-octets"
    } else if arrived.is_empty() {
        "nothing-arrived"
    } else if reference.len() - arrived.len() <= 40 {
        "end-missing"
    } else {
        "body-missing"
    }
}

fn kind_full(f: Full) -> &'static str {
    match f {
        Full::Error(_) => "error-for-good",
        Full::Zero => "ok0-for-good",
        Full::ErrorOnce => "error-once",
    }
}

//------------ the sweep -------------------------------------------------------------

#[derive(Default)]
struct Tally {
    writes: u64,
    ok_complete: u64,
    err_incomplete: u64,
    err_complete: u64,
    spun: u64,
}

fn one_write(ctx: &mut Ctx, label: &str, msg: &AnyMsg, reference: &[u8], plan: SinkPlan, tally: &mut Tally, reported: &mut Vec<String>) {
    let mut sink = Sink::new(plan);
    let res = ctx.no_panic(
        &format!("write_xml-into-sink:{}", msg.kind().name()),
        || json!({"message": label, "room": plan.room, "per_call": if plan.per_call == usize::MAX { json!("unlimited") } else { json!(plan.per_call) }, "partial_at_edge": plan.partial_at_edge, "when_full": kind_full(plan.full), "document_len": reference.len()}),
        || msg.write_into(&mut sink),
    );
    tally.writes += 1;
    if sink.spun {
        tally.spun += 1;
    }
    let complete = sink.out == reference;
    match res {
        None => {}
        Some(Ok(())) if complete => tally.ok_complete += 1,
        Some(Err(_)) if complete => tally.err_complete += 1,
        Some(Err(_)) => tally.err_incomplete += 1,
        Some(Ok(())) => {
            let never_failed = sink.refused == 0;
            let kind = msg.kind().name();
            let sig = if never_failed {
                format!("C11:sink:{kind}:short-writes-change-output")
            } else {
                format!("C11:sink:{kind}:ok-although-sink-refused:{}:{}", kind_full(plan.full), region(reference, &sink.out))
            };
            if reported.contains(&sig) {
                return;
            }
            reported.push(sig.clone());
            let at = sink.out.iter().zip(reference.iter()).position(|(a, b)| a != b).unwrap_or(sink.out.len().min(reference.len()));
            let desc = if never_failed {
                format!(
                    "{label}: write_xml into a sink that takes {} octets per call returned Ok(()) but {} octets arrived instead of the {} a Vec receives (first difference at {at})",
                    plan.per_call,
                    sink.out.len(),
                    reference.len()
                )
            } else {
                format!(
                    "{label}: write_xml returned Ok(()) although the sink had room for {} of the {} octets of the document and refused {} call(s): {} octets arrived, the document on the other side is not the one that was written",
                    plan.room,
                    reference.len(),
                    sink.refused,
                    sink.out.len()
                )
            };
            ctx.violation(
                &sig,
                &desc,
                json!({
                    "message": label, "entry_point": format!("{kind}: write_xml"), "room": plan.room, "document_len": reference.len(), "arrived": sink.out.len(),
                    "calls_refused": sink.refused, "calls": sink.calls,
                    "per_call": if plan.per_call == usize::MAX { json!("unlimited") } else { json!(plan.per_call) },
                    "partial_at_edge": plan.partial_at_edge, "when_full": kind_full(plan.full), "interrupts": plan.interrupts,
                    "first_difference_at": at,
                    "document": super::clip(&String::from_utf8_lossy(reference), 3000),
                    "arrived_tail": String::from_utf8_lossy(&sink.out[sink.out.len().saturating_sub(200)..]),
                }),
            );
        }
    }
}

fn sweep(ctx: &mut Ctx, index: u64, label: &str, msg: &AnyMsg, reference: &[u8], rng: &mut Rng) {
    let mut tally = Tally::default();
    let mut reported: Vec<String> = Vec::new();
    let rooms = rooms_for(ctx, reference.len(), rng);
    let error_kinds = [io::ErrorKind::Other, io::ErrorKind::BrokenPipe, io::ErrorKind::WriteZero, io::ErrorKind::WouldBlock, io::ErrorKind::StorageFull];
    let miri = ctx.is_miri();
    for (ri, &room) in rooms.iter().enumerate() {
        let kind = error_kinds[(ri + index as usize) % error_kinds.len()];
        let base = SinkPlan { room, per_call: usize::MAX, partial_at_edge: false, full: Full::Error(kind), interrupts: false };
        // the two ways of reaching the edge, always
        one_write(ctx, label, msg, reference, base, &mut tally, &mut reported);
        if miri {
            continue;
        }
        one_write(ctx, label, msg, reference, SinkPlan { partial_at_edge: true, ..base }, &mut tally, &mut reported);
        // one of the other sinks, in turn
        let extra = match (ri as u64 + index) % 6 {
            0 => SinkPlan { partial_at_edge: true, full: Full::Zero, ..base },
            1 => SinkPlan { per_call: 7, partial_at_edge: true, ..base },
            2 => SinkPlan { per_call: 1, partial_at_edge: true, full: Full::Zero, ..base },
            3 => SinkPlan { per_call: 4096, partial_at_edge: ri % 2 == 0, ..base },
            4 => SinkPlan { full: Full::ErrorOnce, partial_at_edge: ri % 2 == 0, ..base },
            _ => SinkPlan { full: Full::Zero, ..base },
        };
        // octet-wise sinks cost a call per octet: not for every room of a long document
        if extra.per_call == 1 && reference.len() > 20_000 && ri % 16 != 2 {
            continue;
        }
        one_write(ctx, label, msg, reference, extra, &mut tally, &mut reported);
    }
    // sinks that never fail
    let per_calls: &[usize] = if miri { &[3] } else { &[1, 2, 3, 7, 61, 1000, 4096] };
    for &per_call in per_calls {
        let plan = SinkPlan { room: usize::MAX, per_call, partial_at_edge: true, full: Full::Error(io::ErrorKind::Other), interrupts: false };
        let before = (tally.ok_complete, tally.err_complete + tally.err_incomplete);
        one_write(ctx, label, msg, reference, plan, &mut tally, &mut reported);
        one_write(ctx, label, msg, reference, SinkPlan { interrupts: true, ..plan }, &mut tally, &mut reported);
        ctx.obs("sink:few_octets_per_call:ok", tally.ok_complete - before.0);
        ctx.obs("sink:few_octets_per_call:writer_returned_error", tally.err_complete + tally.err_incomplete - before.1);
    }
    ctx.evals(tally.writes);
    ctx.obs("sink:writes", tally.writes);
    ctx.obs("sink:ok_with_complete_document", tally.ok_complete);
    ctx.obs("sink:error_reported_for_incomplete_document", tally.err_incomplete);
    if tally.err_complete > 0 {
        // left open by the statement
        ctx.obs("sink:error_although_complete_document", tally.err_complete);
    }
    if tally.spun > 0 {
        ctx.obs("sink:ok0_answered_10000_times_in_a_row", tally.spun);
        ctx.sample("a writer kept calling a sink that answers Ok(0) (recorded only)", || {
            json!({"message": label, "document_len": reference.len(), "observed": format!("the sink answered Ok(0) {ZERO_SPIN_LIMIT} times in a row before it gave up and returned an error; with a sink that never gives up (a full `&mut [u8]`) the call would not return")})
        });
    }
    ctx.obs("sink:documents", 1);
    ctx.obs_max("sink:document_octets", reference.len() as u64);
    let len_class = match reference.len() {
        0..=255 => "<256",
        256..=1023 => "<1Ki",
        1024..=4095 => "<4Ki",
        4096..=8191 => "<8Ki",
        8192..=65535 => "<64Ki",
        65536..=131071 => "<128Ki",
        _ => ">=128Ki",
    };
    ctx.sig(&format!("sink|{label}|{len_class}"));
    if ctx.wants_sample("sink sweep") {
        ctx.sample("sink sweep", || {
            json!({"message": label, "document_len": reference.len(), "rooms": rooms.len(), "writes": tally.writes, "ok_with_complete_document": tally.ok_complete,
                   "error_for_incomplete_document": tally.err_incomplete, "error_although_complete": tally.err_complete})
        });
    }
}

/// The other writing entry points: they have no sink of their own and must
/// give the octets `write_xml` gives a `Vec`.
fn other_entry_points(ctx: &mut Ctx, label: &str, msg: &AnyMsg, reference: &[u8]) {
    let outs = ctx.no_panic(&format!("to_xml:{}", msg.kind().name()), || json!({"message": label}), || msg.to_xml_all());
    let Some(outs) = outs else { return };
    for (name, bytes) in outs {
        ctx.eval();
        if bytes == reference {
            ctx.obs("sink:to_xml_entry_points_equal_to_write_xml", 1);
        } else {
            let at = bytes.iter().zip(reference.iter()).position(|(a, b)| a != b).unwrap_or(bytes.len().min(reference.len()));
            ctx.violation(
                &format!("C11:write:{}:{name}-differs-from-write_xml", msg.kind().name()),
                &format!("{label}: {name} returns other octets than write_xml writes into a Vec (first difference at {at}; {} vs {} octets)", bytes.len(), reference.len()),
                json!({"message": label, "write_xml": super::clip(&String::from_utf8_lossy(reference), 3000), name: super::clip(&String::from_utf8_lossy(&bytes), 3000)}),
            );
        }
    }
}

pub fn run(ctx: &mut Ctx, crypto: Option<&Crypto>) {
    let mut rng = ctx.rng("sinks");
    let small = ctx.is_miri();
    let mut msgs = population(crypto, &mut rng, small);
    // and messages of the random generator (its free-form strings, lists, resource sets)
    let n_random = ctx.stage_budget((16 * 6, 16 * 40), 8 * 6, 8, 0);
    {
        let mut g = Gen { rng: ctx.rng("sinks-cases"), crypto, refused_uri: 0, refused_handle: 0, res_stats: gen::ResStats::default(), refused_other: 0 };
        let mut made = 0;
        let mut tries = 0;
        while made < n_random && tries < n_random * 20 {
            tries += 1;
            let Ok(case) = crate::core::catch(|| g.case()) else { continue };
            ctx.drain_chain_hook(|| json!({"while": "generating field values (sinks)", "variant": case.variant}));
            if case.lenient.is_some() {
                continue;
            }
            made += 1;
            // every shard draws its own; mark them so that `mine` keeps them all
            msgs.push((format!("{}:generated", case.variant), case.msg));
        }
    }
    let fixed = msgs.iter().filter(|(l, _)| !l.ends_with(":generated")).count() as u64;
    let mut skipped_long = 0u64;
    for (i, (label, msg)) in msgs.iter().enumerate() {
        let i = i as u64;
        if i < fixed && !ctx.mine(i + ctx.seed) {
            continue;
        }
        // reference: what a Vec receives; only documents that the other
        // oracles accept are swept (a failure there is theirs to report)
        let Ok(Ok(reference)) = crate::core::catch(|| msg.write()) else { continue };
        match crate::core::catch(|| msg.kind().parse(&reference)) {
            Ok(Ok(back)) if back == *msg => {}
            _ => {
                ctx.obs("sink:documents_skipped_because_the_round_trip_fails", 1);
                continue;
            }
        }
        ctx.drain_chain_hook(|| json!({"while": "parsing own output (sinks)", "message": label}));
        if i >= fixed && reference.len() > 30_000 {
            skipped_long += 1;
            continue;
        }
        other_entry_points(ctx, label, msg, &reference);
        sweep(ctx, i, label, msg, &reference, &mut rng);
    }
    if skipped_long > 0 {
        ctx.obs("sink:generated_documents_over_30000_octets_not_swept", skipped_long);
    }
}
