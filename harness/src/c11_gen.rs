//! C11 — value generators for the CA protocol XML monitor.
//!
//! Everything here builds *field values* through the public API of rpki-rs
//! (string conversions, URI parsers, block builders). Nothing here decides a
//! verdict. All randomness comes from the `Rng` handed in.

use crate::core::Rng;
use chrono::DateTime;
use rpki::ca::provisioning::RequestResourceLimit;
use rpki::repository::resources::{
    Addr, AsBlocks, AsBlocksBuilder, Asn, IpBlocksBuilder, Ipv4Blocks, Ipv6Blocks, ResourceSet,
};
use rpki::repository::x509::Time;
use rpki::uri;
use std::str::FromStr;

//------------ size scale ------------------------------------------------------

use std::sync::atomic::{AtomicBool, Ordering};

/// Set for the interpreter stage: same shapes, small sizes.
static SMALL: AtomicBool = AtomicBool::new(false);

pub fn set_small(v: bool) {
    SMALL.store(v, Ordering::Relaxed)
}

pub fn small() -> bool {
    SMALL.load(Ordering::Relaxed)
}

//------------ free-form strings ----------------------------------------------

const XML_SPECIAL: &[u8] = b"<>&\"'";

/// Fragments that look like XML syntax; all printable ASCII.
const FRAGMENTS: &[&str] = &[
    "&amp;", "&lt;", "&#60;", "&#x26;", "&quot;", "&apos;", "&", "&&", "& ", "<", ">", "\"", "'", "''", "\"\"",
    "]]>", "<![CDATA[", "<!--", "-->", "<?xml", "?>", "</", "/>", "<a>", "</message>", "=\"", "' x='", "\" y=\"",
    "%", "%20", "\\", "{}", "$(x)", "`", "~", "#", ";", "&unknown;", "&#0;", "<!DOCTYPE a>", "xmlns=\"u\"",
];

/// A string over printable ASCII (0x20..=0x7E) with XML-special characters
/// and leading / trailing / double spaces over-represented.
pub fn freeform(rng: &mut Rng) -> String {
    let mode = rng.below(16);
    let len = match rng.below(20) {
        0 => 0,
        1..=3 => 1,
        4..=14 => rng.range(2, 24) as usize,
        15..=18 => rng.range(25, 120) as usize,
        _ => rng.range(200, 1500) as usize,
    };
    let len = if small() { len.min(30) } else { len };
    let mut s = String::with_capacity(len + 8);
    match mode {
        0 => {
            // only special characters
            for _ in 0..len {
                s.push(*rng.pick(XML_SPECIAL) as char);
            }
        }
        1 => {
            // only spaces
            for _ in 0..len {
                s.push(' ');
            }
        }
        2 => {
            // plain word (no specials): the trivial class, kept rare
            for _ in 0..len.max(1) {
                s.push(*rng.pick(b"abcXYZ019-_./") as char);
            }
        }
        3..=5 => {
            // fragments glued together
            while s.len() < len.max(1) {
                s.push_str(ps(rng, FRAGMENTS));
                if rng.chance(1, 3) {
                    s.push(*rng.pick(b"abc 019") as char);
                }
            }
        }
        _ => {
            for _ in 0..len {
                let c = match rng.below(10) {
                    0..=2 => *rng.pick(XML_SPECIAL),
                    3 => b' ',
                    _ => rng.range(0x20, 0x7E) as u8,
                };
                s.push(c as char);
            }
        }
    }
    // edge spaces
    match rng.below(12) {
        0 => s.insert(0, ' '),
        1 => s.push(' '),
        2 => {
            s.insert(0, ' ');
            s.push(' ');
        }
        3 => {
            let at = rng.usize_below(s.len() + 1);
            s.insert_str(at, "  ");
        }
        4 => {
            s.insert_str(0, "  ");
            s.push_str("   ");
        }
        _ => {}
    }
    debug_assert!(s.bytes().all(|b| (0x20..=0x7E).contains(&b)));
    s
}

fn ps(rng: &mut Rng, items: &[&'static str]) -> &'static str {
    items[rng.usize_below(items.len())]
}

pub fn has_special(s: &str) -> bool {
    s.bytes().any(|b| XML_SPECIAL.contains(&b))
}

pub fn has_edge_space(s: &str) -> bool {
    s.starts_with(' ') || s.ends_with(' ') || s.contains("  ")
}

//------------ handles --------------------------------------------------------

const HANDLE_ALPHABET: &[u8] = b"-_/ABCDEFGHIJKLMNOPQRSTUVWXYZabcdefghijklmnopqrstuvwxyz0123456789";

/// A string over the full alphabet `verify_name` admits, length 1..=255
/// (boundary lengths over-represented).
pub fn handle_str(rng: &mut Rng) -> String {
    let len = match rng.below(16) {
        0 => 1,
        1 => 255,
        2 => 254,
        3..=12 => rng.range(1, 20) as usize,
        _ => rng.range(21, 255) as usize,
    };
    let len = if small() && len < 254 { len.min(24) } else { len };
    let mut s = String::with_capacity(len);
    let flavour = rng.below(8);
    for _ in 0..len {
        let c = match flavour {
            0 => b'/',
            1 => *rng.pick(b"-_/"),
            _ => *rng.pick(HANDLE_ALPHABET),
        };
        s.push(c as char);
    }
    s
}

//------------ URIs -----------------------------------------------------------

/// Every character `uri::check_uri_ascii` admits.
const URI_CHARS: &[u8] = b"!$%&'()*+,-./0123456789:;=ABCDEFGHIJKLMNOPQRSTUVWXYZ_abcdefghijklmnopqrstuvwxyz~";

fn uri_segment(rng: &mut Rng, min: usize, max: usize) -> String {
    let len = rng.range(min as u64, max as u64) as usize;
    let flavour = rng.below(6);
    let mut s = String::with_capacity(len);
    for _ in 0..len {
        let c = loop {
            let c = match flavour {
                0 => *rng.pick(b"&'"),
                1 => *rng.pick(b"&';=%$!*+,()~:"),
                _ => *rng.pick(URI_CHARS),
            };
            if c != b'/' {
                break c;
            }
        };
        s.push(c as char);
    }
    s
}

fn scheme(rng: &mut Rng, name: &str) -> String {
    match rng.below(6) {
        0 => name.to_ascii_uppercase(),
        1 => name
            .chars()
            .map(|c| if rng.bool() { c.to_ascii_uppercase() } else { c })
            .collect(),
        _ => name.to_string(),
    }
}

/// Text of an rsync URI candidate (the parser decides).
pub fn rsync_text(rng: &mut Rng) -> String {
    let mut s = scheme(rng, "rsync");
    s.push_str("://");
    s.push_str(&uri_segment(rng, 1, 20));
    s.push('/');
    s.push_str(&uri_segment(rng, 1, 12));
    s.push('/');
    let segs = rng.below(5);
    for i in 0..segs {
        s.push_str(&uri_segment(rng, 1, 16));
        if i + 1 < segs || rng.bool() {
            s.push('/');
        }
    }
    s
}

pub fn https_text(rng: &mut Rng) -> String {
    let mut s = scheme(rng, "https");
    s.push_str("://");
    s.push_str(&uri_segment(rng, 1, 24));
    match rng.below(4) {
        0 => {}
        1 => s.push('/'),
        _ => {
            let segs = rng.range(1, 4);
            for _ in 0..segs {
                s.push('/');
                s.push_str(&uri_segment(rng, 0, 16));
            }
        }
    }
    s
}

/// An accepted rsync URI; `refused` counts candidates the parser rejected.
pub fn rsync(rng: &mut Rng, refused: &mut u64) -> uri::Rsync {
    loop {
        let t = rsync_text(rng);
        match uri::Rsync::from_string(t) {
            Ok(u) => return u,
            Err(_) => *refused += 1,
        }
    }
}

pub fn https(rng: &mut Rng, refused: &mut u64) -> uri::Https {
    loop {
        let t = https_text(rng);
        match uri::Https::from_string(t) {
            Ok(u) => return u,
            Err(_) => *refused += 1,
        }
    }
}

//------------ interval sets --------------------------------------------------

/// Canonical (sorted, disjoint, non-adjacent) closed intervals over `bits`-bit
/// unsigned integers together with a coarse shape label.
pub struct Intervals {
    pub ivs: Vec<(u128, u128)>,
    pub shape: &'static str,
}

fn max_of(bits: u32) -> u128 {
    if bits == 128 {
        u128::MAX
    } else {
        (1u128 << bits) - 1
    }
}

fn point(rng: &mut Rng, bits: u32, extra: &[u128]) -> u128 {
    let max = max_of(bits);
    match rng.below(10) {
        0 => 0,
        1 => max,
        2 => 1,
        3 => max - 1,
        4 | 5 if !extra.is_empty() => {
            let base = *rng.pick(extra);
            match rng.below(4) {
                0 => base,
                1 => base.wrapping_sub(1) & max,
                2 => base.wrapping_add(1) & max,
                _ => base.wrapping_add(rng.next_u32() as u128) & max,
            }
        }
        6 => {
            // aligned boundary
            let sh = rng.below(bits as u64) as u32;
            let v = (rng.next_u128() & max) >> sh << sh;
            if rng.bool() {
                v
            } else {
                v.wrapping_sub(1) & max
            }
        }
        _ => rng.next_u128() & max,
    }
}

fn prefix(rng: &mut Rng, bits: u32, extra: &[u128]) -> (u128, u128) {
    let len = match rng.below(8) {
        0 => 0,
        1 => bits,
        2 => bits - 1,
        3 => 1,
        _ => rng.below(bits as u64 + 1) as u32,
    };
    let host = bits - len;
    let max = max_of(bits);
    let mask = if host == 0 {
        0
    } else if host == 128 {
        u128::MAX
    } else {
        (1u128 << host) - 1
    };
    let base = point(rng, bits, extra) & max & !mask;
    (base, base | mask)
}

fn canonical(mut ivs: Vec<(u128, u128)>) -> Vec<(u128, u128)> {
    ivs.sort();
    let mut out: Vec<(u128, u128)> = Vec::new();
    for (lo, hi) in ivs {
        debug_assert!(lo <= hi);
        if let Some(last) = out.last_mut() {
            if last.1 == u128::MAX || lo <= last.1 + 1 {
                if hi > last.1 {
                    last.1 = hi;
                }
                continue;
            }
        }
        out.push((lo, hi));
    }
    out
}

/// `extra`: family-specific interesting values (e.g. the IPv4-mapped block).
pub fn intervals(rng: &mut Rng, bits: u32, extra: &[u128]) -> Intervals {
    let max = max_of(bits);
    let (ivs, shape): (Vec<(u128, u128)>, &'static str) = match rng.below(14) {
        0 => (vec![], "empty"),
        1 => {
            let p = point(rng, bits, extra);
            (vec![(p, p)], "single-point")
        }
        2 | 3 => (vec![prefix(rng, bits, extra)], "single-prefix"),
        4 | 5 => {
            let a = point(rng, bits, extra);
            let b = point(rng, bits, extra);
            (vec![(a.min(b), a.max(b))], "single-range")
        }
        6 => (vec![(0, max)], "all"),
        7..=11 => {
            let n = rng.range(2, 8);
            let mut v = Vec::new();
            for _ in 0..n {
                match rng.below(3) {
                    0 => {
                        let p = point(rng, bits, extra);
                        v.push((p, p));
                    }
                    1 => v.push(prefix(rng, bits, extra)),
                    _ => {
                        let a = point(rng, bits, extra);
                        let w = match rng.below(3) {
                            0 => rng.below(16) as u128,
                            1 => rng.next_u32() as u128,
                            _ => rng.next_u128() & max,
                        };
                        let b = a.saturating_add(w).min(max);
                        v.push((a, b));
                    }
                }
            }
            (v, "few")
        }
        _ => {
            let n = if small() { rng.range(9, 12) } else { rng.range(20, 60) };
            let mut v = Vec::new();
            let mut cur: u128 = rng.next_u128() & (max >> 4);
            for _ in 0..n {
                let w = if rng.bool() { 0 } else { (rng.next_u64() as u128) & (max >> 8) };
                let hi = cur.saturating_add(w).min(max);
                v.push((cur, hi));
                let gap = 2 + ((rng.next_u64() as u128) & (max >> 8));
                if hi >= max - gap {
                    break;
                }
                cur = hi + gap;
            }
            (v, "many")
        }
    };
    let ivs = canonical(ivs);
    let shape = if ivs.is_empty() { "empty" } else { shape };
    Intervals { ivs, shape }
}

//------------ resource blocks ------------------------------------------------

/// How the block values were obtained (for the evidence).
#[derive(Default)]
pub struct ResStats {
    /// text written by the generator that the library's `from_str` refused
    pub refused_text: u64,
    pub via_from_str: u64,
    pub via_builder: u64,
    /// IPv6 block lists with a boundary inside ::ffff:0:0/96
    pub v6_touching_v4_mapped: u64,
}

pub struct AsGen {
    pub blocks: AsBlocks,
    pub shape: &'static str,
}

pub fn as_blocks(rng: &mut Rng, stats: &mut ResStats) -> AsGen {
    let iv = intervals(rng, 32, &[0xFFFF, 0x1_0000, 64512, 65535, 4_200_000_000]);
    if rng.chance(1, 4) {
        // through the text form, written here
        let mut t = String::new();
        for (i, (lo, hi)) in iv.ivs.iter().enumerate() {
            if i > 0 {
                t.push_str(if rng.bool() { ", " } else { "," });
            }
            if lo == hi && rng.bool() {
                t.push_str(&format!("AS{lo}"));
            } else {
                t.push_str(&format!("AS{lo}-AS{hi}"));
            }
        }
        match AsBlocks::from_str(&t) {
            Ok(blocks) => {
                stats.via_from_str += 1;
                return AsGen { blocks, shape: iv.shape };
            }
            Err(_) => stats.refused_text += 1,
        }
    }
    let mut b = AsBlocksBuilder::new();
    for (lo, hi) in &iv.ivs {
        b.push((Asn::from_u32(*lo as u32), Asn::from_u32(*hi as u32)));
    }
    stats.via_builder += 1;
    AsGen { blocks: b.finalize(), shape: iv.shape }
}

pub struct V4Gen {
    pub blocks: Ipv4Blocks,
    pub shape: &'static str,
}

fn v4_text(a: u32) -> String {
    format!("{}.{}.{}.{}", a >> 24, (a >> 16) & 255, (a >> 8) & 255, a & 255)
}

fn as_prefix(lo: u128, hi: u128, bits: u32) -> Option<u32> {
    let span = hi ^ lo;
    // span must be 2^k - 1 and lo aligned to it
    if span & span.wrapping_add(1) != 0 || lo & span != 0 {
        return None;
    }
    let host = 128 - span.leading_zeros();
    Some(bits - host)
}

pub fn v4_blocks(rng: &mut Rng, stats: &mut ResStats) -> V4Gen {
    let iv = intervals(rng, 32, &[0x0A00_0000, 0x7F00_0001, 0xC0A8_0000, 0xE000_0000, 0xFFFF_FF00]);
    if rng.chance(1, 4) {
        let mut t = String::new();
        for (i, (lo, hi)) in iv.ivs.iter().enumerate() {
            if i > 0 {
                t.push_str(if rng.bool() { ", " } else { "," });
            }
            match as_prefix(*lo, *hi, 32) {
                Some(len) if rng.chance(3, 4) => t.push_str(&format!("{}/{}", v4_text(*lo as u32), len)),
                _ => t.push_str(&format!("{}-{}", v4_text(*lo as u32), v4_text(*hi as u32))),
            }
        }
        match Ipv4Blocks::from_str(&t) {
            Ok(blocks) => {
                stats.via_from_str += 1;
                return V4Gen { blocks, shape: iv.shape };
            }
            Err(_) => stats.refused_text += 1,
        }
    }
    let mut b = IpBlocksBuilder::new();
    for (lo, hi) in &iv.ivs {
        // the library stores an IPv4 address in the upper 32 bits; a block
        // ends at the last 128-bit value of its last address
        let min = Addr::from_bits(lo << 96);
        let max = Addr::from_bits((hi << 96) | ((1u128 << 96) - 1));
        b.push((min, max));
    }
    stats.via_builder += 1;
    V4Gen { blocks: Ipv4Blocks::from(b.finalize()), shape: iv.shape }
}

pub struct V6Gen {
    pub blocks: Ipv6Blocks,
    pub shape: &'static str,
}

const V4_MAPPED_LO: u128 = 0xFFFF_0000_0000;
const V4_MAPPED_HI: u128 = 0xFFFF_FFFF_FFFF;

fn v6_text_full(a: u128) -> String {
    let mut parts = Vec::with_capacity(8);
    for i in (0..8).rev() {
        parts.push(format!("{:x}", (a >> (16 * i)) & 0xFFFF));
    }
    parts.join(":")
}

pub fn v6_blocks(rng: &mut Rng, stats: &mut ResStats) -> V6Gen {
    let extra: [u128; 8] = [
        V4_MAPPED_LO,
        V4_MAPPED_HI,
        0x0102_0304,                 // ::1.2.3.4 (IPv4-compatible region)
        0x1_0000_0000,               // ::1:0:0
        0x2001_0db8u128 << 96,       // 2001:db8::
        0xfe80u128 << 112,           // fe80::
        0x0064_ff9bu128 << 96,       // 64:ff9b::/96
        0xFFFF_0102_0304,            // ::ffff:1.2.3.4
    ];
    let mut iv = intervals(rng, 128, &extra);
    // dedicated IPv4-mapped shapes
    if rng.chance(1, 8) {
        let (ivs, shape): (Vec<(u128, u128)>, &'static str) = match rng.below(5) {
            0 => (vec![(V4_MAPPED_LO, V4_MAPPED_HI)], "v4mapped-/96"),
            1 => {
                let a = V4_MAPPED_LO | rng.next_u32() as u128;
                (vec![(a, a)], "v4mapped-single")
            }
            2 => {
                let len = rng.range(97, 127) as u32;
                let mask = (1u128 << (128 - len)) - 1;
                let base = (V4_MAPPED_LO | rng.next_u32() as u128) & !mask;
                (vec![(base, base | mask)], "v4mapped-prefix")
            }
            3 => {
                let a = V4_MAPPED_LO | rng.next_u32() as u128;
                let b = V4_MAPPED_LO | rng.next_u32() as u128;
                (vec![(a.min(b), a.max(b))], "v4mapped-range")
            }
            _ => {
                let a = V4_MAPPED_LO - 1 - (rng.next_u32() as u128);
                let b = V4_MAPPED_HI + 1 + (rng.next_u32() as u128);
                (vec![(a, b)], "v4mapped-inside-range")
            }
        };
        iv = Intervals { ivs: canonical(ivs), shape };
    }
    let touches = iv
        .ivs
        .iter()
        .any(|(lo, hi)| (V4_MAPPED_LO..=V4_MAPPED_HI).contains(lo) || (V4_MAPPED_LO..=V4_MAPPED_HI).contains(hi));
    if touches {
        stats.v6_touching_v4_mapped += 1;
    }
    if rng.chance(1, 4) {
        let mut t = String::new();
        for (i, (lo, hi)) in iv.ivs.iter().enumerate() {
            if i > 0 {
                t.push_str(if rng.bool() { ", " } else { "," });
            }
            match as_prefix(*lo, *hi, 128) {
                Some(len) if rng.chance(3, 4) => t.push_str(&format!("{}/{}", v6_text_full(*lo), len)),
                _ => t.push_str(&format!("{}-{}", v6_text_full(*lo), v6_text_full(*hi))),
            }
        }
        match Ipv6Blocks::from_str(&t) {
            Ok(blocks) => {
                stats.via_from_str += 1;
                return V6Gen { blocks, shape: iv.shape };
            }
            Err(_) => stats.refused_text += 1,
        }
    }
    let mut b = IpBlocksBuilder::new();
    for (lo, hi) in &iv.ivs {
        b.push((Addr::from_bits(*lo), Addr::from_bits(*hi)));
    }
    stats.via_builder += 1;
    V6Gen { blocks: Ipv6Blocks::from(b.finalize()), shape: iv.shape }
}

pub struct SetGen {
    pub set: ResourceSet,
    /// coarse class for the case signature
    pub class: String,
}

pub fn resource_set(rng: &mut Rng, stats: &mut ResStats) -> SetGen {
    let a = as_blocks(rng, stats);
    let v4 = v4_blocks(rng, stats);
    let v6 = v6_blocks(rng, stats);
    let class = format!("as={},v4={},v6={}", a.shape, v4.shape, v6.shape);
    SetGen {
        set: ResourceSet::new(a.blocks, v4.blocks, v6.blocks),
        class,
    }
}

pub struct LimitGen {
    pub limit: RequestResourceLimit,
    pub class: String,
}

pub fn limit(rng: &mut Rng, stats: &mut ResStats) -> LimitGen {
    let mut l = RequestResourceLimit::new();
    let mut class = String::new();
    if rng.chance(2, 3) {
        // mostly: no limit at all or a single family
        match rng.below(5) {
            0 => {
                let g = as_blocks(rng, stats);
                class = format!("as={}", g.shape);
                l.with_asn(g.blocks);
            }
            1 => {
                let g = v4_blocks(rng, stats);
                class = format!("v4={}", g.shape);
                l.with_ipv4(g.blocks);
            }
            2 => {
                let g = v6_blocks(rng, stats);
                class = format!("v6={}", g.shape);
                l.with_ipv6(g.blocks);
            }
            _ => class.push_str("none"),
        }
    } else {
        let a = as_blocks(rng, stats);
        let v4 = v4_blocks(rng, stats);
        let v6 = v6_blocks(rng, stats);
        class = format!("as={},v4={},v6={}", a.shape, v4.shape, v6.shape);
        l.with_asn(a.blocks);
        l.with_ipv4(v4.blocks);
        l.with_ipv6(v6.blocks);
    }
    LimitGen { limit: l, class }
}

//------------ misc -----------------------------------------------------------

/// A whole-second instant between 0001-01-01 and 9999-12-31 (boundaries and
/// leap days over-represented).
pub fn whole_second_time(rng: &mut Rng) -> Time {
    const MIN: i64 = -62_135_596_800; // 0001-01-01T00:00:00Z
    const MAX: i64 = 253_402_300_799; // 9999-12-31T23:59:59Z
    let secs = match rng.below(12) {
        0 => MIN,
        1 => MAX,
        2 => 0,
        3 => -1,
        4 => 951_782_400 + rng.below(86_400) as i64,   // 2000-02-29
        5 => 2_524_607_999,                            // 2049-12-31T23:59:59Z
        6 => 2_524_608_000,                            // 2050-01-01T00:00:00Z
        7 => rng.range(0, (MAX - MIN) as u64) as i64 + MIN,
        _ => rng.range(1_000_000_000, 4_000_000_000) as i64,
    };
    Time::new(DateTime::from_timestamp(secs, 0).expect("timestamp in range"))
}

pub fn subsecond_time(rng: &mut Rng) -> Time {
    let secs = rng.range(1_000_000_000, 4_000_000_000) as i64;
    let nanos = rng.range(1, 999_999_999) as u32;
    Time::new(DateTime::from_timestamp(secs, nanos).expect("timestamp in range"))
}

/// Object contents: any bytes, all three base64 padding classes, sometimes large.
pub fn content(rng: &mut Rng) -> Vec<u8> {
    let len = match rng.below(20) {
        0 => 1,
        1 => 2,
        2 => 3,
        3..=12 => rng.range(4, 200) as usize,
        13..=17 => rng.range(201, 4000) as usize,
        18 => rng.range(4001, 70_000) as usize,
        _ => rng.range(1, 64) as usize,
    };
    let len = if small() { len.min(4 + len % 90) } else { len };
    match rng.below(6) {
        0 => vec![0u8; len],
        1 => vec![0xFFu8; len],
        2 => {
            // text that looks like XML
            let mut v = Vec::new();
            while v.len() < len {
                v.extend_from_slice(ps(rng, FRAGMENTS).as_bytes());
            }
            v.truncate(len);
            v
        }
        _ => rng.bytes(len),
    }
}

pub fn hash32(rng: &mut Rng) -> [u8; 32] {
    let mut h = [0u8; 32];
    match rng.below(8) {
        0 => {}
        1 => h = [0xFF; 32],
        _ => h.copy_from_slice(&rng.bytes(32)),
    }
    h
}

pub fn key_id20(rng: &mut Rng) -> [u8; 20] {
    let mut h = [0u8; 20];
    match rng.below(8) {
        0 => {}
        1 => h = [0xFF; 20],
        2 => h = [0xFB; 20], // base64 of 0xFB.. uses '+' and '/' heavy alphabets
        _ => h.copy_from_slice(&rng.bytes(20)),
    }
    h
}
