//! C09 helpers that touch the library: building library values from model
//! values, collecting `ProcessSnapshot` / `ProcessDelta` implementations,
//! field-by-field comparison and a uniform "parse this kind" entry point.

use crate::c09_gen::{Kind, MDelta, MEl, MNotif, MSnap, H32};
use bytes::Bytes;
use rpki::rrdp::{
    Delta, DeltaElement, DeltaInfo, Hash, NotificationFile, ObjectReader, ProcessDelta, ProcessError,
    ProcessSnapshot, PublishElement, Snapshot, UpdateElement, UriAndHash, WithdrawElement,
};
use rpki::uri;
use rpki::xml::decode::Error as XmlError;
use std::io::{BufRead, Read};
use uuid::Uuid;

//------------ model -> library ----------------------------------------------

pub fn lib_notif(m: &MNotif) -> Option<NotificationFile> {
    let snap = UriAndHash::new(uri::Https::from_string(m.snapshot.0.clone()).ok()?, Hash::from(m.snapshot.1));
    let mut deltas = Vec::with_capacity(m.deltas.len());
    for (serial, u, h) in &m.deltas {
        deltas.push(DeltaInfo::new(*serial, uri::Https::from_string(u.clone()).ok()?, Hash::from(*h)));
    }
    Some(NotificationFile::new(Uuid::from_bytes(m.session), m.serial, snap, deltas))
}

pub fn lib_snap(m: &MSnap) -> Option<Snapshot> {
    let mut els = Vec::with_capacity(m.elements.len());
    for (u, d) in &m.elements {
        els.push(PublishElement::new(uri::Rsync::from_string(u.clone()).ok()?, Bytes::from(d.clone())));
    }
    Some(Snapshot::new(Uuid::from_bytes(m.session), m.serial, els))
}

pub fn lib_delta(m: &MDelta) -> Option<Delta> {
    let mut els = Vec::with_capacity(m.elements.len());
    for el in &m.elements {
        els.push(match el {
            MEl::Publish(u, d) => DeltaElement::Publish(PublishElement::new(
                uri::Rsync::from_string(u.clone()).ok()?,
                Bytes::from(d.clone()),
            )),
            MEl::Update(u, h, d) => DeltaElement::Update(UpdateElement::new(
                uri::Rsync::from_string(u.clone()).ok()?,
                Hash::from(*h),
                Bytes::from(d.clone()),
            )),
            MEl::Withdraw(u, h) => {
                DeltaElement::Withdraw(WithdrawElement::new(uri::Rsync::from_string(u.clone()).ok()?, Hash::from(*h)))
            }
        });
    }
    Some(Delta::new(Uuid::from_bytes(m.session), m.serial, els))
}

//------------ comparison against the model ----------------------------------

fn same_https(got: &uri::Https, want: &str) -> bool {
    match uri::Https::from_string(want.to_string()) {
        Ok(w) => *got == w,
        Err(_) => false,
    }
}

fn same_rsync(got: &uri::Rsync, want: &str) -> bool {
    match uri::Rsync::from_string(want.to_string()) {
        Ok(w) => *got == w,
        Err(_) => false,
    }
}

fn same_hash(got: &[u8], want: &H32) -> bool {
    got == &want[..]
}

/// First differing field between a parsed notification and the model.
pub fn diff_notif(p: &NotificationFile, m: &MNotif) -> Option<String> {
    if p.session_id().as_bytes() != &m.session {
        return Some("session".into());
    }
    if p.serial() != m.serial {
        return Some("serial".into());
    }
    if !same_https(p.snapshot().uri(), &m.snapshot.0) {
        return Some("snapshot-uri".into());
    }
    if !same_hash(p.snapshot().hash().as_slice(), &m.snapshot.1) {
        return Some("snapshot-hash".into());
    }
    if p.delta_status().is_err() {
        return Some("delta-status".into());
    }
    if p.deltas().len() != m.deltas.len() {
        return Some("delta-count".into());
    }
    for (d, (serial, u, h)) in p.deltas().iter().zip(&m.deltas) {
        if d.serial() != *serial {
            return Some("delta-serial-or-order".into());
        }
        if !same_https(d.uri(), u) {
            return Some("delta-uri".into());
        }
        if !same_hash(d.hash().as_slice(), h) {
            return Some("delta-hash".into());
        }
    }
    None
}

pub fn diff_snap(p: &Snapshot, m: &MSnap) -> Option<String> {
    if p.session_id().as_bytes() != &m.session {
        return Some("session".into());
    }
    if p.serial() != m.serial {
        return Some("serial".into());
    }
    if p.elements().len() != m.elements.len() {
        return Some("element-count".into());
    }
    for (e, (u, d)) in p.elements().iter().zip(&m.elements) {
        if !same_rsync(e.uri(), u) {
            return Some("publish-uri-or-order".into());
        }
        if e.data().as_ref() != &d[..] {
            return Some(format!("publish-data-len{}", crate::c09_gen::data_class(d)));
        }
    }
    None
}

pub fn diff_delta(p: &Delta, m: &MDelta) -> Option<String> {
    if p.session_id().as_bytes() != &m.session {
        return Some("session".into());
    }
    if p.serial() != m.serial {
        return Some("serial".into());
    }
    if p.elements().len() != m.elements.len() {
        return Some("element-count".into());
    }
    for (e, me) in p.elements().iter().zip(&m.elements) {
        match (e, me) {
            (DeltaElement::Publish(e), MEl::Publish(u, d)) => {
                if !same_rsync(e.uri(), u) {
                    return Some("publish-uri-or-order".into());
                }
                if e.data().as_ref() != &d[..] {
                    return Some(format!("publish-data-len{}", crate::c09_gen::data_class(d)));
                }
            }
            (DeltaElement::Update(e), MEl::Update(u, h, d)) => {
                if !same_rsync(e.uri(), u) {
                    return Some("update-uri-or-order".into());
                }
                if !same_hash(e.hash().as_slice(), h) {
                    return Some("update-hash".into());
                }
                if e.data().as_ref() != &d[..] {
                    return Some(format!("update-data-len{}", crate::c09_gen::data_class(d)));
                }
            }
            (DeltaElement::Withdraw(e), MEl::Withdraw(u, h)) => {
                if !same_rsync(e.uri(), u) {
                    return Some("withdraw-uri-or-order".into());
                }
                if !same_hash(e.hash().as_slice(), h) {
                    return Some("withdraw-hash".into());
                }
            }
            _ => return Some("element-kind-or-order".into()),
        }
    }
    None
}

//------------ collecting processors -----------------------------------------

#[derive(Clone, Copy, Debug, PartialEq, Eq)]
pub enum ReadMode {
    ToEnd,
    Chunk(usize),
    Skip,
    Partial(usize),
    /// A processor that mixes the `std::io::Read` entry points on one
    /// object: a few of `read` / `read_vectored` / `take(k).read_to_end` /
    /// `bytes().take(k)` first, then one of `read_to_end`, `io::copy`,
    /// `read_to_string`-free chunk loop. Chosen by the seed, per object.
    Mixed(u64),
}

#[derive(Debug)]
pub enum CErr {
    Lib(ProcessError),
    User,
}

impl From<ProcessError> for CErr {
    fn from(e: ProcessError) -> Self {
        CErr::Lib(e)
    }
}

#[derive(Clone, Debug, PartialEq, Eq)]
pub enum CEl {
    Publish(uri::Rsync, Option<Hash>, Vec<u8>),
    Withdraw(uri::Rsync, Hash),
}

pub struct Collect {
    pub mode: ReadMode,
    pub keep: bool,
    pub fail_at: Option<usize>,
    pub metas: Vec<(Uuid, u64)>,
    pub meta_after_elements: bool,
    pub els: Vec<CEl>,
    pub seen: usize,
    pub data_bytes: u64,
}

impl Collect {
    pub fn new(mode: ReadMode) -> Self {
        Collect {
            mode,
            keep: true,
            fail_at: None,
            metas: Vec::new(),
            meta_after_elements: false,
            els: Vec::new(),
            seen: 0,
            data_bytes: 0,
        }
    }

    fn on_meta(&mut self, s: Uuid, n: u64) -> Result<(), CErr> {
        if self.seen > 0 {
            self.meta_after_elements = true;
        }
        self.metas.push((s, n));
        Ok(())
    }

    fn read_data(&mut self, data: &mut ObjectReader) -> Result<Vec<u8>, CErr> {
        let mut out = Vec::new();
        match self.mode {
            ReadMode::ToEnd => {
                data.read_to_end(&mut out).map_err(|e| CErr::Lib(ProcessError::Io(e)))?;
            }
            ReadMode::Chunk(n) | ReadMode::Partial(n) => {
                let mut buf = vec![0u8; n.max(1)];
                loop {
                    let k = data.read(&mut buf).map_err(|e| CErr::Lib(ProcessError::Io(e)))?;
                    if k == 0 {
                        break;
                    }
                    out.extend_from_slice(&buf[..k]);
                    if matches!(self.mode, ReadMode::Partial(_)) {
                        break;
                    }
                }
            }
            ReadMode::Skip => {}
            ReadMode::Mixed(seed) => {
                let mut x = seed ^ (self.seen as u64).wrapping_mul(0x9e37_79b9_7f4a_7c15);
                let mut next = |m: u64| crate::core::splitmix64(&mut x) % m;
                let io = |e| CErr::Lib(ProcessError::Io(e));
                let mut ended = false;
                for _ in 0..next(4) {
                    let k = [1usize, 2, 3, 4, 5, 7, 16, 100, 4096][next(9) as usize];
                    match next(4) {
                        0 => {
                            let mut buf = vec![0u8; k];
                            let n = data.read(&mut buf).map_err(io)?;
                            out.extend_from_slice(&buf[..n]);
                            ended = n == 0;
                        }
                        1 => {
                            let (mut a, mut b) = (vec![0u8; k], vec![0u8; 3]);
                            let n = {
                                let mut bufs = [std::io::IoSliceMut::new(&mut a), std::io::IoSliceMut::new(&mut b)];
                                data.read_vectored(&mut bufs).map_err(io)?
                            };
                            out.extend_from_slice(&a[..n.min(k)]);
                            if n > k {
                                out.extend_from_slice(&b[..n - k]);
                            }
                            ended = n == 0;
                        }
                        2 => {
                            let n = data.by_ref().take(k as u64).read_to_end(&mut out).map_err(io)?;
                            ended = n < k;
                        }
                        _ => {
                            for b in data.by_ref().bytes().take(k) {
                                out.push(b.map_err(io)?);
                            }
                        }
                    }
                    if ended {
                        break;
                    }
                }
                match next(3) {
                    0 => {
                        data.read_to_end(&mut out).map_err(io)?;
                    }
                    1 => {
                        std::io::copy(data, &mut out).map_err(io)?;
                    }
                    _ => {
                        let mut buf = vec![0u8; 1 + next(9000) as usize];
                        loop {
                            let n = data.read(&mut buf).map_err(io)?;
                            if n == 0 {
                                break;
                            }
                            out.extend_from_slice(&buf[..n]);
                        }
                    }
                }
            }
        }
        self.data_bytes += out.len() as u64;
        Ok(out)
    }

    fn on_publish(&mut self, uri: uri::Rsync, hash: Option<Hash>, data: &mut ObjectReader) -> Result<(), CErr> {
        if self.fail_at == Some(self.seen) {
            return Err(CErr::User);
        }
        self.seen += 1;
        let d = self.read_data(data)?;
        if self.keep {
            self.els.push(CEl::Publish(uri, hash, d));
        }
        Ok(())
    }
}

impl ProcessSnapshot for Collect {
    type Err = CErr;
    fn meta(&mut self, session_id: Uuid, serial: u64) -> Result<(), CErr> {
        self.on_meta(session_id, serial)
    }
    fn publish(&mut self, uri: uri::Rsync, data: &mut ObjectReader) -> Result<(), CErr> {
        self.on_publish(uri, None, data)
    }
}

impl ProcessDelta for Collect {
    type Err = CErr;
    fn meta(&mut self, session_id: Uuid, serial: u64) -> Result<(), CErr> {
        self.on_meta(session_id, serial)
    }
    fn publish(&mut self, uri: uri::Rsync, hash: Option<Hash>, data: &mut ObjectReader) -> Result<(), CErr> {
        self.on_publish(uri, hash, data)
    }
    fn withdraw(&mut self, uri: uri::Rsync, hash: Hash) -> Result<(), CErr> {
        if self.fail_at == Some(self.seen) {
            return Err(CErr::User);
        }
        self.seen += 1;
        if self.keep {
            self.els.push(CEl::Withdraw(uri, hash));
        }
        Ok(())
    }
}

/// Compares what a collector saw with the model. With `Skip` / `Partial`
/// only the part of the data that was read is compared.
pub fn diff_collect(c: &Collect, session: &[u8; 16], serial: u64, want: &[MEl]) -> Option<String> {
    if c.metas.len() != 1 {
        return Some(format!("meta-called-{}-times", c.metas.len()));
    }
    if c.meta_after_elements {
        return Some("meta-after-elements".into());
    }
    if c.metas[0].0.as_bytes() != session {
        return Some("session".into());
    }
    if c.metas[0].1 != serial {
        return Some("serial".into());
    }
    if c.els.len() != want.len() {
        return Some("element-count".into());
    }
    let data_ok = |got: &[u8], d: &[u8]| match c.mode {
        ReadMode::ToEnd | ReadMode::Chunk(_) | ReadMode::Mixed(_) => got == d,
        ReadMode::Skip => got.is_empty(),
        ReadMode::Partial(_) => got.len() <= d.len() && got == &d[..got.len()] && (d.is_empty() || !got.is_empty()),
    };
    for (e, me) in c.els.iter().zip(want) {
        match (e, me) {
            (CEl::Publish(u, None, got), MEl::Publish(mu, d)) => {
                if !same_rsync(u, mu) {
                    return Some("publish-uri-or-order".into());
                }
                if !data_ok(got, d) {
                    return Some(format!("publish-data-len{}", crate::c09_gen::data_class(d)));
                }
            }
            (CEl::Publish(u, Some(h), got), MEl::Update(mu, mh, d)) => {
                if !same_rsync(u, mu) {
                    return Some("update-uri-or-order".into());
                }
                if !same_hash(h.as_slice(), mh) {
                    return Some("update-hash".into());
                }
                if !data_ok(got, d) {
                    return Some(format!("update-data-len{}", crate::c09_gen::data_class(d)));
                }
            }
            (CEl::Withdraw(u, h), MEl::Withdraw(mu, mh)) => {
                if !same_rsync(u, mu) {
                    return Some("withdraw-uri-or-order".into());
                }
                if !same_hash(h.as_slice(), mh) {
                    return Some("withdraw-hash".into());
                }
            }
            _ => return Some("element-kind-or-order".into()),
        }
    }
    None
}

//------------ uniform parse entry -------------------------------------------

pub enum Parsed {
    Notif(NotificationFile),
    Snap(Snapshot),
    Delta(Delta),
    /// A collector ran to completion (elements seen).
    Collected(usize),
}

#[derive(Clone, Copy, Debug, PartialEq, Eq)]
pub enum Via {
    /// `NotificationFile::parse`, `Snapshot::parse`, `Delta::parse`.
    Owned,
    /// `parse_limited` (notification) / the harness' collecting processor.
    Alt,
}

pub fn xml_err_class(e: &XmlError) -> &'static str {
    match e {
        XmlError::Xml(_) => "err-xml",
        XmlError::XmlAttr(_) => "err-attr",
        XmlError::Malformed => "err-malformed",
    }
}

pub fn process_err_class(e: &ProcessError) -> &'static str {
    match e {
        ProcessError::Io(_) => "err-io",
        ProcessError::Xml(x) => xml_err_class(x),
    }
}

/// Parses `reader` as a file of `kind`. Ok(value) or Err((class, message)).
pub fn parse_kind<R: BufRead>(kind: Kind, via: Via, reader: R) -> Result<Parsed, (&'static str, String)> {
    match (kind, via) {
        (Kind::Notification, Via::Owned) => NotificationFile::parse(reader)
            .map(Parsed::Notif)
            .map_err(|e| (xml_err_class(&e), e.to_string())),
        (Kind::Notification, Via::Alt) => NotificationFile::parse_limited(reader, 2)
            .map(Parsed::Notif)
            .map_err(|e| (xml_err_class(&e), e.to_string())),
        (Kind::Snapshot, Via::Owned) => {
            Snapshot::parse(reader).map(Parsed::Snap).map_err(|e| (process_err_class(&e), e.to_string()))
        }
        (Kind::Delta, Via::Owned) => {
            Delta::parse(reader).map(Parsed::Delta).map_err(|e| (process_err_class(&e), e.to_string()))
        }
        (Kind::Snapshot, Via::Alt) => {
            let mut c = Collect::new(ReadMode::Chunk(4096));
            c.keep = false;
            match ProcessSnapshot::process(&mut c, reader) {
                Ok(()) => Ok(Parsed::Collected(c.seen)),
                Err(CErr::Lib(e)) => Err((process_err_class(&e), e.to_string())),
                Err(CErr::User) => Err(("err-user", String::new())),
            }
        }
        (Kind::Delta, Via::Alt) => {
            let mut c = Collect::new(ReadMode::Chunk(4096));
            c.keep = false;
            match ProcessDelta::process(&mut c, reader) {
                Ok(()) => Ok(Parsed::Collected(c.seen)),
                Err(CErr::Lib(e)) => Err((process_err_class(&e), e.to_string())),
                Err(CErr::User) => Err(("err-user", String::new())),
            }
        }
    }
}

/// `write_xml` of a parsed value followed by a parse; true when equal.
/// None when the value kind has no writer (collector result).
pub fn reroundtrip(p: &Parsed) -> Option<Result<bool, String>> {
    let mut xml = Vec::new();
    match p {
        Parsed::Notif(v) => {
            if v.delta_status().is_err() {
                return None;
            }
            v.write_xml(&mut xml).ok()?;
            Some(NotificationFile::parse(&xml[..]).map(|q| q == *v).map_err(|e| e.to_string()))
        }
        Parsed::Snap(v) => {
            v.write_xml(&mut xml).ok()?;
            Some(Snapshot::parse(&xml[..]).map(|q| q == *v).map_err(|e| e.to_string()))
        }
        Parsed::Delta(v) => {
            v.write_xml(&mut xml).ok()?;
            Some(Delta::parse(&xml[..]).map(|q| q == *v).map_err(|e| e.to_string()))
        }
        Parsed::Collected(_) => None,
    }
}
