//! C11 — text-level generator of CA protocol documents.
//!
//! The constructors of the message types cannot produce every message the
//! decoders can: optional elements and attributes that a constructor always
//! fills (`<description>`, `<error_text>`, `tag`, the resource attributes of
//! `<class>`, …) can be absent in a received document, children can come in
//! another order, optional extras (`suggested_sia_head`, `<offer/>`,
//! `<referral>`, `<failed_pdu>`) can be present. This module writes documents
//! of every RFC 6492 / 8181 / 8183 message kind with its own small XML
//! writer (nothing from `rpki::xml`), with every optional part independently
//! present or absent and in several legal spellings. All field values are
//! protocol-valid. What the library's decoder makes of such a document is a
//! message obtained through the public API, so the round-trip law of the
//! property applies to it: what is accepted must be written as well-formed
//! XML that parses back to an equal message.
//!
//! A second pass (`next_lexical`) writes the same population of documents
//! with one to three attribute values or text nodes re-spelled in every other
//! lexical form XML has for the same character data (CDATA sections,
//! character references, predefined entities, comments and processing
//! instructions between text, white space, CRLF; see "lexical forms" below).
//! A writer that copies a field out unescaped is only right as long as the
//! reader cannot deliver a markup character in that field, and which
//! spellings the reader takes is exactly what this pass varies.

use super::{gen, Crypto, Kind};
use crate::core::Rng;

pub struct TextDoc {
    pub kind: Kind,
    pub variant: &'static str,
    /// optional parts that were left out (sorted, deduplicated)
    pub absent: Vec<&'static str>,
    /// optional extras that were put in
    pub extras: Vec<&'static str>,
    pub spelling: String,
    /// `Some(reason)`: the document is outside the protocol; observed only
    pub lenient: Option<&'static str>,
    /// `Some(reason)`: a value is longer than the schema allows; a decoder
    /// that refuses the library's own output for it is within its rights
    pub open: Option<&'static str>,
    pub doc: Vec<u8>,
    /// lexical forms applied to attribute values / text nodes (lexical pass only)
    pub lex: Vec<LexUse>,
    /// what is needed to write the same document again with fewer lexical forms
    replay: Option<Replay>,
}

struct Replay {
    root: El,
    style: Style,
    render_seed: u64,
    lex_seed: u64,
    targets: Vec<usize>,
}

impl TextDoc {
    /// A document written elsewhere (`c11_long`): every part present, nothing extra.
    pub fn literal(kind: Kind, variant: &'static str, doc: Vec<u8>) -> Self {
        TextDoc { kind, variant, absent: Vec::new(), extras: Vec::new(), spelling: String::new(), lenient: None, open: None, doc, lex: Vec::new(), replay: None }
    }

    /// The same document with every value in the plain spelling.
    pub fn render_plain(&self) -> Option<Vec<u8>> {
        let r = self.replay.as_ref()?;
        let mut lex = Lex { seed: r.lex_seed, targets: Vec::new(), calm: true, next: 0, uses: Vec::new() };
        Some(render(&r.root, &r.style, &mut Rng::new(r.render_seed), &mut lex))
    }

    /// The same document with only the `i`-th lexical form applied (all other
    /// values in the plain spelling). Used to name the culprit of a failure.
    pub fn render_only(&self, i: usize) -> Option<(Vec<u8>, Vec<LexUse>)> {
        let r = self.replay.as_ref()?;
        let t = *r.targets.get(i)?;
        let mut lex = Lex { seed: r.lex_seed, targets: vec![t], calm: true, next: 0, uses: Vec::new() };
        let doc = render(&r.root, &r.style, &mut Rng::new(r.render_seed), &mut lex);
        Some((doc, lex.uses))
    }
}

//------------ a tiny XML writer ------------------------------------------------

enum Node {
    El(El),
    /// character data, escaped when written
    Text(String),
    /// Base64 text, written as is (possibly folded into lines)
    B64(String),
}

struct El {
    name: &'static str,
    attrs: Vec<(&'static str, String)>,
    kids: Vec<Node>,
}

impl El {
    fn new(name: &'static str) -> Self {
        El { name, attrs: Vec::new(), kids: Vec::new() }
    }
    fn attr(mut self, k: &'static str, v: impl Into<String>) -> Self {
        self.attrs.push((k, v.into()));
        self
    }
    fn kid(mut self, n: Node) -> Self {
        self.kids.push(n);
        self
    }
}

struct Style {
    declaration: bool,
    comments: bool,
    single_quotes: bool,
    shuffle_attrs: bool,
    pretty: bool,
    explicit_close: bool,
    fold_base64: usize,
    crlf: bool,
}

impl Style {
    fn random(rng: &mut Rng) -> Self {
        if rng.chance(1, 3) {
            // the plain spelling
            return Style {
                declaration: false, comments: false, single_quotes: false, shuffle_attrs: false, pretty: true,
                explicit_close: false, fold_base64: 0, crlf: false,
            };
        }
        Style {
            declaration: rng.chance(1, 3),
            comments: rng.chance(1, 4),
            single_quotes: rng.chance(1, 3),
            shuffle_attrs: rng.bool(),
            pretty: rng.chance(2, 3),
            explicit_close: rng.chance(1, 5),
            fold_base64: *rng.pick(&[0usize, 0, 64, 76]),
            crlf: rng.chance(1, 8),
        }
    }
    fn describe(&self) -> String {
        let mut v = Vec::new();
        if self.declaration { v.push("decl") }
        if self.comments { v.push("comments") }
        if self.single_quotes { v.push("apos-quotes") }
        if self.shuffle_attrs { v.push("attr-order") }
        if !self.pretty { v.push("compact") }
        if self.explicit_close { v.push("explicit-close") }
        if self.fold_base64 > 0 { v.push("folded-base64") }
        if self.crlf { v.push("crlf") }
        if v.is_empty() { "plain".into() } else { v.join("+") }
    }
}

fn esc(s: &str, attr_quote: Option<char>) -> String {
    let mut o = String::with_capacity(s.len() + 8);
    for c in s.chars() {
        match c {
            '&' => o.push_str("&amp;"),
            '<' => o.push_str("&lt;"),
            '>' => o.push_str("&gt;"),
            '"' if attr_quote == Some('"') => o.push_str("&quot;"),
            '\'' if attr_quote == Some('\'') => o.push_str("&apos;"),
            c => o.push(c),
        }
    }
    o
}

fn write_el(out: &mut String, el: &El, st: &Style, rng: &mut Rng, depth: usize, lex: &mut Lex) {
    let nl = if st.crlf { "\r\n" } else { "\n" };
    let pad = |out: &mut String, depth: usize| {
        if st.pretty {
            out.push_str(nl);
            for _ in 0..depth {
                out.push_str("  ");
            }
        }
    };
    out.push('<');
    out.push_str(el.name);
    let mut order: Vec<usize> = (0..el.attrs.len()).collect();
    if st.shuffle_attrs {
        rng.shuffle(&mut order);
    }
    // slot numbers: the attributes in declaration order, then the text nodes
    // in document order (the same walk as `collect_slots`)
    let base = lex.next;
    lex.next += el.attrs.len();
    for i in order {
        let (k, v) = &el.attrs[i];
        let q = if st.single_quotes && rng.bool() { '\'' } else { '"' };
        out.push(' ');
        out.push_str(k);
        if lex.wants(base + i) {
            let mut r = lex.rng_for(base + i);
            let (eq, l) = lex_attr(&mut r, v, q);
            out.push_str(eq);
            out.push(q);
            out.push_str(&l.lexical);
            out.push(q);
            lex.record(format!("attr:{}@{}", el.name, k), l);
            continue;
        }
        out.push('=');
        out.push(q);
        out.push_str(&esc(v, Some(q)));
        out.push(q);
    }
    if el.kids.is_empty() {
        if st.explicit_close {
            out.push_str("></");
            out.push_str(el.name);
            out.push('>');
        } else {
            out.push_str("/>");
        }
        return;
    }
    out.push('>');
    for k in &el.kids {
        match k {
            Node::El(e) => {
                if st.comments && rng.chance(1, 3) {
                    pad(out, depth + 1);
                    out.push_str("<!-- a comment, with <markup> & such -->");
                }
                pad(out, depth + 1);
                write_el(out, e, st, rng, depth + 1, lex);
            }
            Node::Text(t) => {
                let slot = lex.next;
                lex.next += 1;
                pad(out, depth + 1);
                if lex.wants(slot) {
                    let mut r = lex.rng_for(slot);
                    let l = lex_text(&mut r, t, false);
                    out.push_str(&l.lexical);
                    lex.record(format!("text:{}", el.name), l);
                } else if lex.active() && lex.rng_for(slot).chance(7, 8) {
                    // not the subject of this document: keep it free of
                    // references so that the verdict of the reader is about
                    // the re-spelled values
                    out.push_str(&without_markup(t));
                } else {
                    out.push_str(&esc(t, None));
                }
            }
            Node::B64(t) => {
                let slot = lex.next;
                lex.next += 1;
                pad(out, depth + 1);
                if lex.wants(slot) {
                    let mut r = lex.rng_for(slot);
                    let l = lex_text(&mut r, t, true);
                    out.push_str(&l.lexical);
                    lex.record(format!("base64:{}", el.name), l);
                } else if st.fold_base64 > 0 && t.len() > st.fold_base64 {
                    for (i, chunk) in t.as_bytes().chunks(st.fold_base64).enumerate() {
                        if i > 0 {
                            out.push_str(nl);
                        }
                        out.push_str(std::str::from_utf8(chunk).unwrap_or(""));
                    }
                } else {
                    out.push_str(t);
                }
            }
        }
    }
    pad(out, depth);
    out.push_str("</");
    out.push_str(el.name);
    out.push('>');
}

fn render(root: &El, st: &Style, rng: &mut Rng, lex: &mut Lex) -> Vec<u8> {
    let mut out = String::new();
    if st.declaration {
        out.push_str("<?xml version=\"1.0\" encoding=\"UTF-8\"?>");
        out.push('\n');
    }
    if st.comments && rng.bool() {
        out.push_str("<!-- leading comment -->\n");
    }
    write_el(&mut out, root, st, rng, 0, lex);
    if rng.chance(1, 3) {
        out.push('\n');
    }
    out.into_bytes()
}

fn b64(data: &[u8]) -> String {
    const T: &[u8; 64] = b"ABCDEFGHIJKLMNOPQRSTUVWXYZabcdefghijklmnopqrstuvwxyz0123456789+/";
    let mut s = String::with_capacity(data.len() * 4 / 3 + 4);
    for c in data.chunks(3) {
        let n = (c[0] as u32) << 16 | (*c.get(1).unwrap_or(&0) as u32) << 8 | *c.get(2).unwrap_or(&0) as u32;
        s.push(T[(n >> 18) as usize & 63] as char);
        s.push(T[(n >> 12) as usize & 63] as char);
        s.push(if c.len() > 1 { T[(n >> 6) as usize & 63] as char } else { '=' });
        s.push(if c.len() > 2 { T[n as usize & 63] as char } else { '=' });
    }
    s
}

fn b64url(data: &[u8], padding: bool) -> String {
    let mut s: String = b64(data).chars().map(|c| match c { '+' => '-', '/' => '_', c => c }).collect();
    if !padding {
        while s.ends_with('=') {
            s.pop();
        }
    }
    s
}

fn hex(data: &[u8], upper: bool) -> String {
    data.iter().map(|b| if upper { format!("{b:02X}") } else { format!("{b:02x}") }).collect()
}

//------------ lexical forms ------------------------------------------------------
//
// XML lets the same character data be spelled in many ways. The writer above
// uses one spelling per construct; the lexical pass re-spells chosen attribute
// values and text nodes in every other way the XML recommendation allows:
// CDATA sections (whole value, or mixed with plain runs and references, with
// `]]>` split over two sections), decimal / hexadecimal character references
// (for the markup characters and for ordinary ones, with leading zeros), the
// five predefined entity references, comments and processing instructions
// before / inside / after the text, white space (literal or as references)
// around the value, CRLF line ends; for attributes additionally the minimal
// escaping (`>` and the other quote raw) and white space around `=`.
// Whether the library's reader accepts a spelling is its choice (observed);
// whatever it accepts is a message and is held to the round-trip law.

/// One re-spelled attribute value or text node.
pub struct LexUse {
    /// `attr:<element>@<attribute>`, `text:<element>` or `base64:<element>`
    pub slot: String,
    /// cdata | reference | comment-or-pi | white-space | quoting | attr-syntax
    /// (`+reference`: a comment / white-space spelling of text that has markup
    /// characters, which are then written as predefined entities)
    pub family: &'static str,
    pub form: &'static str,
    /// the value an XML processor reports for the spelling (before any
    /// schema-level white space handling)
    pub logical: String,
    /// the spelling written into the document
    pub lexical: String,
    /// the spelling puts a tab, CR or LF *into* the value (not merely layout
    /// around element text): the value is then outside "protocol-valid"
    pub control: bool,
}

struct Lexed {
    lexical: String,
    logical: String,
    family: &'static str,
    form: &'static str,
    control: bool,
}

struct Lex {
    seed: u64,
    /// slots to re-spell
    targets: Vec<usize>,
    /// a document of the lexical pass: text that is not re-spelled is mostly
    /// written without markup characters
    calm: bool,
    next: usize,
    uses: Vec<LexUse>,
}

impl Lex {
    fn off() -> Self {
        Lex { seed: 0, targets: Vec::new(), calm: false, next: 0, uses: Vec::new() }
    }
    fn active(&self) -> bool {
        self.calm
    }
    fn wants(&self, slot: usize) -> bool {
        !self.targets.is_empty() && self.targets.contains(&slot)
    }
    /// The spelling of a slot depends on the slot and the document only, so
    /// that the document can be written again with a subset of the forms.
    fn rng_for(&self, slot: usize) -> Rng {
        Rng::new(self.seed ^ (slot as u64 + 1).wrapping_mul(0x9E37_79B9_7F4A_7C15))
    }
    fn record(&mut self, slot: String, l: Lexed) {
        self.uses.push(LexUse { slot, family: l.family, form: l.form, logical: l.logical, lexical: l.lexical, control: l.control });
    }
}

#[derive(Clone, Copy, PartialEq)]
enum SlotKind {
    Attr,
    Text,
    B64,
}

fn collect_slots(el: &El, out: &mut Vec<(SlotKind, &'static str)>) {
    for (k, _) in &el.attrs {
        out.push((SlotKind::Attr, k));
    }
    for k in &el.kids {
        match k {
            Node::El(e) => collect_slots(e, out),
            Node::Text(_) => out.push((SlotKind::Text, el.name)),
            Node::B64(_) => out.push((SlotKind::B64, el.name)),
        }
    }
}

fn char_ref(rng: &mut Rng, c: char, hex: bool) -> String {
    let n = c as u32;
    let zeros = *rng.pick(&["", "", "", "0", "000"]);
    if hex {
        if rng.bool() { format!("&#x{zeros}{n:x};") } else { format!("&#x{zeros}{n:X};") }
    } else {
        format!("&#{zeros}{n};")
    }
}

fn named_entity(c: char) -> Option<&'static str> {
    match c {
        '<' => Some("&lt;"),
        '>' => Some("&gt;"),
        '&' => Some("&amp;"),
        '"' => Some("&quot;"),
        '\'' => Some("&apos;"),
        _ => None,
    }
}

fn without_markup(s: &str) -> String {
    s.replace(['<', '&', '>'], "-")
}

fn is_markup_char(c: char) -> bool {
    matches!(c, '<' | '>' | '&' | '"' | '\'')
}

/// `s` as CDATA; a `]]>` inside is split over two sections.
fn cdata(s: &str) -> String {
    format!("<![CDATA[{}]]>", s.replace("]]>", "]]]]><![CDATA[>"))
}

const COMMENTS: [&str; 5] = ["<!-- c -->", "<!---->", "<!-- a comment, with <markup> & such -->", "<!-- ]]> -->", "<!--\n-->"];
const PIS: [&str; 3] = ["<?harness?>", "<?harness a=\"b\" ?>", "<?h <&> ?>"];

/// Markup characters (and a few ordinary ones) as character references.
fn with_char_refs(rng: &mut Rng, s: &str, hex: Option<bool>, others: (u64, u64)) -> String {
    let mut o = String::with_capacity(s.len() * 2);
    let mut changed = false;
    let n = s.chars().count();
    let forced = if n > 0 { rng.usize_below(n) } else { 0 };
    for (i, c) in s.chars().enumerate() {
        let h = hex.unwrap_or_else(|| rng.bool());
        if is_markup_char(c) || rng.chance(others.0, others.1) || (i == forced && !changed && !s.chars().any(is_markup_char)) {
            o.push_str(&char_ref(rng, c, h));
            changed = true;
        } else {
            o.push(c);
        }
    }
    o
}

/// Every markup character as its predefined entity (where text has none, one
/// ordinary character becomes a character reference so that the spelling is
/// not the plain one).
fn with_entities(rng: &mut Rng, s: &str) -> String {
    if !s.chars().any(is_markup_char) {
        return with_char_refs(rng, s, None, (0, 1));
    }
    let mut o = String::with_capacity(s.len() + 16);
    for c in s.chars() {
        match named_entity(c) {
            Some(e) => o.push_str(e),
            None => o.push(c),
        }
    }
    o
}

/// Splits at a character boundary.
fn split_at_char(s: &str, at: usize) -> (&str, &str) {
    let idx = s.char_indices().nth(at).map(|(i, _)| i).unwrap_or(s.len());
    s.split_at(idx)
}

/// Re-spells the character data of an element. `b64`: the text is Base64
/// (no markup characters; line folding is a legal spelling).
fn lex_text(rng: &mut Rng, t: &str, b64: bool) -> Lexed {
    let plain = |s: &str| esc(s, None);
    let choice = rng.below(16);
    // the comment / white space spellings mostly around text that needs no
    // reference (what the reader makes of references is the business of the
    // other forms)
    let calm = without_markup(t);
    let t = if choice >= 10 && rng.chance(2, 3) { calm.as_str() } else { t };
    let n = t.chars().count();
    let mut logical = t.to_string();
    let mut control = false;
    let (family, form, lexical): (&'static str, &'static str, String) = match choice {
        0..=2 => ("cdata", "cdata-whole", cdata(t)),
        3 | 4 => {
            // runs: CDATA / plain with entities / references, at least one CDATA
            let runs = rng.range(2, 4) as usize;
            let mut cuts: Vec<usize> = (0..runs - 1).map(|_| rng.usize_below(n + 1)).collect();
            cuts.sort();
            cuts.push(n);
            let cd = rng.usize_below(runs);
            let mut o = String::new();
            let mut from = 0;
            for (i, to) in cuts.iter().enumerate() {
                let (head, _) = split_at_char(t, *to);
                let (_, run) = split_at_char(head, from);
                from = *to;
                let how = if i == cd { 0 } else { rng.below(4) };
                match how {
                    0 => o.push_str(&cdata(run)),
                    1 => o.push_str(&plain(run)),
                    2 => o.push_str(&with_char_refs(rng, run, None, (1, 1))),
                    _ => o.push_str(&with_entities(rng, run)),
                }
                if rng.chance(1, 8) {
                    o.push_str(*rng.pick(&COMMENTS));
                }
            }
            ("cdata", "cdata-mixed", o)
        }
        5 => {
            let side = rng.below(3);
            let mut o = String::new();
            if side != 1 {
                o.push_str("<![CDATA[]]>");
            }
            o.push_str(&plain(t));
            if side != 0 {
                o.push_str("<![CDATA[]]>");
            }
            ("cdata", "cdata-empty-adjacent", o)
        }
        6 => ("reference", "char-ref-decimal", with_char_refs(rng, t, Some(false), (1, 8))),
        7 => ("reference", "char-ref-hex", with_char_refs(rng, t, Some(true), (1, 8))),
        8 => ("reference", "char-ref-every-character", with_char_refs(rng, t, None, (1, 1))),
        9 if t.chars().any(is_markup_char) => ("reference", "predefined-entities", with_entities(rng, t)),
        9 => ("reference", "char-ref-one-character", with_char_refs(rng, t, None, (0, 1))),
        10 | 11 => {
            let pi = rng.chance(1, 3);
            let what: &str = if pi { *rng.pick(&PIS) } else { *rng.pick(&COMMENTS) };
            let (a, b) = split_at_char(t, if n > 1 { rng.range(1, n as u64 - 1) as usize } else { 0 });
            ("comment-or-pi", if pi { "pi-inside" } else { "comment-inside" }, format!("{}{}{}", plain(a), what, plain(b)))
        }
        12 => {
            let pi = rng.chance(1, 3);
            let what: &str = if pi { *rng.pick(&PIS) } else { *rng.pick(&COMMENTS) };
            match rng.below(3) {
                0 => ("comment-or-pi", if pi { "pi-before" } else { "comment-before" }, format!("{}{}", what, plain(t))),
                1 => ("comment-or-pi", if pi { "pi-after" } else { "comment-after" }, format!("{}{}", plain(t), what)),
                _ => ("comment-or-pi", if pi { "pi-around" } else { "comment-around" }, format!("{}{}{}", what, plain(t), what)),
            }
        }
        13 => {
            let ws = ["  ", "\t", "\n", "\r\n", " \n\t ", "\n\n      "];
            let (a, b) = (*rng.pick(&ws), *rng.pick(&ws));
            logical = format!("{}{}{}", a.replace("\r\n", "\n"), t, b.replace("\r\n", "\n"));
            ("white-space", "literal-space-around", format!("{a}{}{b}", plain(t)))
        }
        14 => {
            let refs = [("&#32;", " "), ("&#x20;", " "), ("&#10;", "\n"), ("&#xA;", "\n"), ("&#9;", "\t"), ("&#13;", "\r"), ("&#32;&#32;", "  ")];
            let (a, b) = (*rng.pick(&refs), *rng.pick(&refs));
            let (front, back) = match rng.below(3) {
                0 => (Some(a), None),
                1 => (None, Some(b)),
                _ => (Some(a), Some(b)),
            };
            logical = format!("{}{}{}", front.map(|x| x.1).unwrap_or(""), t, back.map(|x| x.1).unwrap_or(""));
            control = logical.bytes().any(|b| b < 0x20);
            ("white-space", "space-reference-around", format!("{}{}{}", front.map(|x| x.0).unwrap_or(""), plain(t), back.map(|x| x.0).unwrap_or("")))
        }
        _ => {
            if b64 {
                // lines of 4..64 characters ending in CRLF
                let w = (*rng.pick(&[4usize, 16, 64])).max(1);
                let mut o = String::new();
                for (i, chunk) in t.as_bytes().chunks(w).enumerate() {
                    if i > 0 {
                        o.push_str("\r\n");
                    }
                    o.push_str(std::str::from_utf8(chunk).unwrap_or(""));
                }
                logical = o.replace("\r\n", "\n");
                ("white-space", "crlf-folded", o)
            } else {
                let (a, b) = split_at_char(t, rng.usize_below(n + 1));
                logical = format!("{a}\n{b}");
                control = true;
                ("white-space", "crlf-inside", format!("{}\r\n{}", plain(a), plain(b)))
            }
        }
    };
    // a comment / white-space spelling around text that itself needs references
    let family = match (family, choice >= 10 && t.chars().any(|c| matches!(c, '<' | '&' | '>'))) {
        ("comment-or-pi", true) => "comment-or-pi+reference",
        ("white-space", true) => "white-space+reference",
        (f, _) => f,
    };
    Lexed { lexical, logical, family, form, control }
}

/// Re-spells an attribute value written between `q` quotes; also returns the
/// spelling of the `=`.
fn lex_attr(rng: &mut Rng, v: &str, q: char) -> (&'static str, Lexed) {
    let n = v.chars().count();
    // what has to be escaped at least: < & and the quote in use
    let minimal = |s: &str| {
        let mut o = String::with_capacity(s.len() + 8);
        for c in s.chars() {
            match c {
                '<' => o.push_str("&lt;"),
                '&' => o.push_str("&amp;"),
                c if c == q => o.push_str(if q == '"' { "&quot;" } else { "&apos;" }),
                c => o.push(c),
            }
        }
        o
    };
    let mut logical = v.to_string();
    let mut eq = "=";
    let (family, form, lexical): (&'static str, &'static str, String) = match rng.below(14) {
        0 | 1 if v.chars().any(is_markup_char) => ("reference", "predefined-entities", with_entities(rng, v)),
        0 | 1 => ("reference", "char-ref-one-character", with_char_refs(rng, v, None, (0, 1))),
        2 => ("reference", "char-ref-decimal", with_char_refs(rng, v, Some(false), (1, 8))),
        3 => ("reference", "char-ref-hex", with_char_refs(rng, v, Some(true), (1, 8))),
        4 => ("reference", "char-ref-every-character", with_char_refs(rng, v, None, (1, 1))),
        5 => {
            // every markup character in a spelling of its own
            let mut o = String::new();
            for c in v.chars() {
                if is_markup_char(c) {
                    match rng.below(3) {
                        0 => o.push_str(named_entity(c).unwrap_or("")),
                        1 => o.push_str(&char_ref(rng, c, false)),
                        _ => o.push_str(&char_ref(rng, c, true)),
                    }
                } else {
                    o.push(c);
                }
            }
            ("reference", "mixed-references", o)
        }
        6 | 7 => ("quoting", "minimal-escaping", minimal(v)),
        8 | 9 => {
            eq = *rng.pick(&[" = ", " =", "= ", "\n=\n", "\t=\r\n  "]);
            ("attr-syntax", "space-around-equals", minimal(v))
        }
        10 => {
            let r = *rng.pick(&["&#32;", "&#x20;", "&#0032;"]);
            let mid = rng.usize_below(n + 1);
            let (a, b) = split_at_char(v, *rng.pick(&[0, n, mid]));
            logical = format!("{a} {b}");
            ("white-space", "space-reference", format!("{}{}{}", minimal(a), r, minimal(b)))
        }
        11 => {
            let (r, c) = *rng.pick(&[("&#9;", "\t"), ("&#10;", "\n"), ("&#xa;", "\n"), ("&#13;", "\r"), ("&#13;&#10;", "\r\n")]);
            let mid = rng.usize_below(n + 1);
            let (a, b) = split_at_char(v, *rng.pick(&[0, n, mid]));
            logical = format!("{a}{c}{b}");
            ("white-space", "control-reference", format!("{}{}{}", minimal(a), r, minimal(b)))
        }
        12 => {
            // literal tab / line end in the value: an XML processor reports a
            // space for each (attribute-value normalisation)
            let lit = *rng.pick(&["\t", "\n", "\r\n", "\n  "]);
            let mid = rng.usize_below(n + 1);
            let (a, b) = split_at_char(v, *rng.pick(&[0, n, mid]));
            logical = format!("{a}{lit}{b}");
            ("white-space", "literal-tab-or-line-end", format!("{}{}{}", minimal(a), lit, minimal(b)))
        }
        _ => {
            let sp = *rng.pick(&[" ", "  ", "   "]);
            let (front, back) = match rng.below(3) {
                0 => (sp, ""),
                1 => ("", sp),
                _ => (sp, sp),
            };
            logical = format!("{front}{v}{back}");
            ("white-space", "literal-space-at-the-edges", format!("{front}{}{back}", minimal(v)))
        }
    };
    let control = logical.bytes().any(|b| b < 0x20);
    (eq, Lexed { lexical, logical, family, form, control })
}

//------------ presence bookkeeping ---------------------------------------------

/// Decides for each optional part whether it is written and remembers what
/// was left out.
struct Opt {
    /// 0: every part decided independently; 1: everything present; 2: everything absent
    mode: u64,
    absent: Vec<&'static str>,
    extras: Vec<&'static str>,
}

impl Opt {
    fn new(rng: &mut Rng) -> Self {
        let mode = match rng.below(8) {
            0 => 1,
            1 => 2,
            _ => 0,
        };
        Opt { mode, absent: Vec::new(), extras: Vec::new() }
    }
    /// An optional part of the protocol (or one the decoder treats as optional).
    fn has(&mut self, rng: &mut Rng, name: &'static str) -> bool {
        let r = rng.bool();
        let present = match self.mode {
            1 => true,
            2 => false,
            _ => r,
        };
        if !present && !self.absent.contains(&name) {
            self.absent.push(name);
        }
        present
    }
    /// An optional extra that the constructors never produce.
    fn extra(&mut self, rng: &mut Rng, name: &'static str) -> bool {
        let r = rng.chance(1, 3);
        let present = match self.mode {
            1 => true,
            2 => false,
            _ => r,
        };
        if present && !self.extras.contains(&name) {
            self.extras.push(name);
        }
        present
    }
}

//------------ field values -------------------------------------------------------

const PROV_NS: &str = "http://www.apnic.net/specs/rescerts/up-down/";
const PUBL_NS: &str = "http://www.hactrn.net/uris/rpki/publication-spec/";
const SETUP_NS: &str = "http://www.hactrn.net/uris/rpki/rpki-setup/";

struct Vals<'a> {
    crypto: Option<&'a Crypto>,
    stats: gen::ResStats,
    refused: u64,
    /// lexical pass: free text is drawn with markup characters in it
    lexical: bool,
    /// lexical pass: make this document one of the messages with free text
    force_error: bool,
}

/// What an error text can be made of: printable ASCII, much of it looking
/// like markup (it is character data all the same).
const PROSE_BITS: &[&str] = &[
    "a < b", "R&D", "x ]]> y", "]]", "]]>", "<publish/>", "</description>", "</error_text>", "<status>0</status>", "&amp;", "&lt;",
    "&#60;", "1 > 0", "\"quoted\"", "it's", "<!-- c -->", "<?pi?>", "<![CDATA[", "a&b<c", "&", "<", ">", "&&", "<<", "hash mismatch",
    "no such class", "size", "limit", "-", ";", "</message>", "</msg>", "<a b='c'>", "&unknown;", "100%",
];

impl Vals<'_> {
    fn handle(&mut self, rng: &mut Rng) -> String {
        // short ones mostly: the optional parts are the subject here
        let s = gen::handle_str(rng);
        if s.len() > 40 && rng.chance(3, 4) { s[..rng.range(1, 40) as usize].to_string() } else { s }
    }
    fn rsync(&mut self, rng: &mut Rng) -> String {
        gen::rsync(rng, &mut self.refused).to_string()
    }
    fn https(&mut self, rng: &mut Rng) -> String {
        gen::https(rng, &mut self.refused).to_string()
    }
    fn service_uri(&mut self, rng: &mut Rng) -> String {
        if rng.chance(1, 4) {
            format!("http://{}.example/{}", *rng.pick(&["a", "localhost:3000", "ca-1"]), *rng.pick(&["", "rfc6492/x", "p?q=1&r='2'"]))
        } else {
            self.https(rng)
        }
    }
    fn text(&mut self, rng: &mut Rng) -> String {
        gen::freeform(rng)
    }
    /// Readable text for `<description>` / `<error_text>`: printable ASCII
    /// with a letter at both ends (surrounding white space is not content).
    fn prose(&mut self, rng: &mut Rng) -> String {
        if self.lexical {
            let n = rng.range(1, 4);
            let mut s = String::new();
            for i in 0..n {
                if i > 0 {
                    s.push_str(*rng.pick(&[" ", "", ": ", "  "]));
                }
                s.push_str(*rng.pick(PROSE_BITS));
            }
            // mostly a letter at both ends (surrounding white space is not content)
            return match rng.below(6) {
                0 => s,
                1 => format!(" {s} "),
                _ => format!("e{s}d"),
            };
        }
        let mid = gen::freeform(rng);
        let mid = if mid.len() > 80 { mid[..80].to_string() } else { mid };
        // mostly without the characters that need escaping in character data:
        // the decoders refuse element text with entity references
        let mid = if rng.chance(3, 4) { mid.replace(['&', '<', '>'], "-") } else { mid };
        match rng.below(4) {
            0 => "request not performed".to_string(),
            1 => format!("e{mid}d"),
            2 => "x".to_string(),
            _ => format!("An error (code {}) occurred: {mid}.", rng.below(9999)),
        }
    }
    fn as_text(&mut self, rng: &mut Rng) -> String {
        gen::as_blocks(rng, &mut self.stats).blocks.to_string()
    }
    fn v4_text(&mut self, rng: &mut Rng) -> String {
        gen::v4_blocks(rng, &mut self.stats).blocks.to_string()
    }
    fn v6_text(&mut self, rng: &mut Rng) -> String {
        gen::v6_blocks(rng, &mut self.stats).blocks.to_string()
    }
    fn not_after(&mut self, rng: &mut Rng) -> String {
        let y = rng.range(1971, 2399);
        let (mo, d) = (rng.range(1, 12), rng.range(1, 28));
        let (h, mi, s) = (rng.below(24), rng.below(60), rng.below(60));
        let zone = *rng.pick(&["Z", "Z", "+00:00", "-00:00", "+02:00", "-11:30"]);
        format!("{y:04}-{mo:02}-{d:02}T{h:02}:{mi:02}:{s:02}{zone}")
    }
    fn hash(&mut self, rng: &mut Rng) -> String {
        hex(&gen::hash32(rng), rng.chance(1, 4))
    }
    fn object(&mut self, rng: &mut Rng) -> String {
        if let Some(c) = self.crypto {
            if rng.chance(1, 8) {
                return b64(rng.pick(&c.certs).to_captured().as_slice());
            }
        }
        let mut d = gen::content(rng);
        d.truncate(600);
        b64(&d)
    }
    fn id_cert(&mut self, rng: &mut Rng) -> String {
        match self.crypto {
            Some(c) if rng.chance(3, 4) => b64(&c.id_certs[rng.usize_below(c.id_certs.len())]),
            _ => {
                let mut d = gen::content(rng);
                d.truncate(300);
                b64(&d)
            }
        }
    }
    fn cert(&mut self, rng: &mut Rng) -> Option<String> {
        self.crypto.map(|c| b64(rng.pick(&c.certs).to_captured().as_slice()))
    }
    fn csr(&mut self, rng: &mut Rng) -> Option<String> {
        self.crypto.map(|c| b64(rng.pick(&c.csrs).to_captured().as_slice()))
    }
}

//------------ RFC 6492 -------------------------------------------------------------

fn req_limit(mut el: El, v: &mut Vals, rng: &mut Rng, o: &mut Opt) -> El {
    if o.has(rng, "req_resource_set_as") {
        el = el.attr("req_resource_set_as", v.as_text(rng));
    }
    if o.has(rng, "req_resource_set_ipv4") {
        el = el.attr("req_resource_set_ipv4", v.v4_text(rng));
    }
    if o.has(rng, "req_resource_set_ipv6") {
        el = el.attr("req_resource_set_ipv6", v.v6_text(rng));
    }
    el
}

fn class_el(v: &mut Vals, rng: &mut Rng, o: &mut Opt, certs: usize) -> Option<El> {
    let mut el = El::new("class").attr("class_name", v.text(rng)).attr("cert_url", v.rsync(rng));
    // RFC 6492 wants the three resource attributes (possibly empty); the
    // decoder reads a missing one as the empty set
    if o.has(rng, "resource_set_as") {
        el = el.attr("resource_set_as", v.as_text(rng));
    }
    if o.has(rng, "resource_set_ipv4") {
        el = el.attr("resource_set_ipv4", v.v4_text(rng));
    }
    if o.has(rng, "resource_set_ipv6") {
        el = el.attr("resource_set_ipv6", v.v6_text(rng));
    }
    el = el.attr("resource_set_notafter", v.not_after(rng));
    if o.extra(rng, "suggested_sia_head") {
        el = el.attr("suggested_sia_head", v.rsync(rng));
    }
    let mut kids = Vec::new();
    for _ in 0..certs {
        let c = El::new("certificate").attr("cert_url", v.rsync(rng));
        let c = req_limit(c, v, rng, o).kid(Node::B64(v.cert(rng)?));
        kids.push(Node::El(c));
    }
    let issuer = Node::El(El::new("issuer").kid(Node::B64(v.cert(rng)?)));
    if !kids.is_empty() && o.extra(rng, "issuer-not-last") {
        let at = rng.usize_below(kids.len());
        kids.insert(at, issuer);
    } else {
        kids.push(issuer);
    }
    el.kids = kids;
    Some(el)
}

const PROV_STATUS: [u32; 11] = [1101, 1102, 1103, 1104, 1201, 1202, 1203, 1204, 1301, 1302, 2001];

fn provisioning(v: &mut Vals, rng: &mut Rng, o: &mut Opt) -> (&'static str, El) {
    let mut root = El::new("message");
    if o.has(rng, "xmlns") {
        root = root.attr("xmlns", PROV_NS);
    }
    if o.has(rng, "version") {
        root = root.attr("version", "1");
    }
    root = root.attr("sender", v.handle(rng)).attr("recipient", v.handle(rng));
    let choice = if v.force_error {
        8
    } else if v.crypto.is_some() {
        rng.below(9)
    } else {
        *rng.pick(&[0u64, 4, 5, 6, 7, 8])
    };
    match choice {
        0 => ("provisioning.list", root.attr("type", "list")),
        1 => {
            let n = rng.below(4) as usize;
            let mut root = root.attr("type", "list_response");
            for _ in 0..n {
                let certs = rng.below(3) as usize;
                if let Some(c) = class_el(v, rng, o, certs) {
                    root = root.kid(Node::El(c));
                }
            }
            ("provisioning.list_response", root)
        }
        2 => {
            let el = El::new("request").attr("class_name", v.text(rng));
            let el = req_limit(el, v, rng, o);
            match v.csr(rng) {
                Some(csr) => ("provisioning.issue", root.attr("type", "issue").kid(Node::El(el.kid(Node::B64(csr))))),
                None => ("provisioning.list", root.attr("type", "list")),
            }
        }
        3 => match class_el(v, rng, o, 1) {
            Some(c) => ("provisioning.issue_response", root.attr("type", "issue_response").kid(Node::El(c))),
            None => ("provisioning.list", root.attr("type", "list")),
        },
        4 | 5 => {
            let ski = b64url(&gen::key_id20(rng), o.extra(rng, "ski-padding"));
            let key = El::new("key").attr("class_name", v.text(rng)).attr("ski", ski);
            if choice == 4 {
                ("provisioning.revoke", root.attr("type", "revoke").kid(Node::El(key)))
            } else {
                ("provisioning.revoke_response", root.attr("type", "revoke_response").kid(Node::El(key)))
            }
        }
        _ => {
            let status = El::new("status").kid(Node::Text(rng.pick(&PROV_STATUS).to_string()));
            let mut root = root.attr("type", "error_response").kid(Node::El(status));
            // RFC 6492 3.6: the description is optional
            if o.has(rng, "description") {
                let mut d = El::new("description");
                if o.has(rng, "xml:lang") {
                    d = d.attr("xml:lang", "en-US");
                }
                root = root.kid(Node::El(d.kid(Node::Text(v.prose(rng)))));
            }
            ("provisioning.error_response", root)
        }
    }
}

//------------ RFC 8181 -------------------------------------------------------------

const PUBL_ERRORS: [&str; 8] = [
    "xml_error", "permission_failure", "bad_cms_signature", "object_already_present", "no_object_present",
    "no_object_matching_hash", "consistency_problem", "other_error",
];

/// `<publish>` (with or without hash) or `<withdraw>`. The tag is mandatory
/// in RFC 8181; leaving it out makes the document lenient.
fn query_pdu(v: &mut Vals, rng: &mut Rng, o: &mut Opt, lenient: &mut Option<&'static str>) -> El {
    let withdraw = rng.chance(1, 3);
    let mut el = El::new(if withdraw { "withdraw" } else { "publish" });
    if rng.chance(7, 8) {
        el = el.attr("tag", if rng.chance(1, 6) { String::new() } else { v.text(rng) });
    } else {
        *lenient = Some("publish-or-withdraw-without-tag");
    }
    el = el.attr("uri", v.rsync(rng));
    if withdraw {
        el.attr("hash", v.hash(rng))
    } else {
        if o.has(rng, "publish-hash") {
            el = el.attr("hash", v.hash(rng));
        }
        el.kid(Node::B64(v.object(rng)))
    }
}

fn publication(v: &mut Vals, rng: &mut Rng, o: &mut Opt, lenient: &mut Option<&'static str>) -> (&'static str, El) {
    let mut root = El::new("msg");
    if o.has(rng, "xmlns") {
        root = root.attr("xmlns", PUBL_NS);
    }
    if o.has(rng, "version") {
        root = root.attr("version", "4");
    }
    let choice = if v.force_error { 3 } else { rng.below(8) };
    match choice {
        0 => ("publication.list_query", root.attr("type", "query").kid(Node::El(El::new("list")))),
        1 => ("publication.success", root.attr("type", "reply").kid(Node::El(El::new("success")))),
        2 => {
            let n = *rng.pick(&[0usize, 1, 1, 2, 5]);
            let mut root = root.attr("type", "reply");
            for _ in 0..n {
                root = root.kid(Node::El(El::new("list").attr("uri", v.rsync(rng)).attr("hash", v.hash(rng))));
            }
            ("publication.list_reply", root)
        }
        3..=5 => {
            let n = *rng.pick(&[1usize, 1, 1, 2, 3]);
            let mut root = root.attr("type", "reply");
            for _ in 0..n {
                let mut e = El::new("report_error").attr("error_code", *rng.pick(&PUBL_ERRORS));
                if o.has(rng, "report_error-tag") {
                    e = e.attr("tag", v.text(rng));
                }
                // RFC 8181 2.5: error_text and failed_pdu are both optional
                if o.has(rng, "error_text") {
                    let mut t = El::new("error_text");
                    if o.extra(rng, "error_text-xml:lang") {
                        t = t.attr("xml:lang", "en-US");
                    }
                    e = e.kid(Node::El(t.kid(Node::Text(v.prose(rng)))));
                }
                if o.has(rng, "failed_pdu") {
                    let pdu = if rng.chance(1, 6) { El::new("list") } else { query_pdu(v, rng, o, lenient) };
                    e = e.kid(Node::El(El::new("failed_pdu").kid(Node::El(pdu))));
                }
                root = root.kid(Node::El(e));
            }
            ("publication.error_reply", root)
        }
        _ => {
            let n = *rng.pick(&[0usize, 1, 1, 2, 4]);
            let mut root = root.attr("type", "query");
            for _ in 0..n {
                root = root.kid(Node::El(query_pdu(v, rng, o, lenient)));
            }
            ("publication.delta", root)
        }
    }
}

//------------ RFC 8183 -------------------------------------------------------------

fn setup_root(name: &'static str, rng: &mut Rng, o: &mut Opt) -> El {
    let mut root = El::new(name);
    if o.has(rng, "xmlns") {
        root = root.attr("xmlns", if o.extra(rng, "xmlns-without-slash") { SETUP_NS.trim_end_matches('/') } else { SETUP_NS });
    }
    if o.has(rng, "version") {
        root = root.attr("version", "1");
    }
    root
}

fn idexchange(v: &mut Vals, rng: &mut Rng, o: &mut Opt) -> (Kind, &'static str, El) {
    match rng.below(4) {
        0 => {
            let mut root = setup_root("child_request", rng, o).attr("child_handle", v.handle(rng));
            if o.has(rng, "tag") {
                root = root.attr("tag", v.text(rng));
            }
            let root = root.kid(Node::El(El::new("child_bpki_ta").kid(Node::B64(v.id_cert(rng)))));
            (Kind::ChildReq, "idexchange.child_request", root)
        }
        1 => {
            let mut root = setup_root("parent_response", rng, o)
                .attr("service_uri", v.service_uri(rng))
                .attr("child_handle", v.handle(rng))
                .attr("parent_handle", v.handle(rng));
            if o.has(rng, "tag") {
                root = root.attr("tag", v.text(rng));
            }
            let mut kids = vec![Node::El(El::new("parent_bpki_ta").kid(Node::B64(v.id_cert(rng))))];
            // RFC 8183 5.2.2: optional <offer/> and <referral> elements
            if o.extra(rng, "offer") {
                kids.push(Node::El(El::new("offer")));
            }
            if o.extra(rng, "referral") {
                let r = El::new("referral").attr("referrer", v.handle(rng)).kid(Node::B64(b64(&rng.bytes(40))));
                let at = rng.usize_below(kids.len() + 1);
                kids.insert(at, Node::El(r));
            }
            root.kids = kids;
            (Kind::ParentResp, "idexchange.parent_response", root)
        }
        2 => {
            let mut root = setup_root("publisher_request", rng, o).attr("publisher_handle", v.handle(rng));
            if o.has(rng, "tag") {
                root = root.attr("tag", v.text(rng));
            }
            let root = root.kid(Node::El(El::new("publisher_bpki_ta").kid(Node::B64(v.id_cert(rng)))));
            (Kind::PubReq, "idexchange.publisher_request", root)
        }
        _ => {
            let mut root = setup_root("repository_response", rng, o)
                .attr("publisher_handle", v.handle(rng))
                .attr("service_uri", v.service_uri(rng))
                .attr("sia_base", v.rsync(rng));
            if o.has(rng, "rrdp_notification_uri") {
                root = root.attr("rrdp_notification_uri", v.https(rng));
            }
            if o.has(rng, "tag") {
                root = root.attr("tag", v.text(rng));
            }
            let root = root.kid(Node::El(El::new("repository_bpki_ta").kid(Node::B64(v.id_cert(rng)))));
            (Kind::RepoResp, "idexchange.repository_response", root)
        }
    }
}

//------------ entry point ----------------------------------------------------------

pub struct TextGen<'a> {
    vals: Vals<'a>,
}

impl<'a> TextGen<'a> {
    pub fn new(crypto: Option<&'a Crypto>) -> Self {
        TextGen { vals: Vals { crypto, stats: gen::ResStats::default(), refused: 0, lexical: false, force_error: false } }
    }

    fn build(&mut self, rng: &mut Rng, o: &mut Opt, lenient: &mut Option<&'static str>) -> (Kind, &'static str, El) {
        let family = if self.vals.force_error { rng.below(7) } else { rng.below(10) };
        match family {
            0..=3 => {
                let (variant, root) = provisioning(&mut self.vals, rng, o);
                (Kind::Prov, variant, root)
            }
            4..=6 => {
                let (variant, root) = publication(&mut self.vals, rng, o, lenient);
                (Kind::Publ, variant, root)
            }
            _ => idexchange(&mut self.vals, rng, o),
        }
    }

    pub fn next(&mut self, rng: &mut Rng) -> TextDoc {
        let mut o = Opt::new(rng);
        let mut lenient = None;
        let (kind, variant, root) = self.build(rng, &mut o, &mut lenient);
        let st = Style::random(rng);
        let doc = render(&root, &st, rng, &mut Lex::off());
        o.absent.sort();
        o.extras.sort();
        TextDoc { kind, variant, absent: o.absent, extras: o.extras, spelling: st.describe(), lenient, open: None, doc, lex: Vec::new(), replay: None }
    }

    /// A document of the same population with one to three attribute values or
    /// text nodes re-spelled (see "lexical forms"); free text, where the
    /// message has any, is the favourite.
    pub fn next_lexical(&mut self, rng: &mut Rng) -> TextDoc {
        let mut o = Opt::new(rng);
        let mut lenient = None;
        self.vals.lexical = true;
        self.vals.force_error = rng.chance(1, 3);
        let (kind, variant, root) = self.build(rng, &mut o, &mut lenient);
        self.vals.lexical = false;
        self.vals.force_error = false;
        let st = Style::random(rng);
        let (render_seed, lex_seed) = (rng.next_u64(), rng.next_u64());
        let mut slots = Vec::new();
        collect_slots(&root, &mut slots);
        let mut targets: Vec<usize> = Vec::new();
        let free: Vec<usize> = (0..slots.len()).filter(|i| slots[*i].0 == SlotKind::Text).collect();
        if !free.is_empty() && rng.chance(3, 4) {
            targets.push(*rng.pick(&free));
        }
        let more = if targets.is_empty() { *rng.pick(&[1usize, 1, 1, 1, 2, 3]) } else { *rng.pick(&[0usize, 0, 0, 0, 1, 2]) };
        for _ in 0..more {
            if slots.is_empty() {
                break;
            }
            let t = rng.usize_below(slots.len());
            if !targets.contains(&t) {
                targets.push(t);
            }
        }
        targets.sort();
        let mut lex = Lex { seed: lex_seed, targets: targets.clone(), calm: true, next: 0, uses: Vec::new() };
        let doc = render(&root, &st, &mut Rng::new(render_seed), &mut lex);
        // the order of `lex.uses` is the order of writing; `render_only(i)` goes by target
        if lenient.is_none() && lex.uses.iter().any(|u| u.control) {
            // tab / CR / LF inside a value: outside "protocol-valid field values"
            lenient = Some("control-character-in-value");
        }
        o.absent.sort();
        o.extras.sort();
        TextDoc {
            kind,
            variant,
            absent: o.absent,
            extras: o.extras,
            spelling: st.describe(),
            lenient,
            open: None,
            doc,
            lex: lex.uses,
            replay: Some(Replay { root, style: st, render_seed, lex_seed, targets }),
        }
    }
}
