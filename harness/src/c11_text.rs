//! C11 — text-level generator of CA protocol documents.
//!
//! The constructors of the message types cannot produce every message the
//! decoders can: optional elements and attributes that a constructor always
//! fills (`<description>`, `<error_text>`, `tag`, the resource attributes of
//! `<class>`, …) can be absent in a received document, children can come in
//! another order, optional extras (`suggested_sia_head`, `<offer/>`,
//! `<referral>`, `<failed_pdu>`) can be present. This module writes documents
//! of every RFC 6492 / 8181 / 8183 message kind with its own small XML
//! writer (nothing from `rpki::xml`), with every optional part independently
//! present or absent and in several legal spellings. All field values are
//! protocol-valid. What the library's decoder makes of such a document is a
//! message obtained through the public API, so the round-trip law of the
//! property applies to it: what is accepted must be written as well-formed
//! XML that parses back to an equal message.

use super::{gen, Crypto, Kind};
use crate::core::Rng;

pub struct TextDoc {
    pub kind: Kind,
    pub variant: &'static str,
    /// optional parts that were left out (sorted, deduplicated)
    pub absent: Vec<&'static str>,
    /// optional extras that were put in
    pub extras: Vec<&'static str>,
    pub spelling: String,
    /// `Some(reason)`: the document is outside the protocol; observed only
    pub lenient: Option<&'static str>,
    pub doc: Vec<u8>,
}

//------------ a tiny XML writer ------------------------------------------------

enum Node {
    El(El),
    /// character data, escaped when written
    Text(String),
    /// Base64 text, written as is (possibly folded into lines)
    B64(String),
}

struct El {
    name: &'static str,
    attrs: Vec<(&'static str, String)>,
    kids: Vec<Node>,
}

impl El {
    fn new(name: &'static str) -> Self {
        El { name, attrs: Vec::new(), kids: Vec::new() }
    }
    fn attr(mut self, k: &'static str, v: impl Into<String>) -> Self {
        self.attrs.push((k, v.into()));
        self
    }
    fn kid(mut self, n: Node) -> Self {
        self.kids.push(n);
        self
    }
}

struct Style {
    declaration: bool,
    comments: bool,
    single_quotes: bool,
    shuffle_attrs: bool,
    pretty: bool,
    explicit_close: bool,
    fold_base64: usize,
    crlf: bool,
}

impl Style {
    fn random(rng: &mut Rng) -> Self {
        if rng.chance(1, 3) {
            // the plain spelling
            return Style {
                declaration: false, comments: false, single_quotes: false, shuffle_attrs: false, pretty: true,
                explicit_close: false, fold_base64: 0, crlf: false,
            };
        }
        Style {
            declaration: rng.chance(1, 3),
            comments: rng.chance(1, 4),
            single_quotes: rng.chance(1, 3),
            shuffle_attrs: rng.bool(),
            pretty: rng.chance(2, 3),
            explicit_close: rng.chance(1, 5),
            fold_base64: *rng.pick(&[0usize, 0, 64, 76]),
            crlf: rng.chance(1, 8),
        }
    }
    fn describe(&self) -> String {
        let mut v = Vec::new();
        if self.declaration { v.push("decl") }
        if self.comments { v.push("comments") }
        if self.single_quotes { v.push("apos-quotes") }
        if self.shuffle_attrs { v.push("attr-order") }
        if !self.pretty { v.push("compact") }
        if self.explicit_close { v.push("explicit-close") }
        if self.fold_base64 > 0 { v.push("folded-base64") }
        if self.crlf { v.push("crlf") }
        if v.is_empty() { "plain".into() } else { v.join("+") }
    }
}

fn esc(s: &str, attr_quote: Option<char>) -> String {
    let mut o = String::with_capacity(s.len() + 8);
    for c in s.chars() {
        match c {
            '&' => o.push_str("&amp;"),
            '<' => o.push_str("&lt;"),
            '>' => o.push_str("&gt;"),
            '"' if attr_quote == Some('"') => o.push_str("&quot;"),
            '\'' if attr_quote == Some('\'') => o.push_str("&apos;"),
            c => o.push(c),
        }
    }
    o
}

fn write_el(out: &mut String, el: &El, st: &Style, rng: &mut Rng, depth: usize) {
    let nl = if st.crlf { "\r\n" } else { "\n" };
    let pad = |out: &mut String, depth: usize| {
        if st.pretty {
            out.push_str(nl);
            for _ in 0..depth {
                out.push_str("  ");
            }
        }
    };
    out.push('<');
    out.push_str(el.name);
    let mut order: Vec<usize> = (0..el.attrs.len()).collect();
    if st.shuffle_attrs {
        rng.shuffle(&mut order);
    }
    for i in order {
        let (k, v) = &el.attrs[i];
        let q = if st.single_quotes && rng.bool() { '\'' } else { '"' };
        out.push(' ');
        out.push_str(k);
        out.push('=');
        out.push(q);
        out.push_str(&esc(v, Some(q)));
        out.push(q);
    }
    if el.kids.is_empty() {
        if st.explicit_close {
            out.push_str("></");
            out.push_str(el.name);
            out.push('>');
        } else {
            out.push_str("/>");
        }
        return;
    }
    out.push('>');
    for k in &el.kids {
        match k {
            Node::El(e) => {
                if st.comments && rng.chance(1, 3) {
                    pad(out, depth + 1);
                    out.push_str("<!-- a comment, with <markup> & such -->");
                }
                pad(out, depth + 1);
                write_el(out, e, st, rng, depth + 1);
            }
            Node::Text(t) => {
                pad(out, depth + 1);
                out.push_str(&esc(t, None));
            }
            Node::B64(t) => {
                pad(out, depth + 1);
                if st.fold_base64 > 0 && t.len() > st.fold_base64 {
                    for (i, chunk) in t.as_bytes().chunks(st.fold_base64).enumerate() {
                        if i > 0 {
                            out.push_str(nl);
                        }
                        out.push_str(std::str::from_utf8(chunk).unwrap_or(""));
                    }
                } else {
                    out.push_str(t);
                }
            }
        }
    }
    pad(out, depth);
    out.push_str("</");
    out.push_str(el.name);
    out.push('>');
}

fn render(root: &El, st: &Style, rng: &mut Rng) -> Vec<u8> {
    let mut out = String::new();
    if st.declaration {
        out.push_str("<?xml version=\"1.0\" encoding=\"UTF-8\"?>");
        out.push('\n');
    }
    if st.comments && rng.bool() {
        out.push_str("<!-- leading comment -->\n");
    }
    write_el(&mut out, root, st, rng, 0);
    if rng.chance(1, 3) {
        out.push('\n');
    }
    out.into_bytes()
}

fn b64(data: &[u8]) -> String {
    const T: &[u8; 64] = b"ABCDEFGHIJKLMNOPQRSTUVWXYZabcdefghijklmnopqrstuvwxyz0123456789+/";
    let mut s = String::with_capacity(data.len() * 4 / 3 + 4);
    for c in data.chunks(3) {
        let n = (c[0] as u32) << 16 | (*c.get(1).unwrap_or(&0) as u32) << 8 | *c.get(2).unwrap_or(&0) as u32;
        s.push(T[(n >> 18) as usize & 63] as char);
        s.push(T[(n >> 12) as usize & 63] as char);
        s.push(if c.len() > 1 { T[(n >> 6) as usize & 63] as char } else { '=' });
        s.push(if c.len() > 2 { T[n as usize & 63] as char } else { '=' });
    }
    s
}

fn b64url(data: &[u8], padding: bool) -> String {
    let mut s: String = b64(data).chars().map(|c| match c { '+' => '-', '/' => '_', c => c }).collect();
    if !padding {
        while s.ends_with('=') {
            s.pop();
        }
    }
    s
}

fn hex(data: &[u8], upper: bool) -> String {
    data.iter().map(|b| if upper { format!("{b:02X}") } else { format!("{b:02x}") }).collect()
}

//------------ presence bookkeeping ---------------------------------------------

/// Decides for each optional part whether it is written and remembers what
/// was left out.
struct Opt {
    /// 0: every part decided independently; 1: everything present; 2: everything absent
    mode: u64,
    absent: Vec<&'static str>,
    extras: Vec<&'static str>,
}

impl Opt {
    fn new(rng: &mut Rng) -> Self {
        let mode = match rng.below(8) {
            0 => 1,
            1 => 2,
            _ => 0,
        };
        Opt { mode, absent: Vec::new(), extras: Vec::new() }
    }
    /// An optional part of the protocol (or one the decoder treats as optional).
    fn has(&mut self, rng: &mut Rng, name: &'static str) -> bool {
        let r = rng.bool();
        let present = match self.mode {
            1 => true,
            2 => false,
            _ => r,
        };
        if !present && !self.absent.contains(&name) {
            self.absent.push(name);
        }
        present
    }
    /// An optional extra that the constructors never produce.
    fn extra(&mut self, rng: &mut Rng, name: &'static str) -> bool {
        let r = rng.chance(1, 3);
        let present = match self.mode {
            1 => true,
            2 => false,
            _ => r,
        };
        if present && !self.extras.contains(&name) {
            self.extras.push(name);
        }
        present
    }
}

//------------ field values -------------------------------------------------------

const PROV_NS: &str = "http://www.apnic.net/specs/rescerts/up-down/";
const PUBL_NS: &str = "http://www.hactrn.net/uris/rpki/publication-spec/";
const SETUP_NS: &str = "http://www.hactrn.net/uris/rpki/rpki-setup/";

struct Vals<'a> {
    crypto: Option<&'a Crypto>,
    stats: gen::ResStats,
    refused: u64,
}

impl Vals<'_> {
    fn handle(&mut self, rng: &mut Rng) -> String {
        // short ones mostly: the optional parts are the subject here
        let s = gen::handle_str(rng);
        if s.len() > 40 && rng.chance(3, 4) { s[..rng.range(1, 40) as usize].to_string() } else { s }
    }
    fn rsync(&mut self, rng: &mut Rng) -> String {
        gen::rsync(rng, &mut self.refused).to_string()
    }
    fn https(&mut self, rng: &mut Rng) -> String {
        gen::https(rng, &mut self.refused).to_string()
    }
    fn service_uri(&mut self, rng: &mut Rng) -> String {
        if rng.chance(1, 4) {
            format!("http://{}.example/{}", *rng.pick(&["a", "localhost:3000", "ca-1"]), *rng.pick(&["", "rfc6492/x", "p?q=1&r='2'"]))
        } else {
            self.https(rng)
        }
    }
    fn text(&mut self, rng: &mut Rng) -> String {
        gen::freeform(rng)
    }
    /// Readable text for `<description>` / `<error_text>`: printable ASCII
    /// with a letter at both ends (surrounding white space is not content).
    fn prose(&mut self, rng: &mut Rng) -> String {
        let mid = gen::freeform(rng);
        let mid = if mid.len() > 80 { mid[..80].to_string() } else { mid };
        // mostly without the characters that need escaping in character data:
        // the decoders refuse element text with entity references
        let mid = if rng.chance(3, 4) { mid.replace(['&', '<', '>'], "-") } else { mid };
        match rng.below(4) {
            0 => "request not performed".to_string(),
            1 => format!("e{mid}d"),
            2 => "x".to_string(),
            _ => format!("An error (code {}) occurred: {mid}.", rng.below(9999)),
        }
    }
    fn as_text(&mut self, rng: &mut Rng) -> String {
        gen::as_blocks(rng, &mut self.stats).blocks.to_string()
    }
    fn v4_text(&mut self, rng: &mut Rng) -> String {
        gen::v4_blocks(rng, &mut self.stats).blocks.to_string()
    }
    fn v6_text(&mut self, rng: &mut Rng) -> String {
        gen::v6_blocks(rng, &mut self.stats).blocks.to_string()
    }
    fn not_after(&mut self, rng: &mut Rng) -> String {
        let y = rng.range(1971, 2399);
        let (mo, d) = (rng.range(1, 12), rng.range(1, 28));
        let (h, mi, s) = (rng.below(24), rng.below(60), rng.below(60));
        let zone = *rng.pick(&["Z", "Z", "+00:00", "-00:00", "+02:00", "-11:30"]);
        format!("{y:04}-{mo:02}-{d:02}T{h:02}:{mi:02}:{s:02}{zone}")
    }
    fn hash(&mut self, rng: &mut Rng) -> String {
        hex(&gen::hash32(rng), rng.chance(1, 4))
    }
    fn object(&mut self, rng: &mut Rng) -> String {
        if let Some(c) = self.crypto {
            if rng.chance(1, 8) {
                return b64(rng.pick(&c.certs).to_captured().as_slice());
            }
        }
        let mut d = gen::content(rng);
        d.truncate(600);
        b64(&d)
    }
    fn id_cert(&mut self, rng: &mut Rng) -> String {
        match self.crypto {
            Some(c) if rng.chance(3, 4) => b64(&c.id_certs[rng.usize_below(c.id_certs.len())]),
            _ => {
                let mut d = gen::content(rng);
                d.truncate(300);
                b64(&d)
            }
        }
    }
    fn cert(&mut self, rng: &mut Rng) -> Option<String> {
        self.crypto.map(|c| b64(rng.pick(&c.certs).to_captured().as_slice()))
    }
    fn csr(&mut self, rng: &mut Rng) -> Option<String> {
        self.crypto.map(|c| b64(rng.pick(&c.csrs).to_captured().as_slice()))
    }
}

//------------ RFC 6492 -------------------------------------------------------------

fn req_limit(mut el: El, v: &mut Vals, rng: &mut Rng, o: &mut Opt) -> El {
    if o.has(rng, "req_resource_set_as") {
        el = el.attr("req_resource_set_as", v.as_text(rng));
    }
    if o.has(rng, "req_resource_set_ipv4") {
        el = el.attr("req_resource_set_ipv4", v.v4_text(rng));
    }
    if o.has(rng, "req_resource_set_ipv6") {
        el = el.attr("req_resource_set_ipv6", v.v6_text(rng));
    }
    el
}

fn class_el(v: &mut Vals, rng: &mut Rng, o: &mut Opt, certs: usize) -> Option<El> {
    let mut el = El::new("class").attr("class_name", v.text(rng)).attr("cert_url", v.rsync(rng));
    // RFC 6492 wants the three resource attributes (possibly empty); the
    // decoder reads a missing one as the empty set
    if o.has(rng, "resource_set_as") {
        el = el.attr("resource_set_as", v.as_text(rng));
    }
    if o.has(rng, "resource_set_ipv4") {
        el = el.attr("resource_set_ipv4", v.v4_text(rng));
    }
    if o.has(rng, "resource_set_ipv6") {
        el = el.attr("resource_set_ipv6", v.v6_text(rng));
    }
    el = el.attr("resource_set_notafter", v.not_after(rng));
    if o.extra(rng, "suggested_sia_head") {
        el = el.attr("suggested_sia_head", v.rsync(rng));
    }
    let mut kids = Vec::new();
    for _ in 0..certs {
        let c = El::new("certificate").attr("cert_url", v.rsync(rng));
        let c = req_limit(c, v, rng, o).kid(Node::B64(v.cert(rng)?));
        kids.push(Node::El(c));
    }
    let issuer = Node::El(El::new("issuer").kid(Node::B64(v.cert(rng)?)));
    if !kids.is_empty() && o.extra(rng, "issuer-not-last") {
        let at = rng.usize_below(kids.len());
        kids.insert(at, issuer);
    } else {
        kids.push(issuer);
    }
    el.kids = kids;
    Some(el)
}

const PROV_STATUS: [u32; 11] = [1101, 1102, 1103, 1104, 1201, 1202, 1203, 1204, 1301, 1302, 2001];

fn provisioning(v: &mut Vals, rng: &mut Rng, o: &mut Opt) -> (&'static str, El) {
    let mut root = El::new("message");
    if o.has(rng, "xmlns") {
        root = root.attr("xmlns", PROV_NS);
    }
    if o.has(rng, "version") {
        root = root.attr("version", "1");
    }
    root = root.attr("sender", v.handle(rng)).attr("recipient", v.handle(rng));
    let choice = if v.crypto.is_some() { rng.below(9) } else { *rng.pick(&[0u64, 4, 5, 6, 7, 8]) };
    match choice {
        0 => ("provisioning.list", root.attr("type", "list")),
        1 => {
            let n = rng.below(4) as usize;
            let mut root = root.attr("type", "list_response");
            for _ in 0..n {
                let certs = rng.below(3) as usize;
                if let Some(c) = class_el(v, rng, o, certs) {
                    root = root.kid(Node::El(c));
                }
            }
            ("provisioning.list_response", root)
        }
        2 => {
            let el = El::new("request").attr("class_name", v.text(rng));
            let el = req_limit(el, v, rng, o);
            match v.csr(rng) {
                Some(csr) => ("provisioning.issue", root.attr("type", "issue").kid(Node::El(el.kid(Node::B64(csr))))),
                None => ("provisioning.list", root.attr("type", "list")),
            }
        }
        3 => match class_el(v, rng, o, 1) {
            Some(c) => ("provisioning.issue_response", root.attr("type", "issue_response").kid(Node::El(c))),
            None => ("provisioning.list", root.attr("type", "list")),
        },
        4 | 5 => {
            let ski = b64url(&gen::key_id20(rng), o.extra(rng, "ski-padding"));
            let key = El::new("key").attr("class_name", v.text(rng)).attr("ski", ski);
            if choice == 4 {
                ("provisioning.revoke", root.attr("type", "revoke").kid(Node::El(key)))
            } else {
                ("provisioning.revoke_response", root.attr("type", "revoke_response").kid(Node::El(key)))
            }
        }
        _ => {
            let status = El::new("status").kid(Node::Text(rng.pick(&PROV_STATUS).to_string()));
            let mut root = root.attr("type", "error_response").kid(Node::El(status));
            // RFC 6492 3.6: the description is optional
            if o.has(rng, "description") {
                let mut d = El::new("description");
                if o.has(rng, "xml:lang") {
                    d = d.attr("xml:lang", "en-US");
                }
                root = root.kid(Node::El(d.kid(Node::Text(v.prose(rng)))));
            }
            ("provisioning.error_response", root)
        }
    }
}

//------------ RFC 8181 -------------------------------------------------------------

const PUBL_ERRORS: [&str; 8] = [
    "xml_error", "permission_failure", "bad_cms_signature", "object_already_present", "no_object_present",
    "no_object_matching_hash", "consistency_problem", "other_error",
];

/// `<publish>` (with or without hash) or `<withdraw>`. The tag is mandatory
/// in RFC 8181; leaving it out makes the document lenient.
fn query_pdu(v: &mut Vals, rng: &mut Rng, o: &mut Opt, lenient: &mut Option<&'static str>) -> El {
    let withdraw = rng.chance(1, 3);
    let mut el = El::new(if withdraw { "withdraw" } else { "publish" });
    if rng.chance(7, 8) {
        el = el.attr("tag", if rng.chance(1, 6) { String::new() } else { v.text(rng) });
    } else {
        *lenient = Some("publish-or-withdraw-without-tag");
    }
    el = el.attr("uri", v.rsync(rng));
    if withdraw {
        el.attr("hash", v.hash(rng))
    } else {
        if o.has(rng, "publish-hash") {
            el = el.attr("hash", v.hash(rng));
        }
        el.kid(Node::B64(v.object(rng)))
    }
}

fn publication(v: &mut Vals, rng: &mut Rng, o: &mut Opt, lenient: &mut Option<&'static str>) -> (&'static str, El) {
    let mut root = El::new("msg");
    if o.has(rng, "xmlns") {
        root = root.attr("xmlns", PUBL_NS);
    }
    if o.has(rng, "version") {
        root = root.attr("version", "4");
    }
    match rng.below(8) {
        0 => ("publication.list_query", root.attr("type", "query").kid(Node::El(El::new("list")))),
        1 => ("publication.success", root.attr("type", "reply").kid(Node::El(El::new("success")))),
        2 => {
            let n = *rng.pick(&[0usize, 1, 1, 2, 5]);
            let mut root = root.attr("type", "reply");
            for _ in 0..n {
                root = root.kid(Node::El(El::new("list").attr("uri", v.rsync(rng)).attr("hash", v.hash(rng))));
            }
            ("publication.list_reply", root)
        }
        3..=5 => {
            let n = *rng.pick(&[1usize, 1, 1, 2, 3]);
            let mut root = root.attr("type", "reply");
            for _ in 0..n {
                let mut e = El::new("report_error").attr("error_code", *rng.pick(&PUBL_ERRORS));
                if o.has(rng, "report_error-tag") {
                    e = e.attr("tag", v.text(rng));
                }
                // RFC 8181 2.5: error_text and failed_pdu are both optional
                if o.has(rng, "error_text") {
                    let mut t = El::new("error_text");
                    if o.extra(rng, "error_text-xml:lang") {
                        t = t.attr("xml:lang", "en-US");
                    }
                    e = e.kid(Node::El(t.kid(Node::Text(v.prose(rng)))));
                }
                if o.has(rng, "failed_pdu") {
                    let pdu = if rng.chance(1, 6) { El::new("list") } else { query_pdu(v, rng, o, lenient) };
                    e = e.kid(Node::El(El::new("failed_pdu").kid(Node::El(pdu))));
                }
                root = root.kid(Node::El(e));
            }
            ("publication.error_reply", root)
        }
        _ => {
            let n = *rng.pick(&[0usize, 1, 1, 2, 4]);
            let mut root = root.attr("type", "query");
            for _ in 0..n {
                root = root.kid(Node::El(query_pdu(v, rng, o, lenient)));
            }
            ("publication.delta", root)
        }
    }
}

//------------ RFC 8183 -------------------------------------------------------------

fn setup_root(name: &'static str, rng: &mut Rng, o: &mut Opt) -> El {
    let mut root = El::new(name);
    if o.has(rng, "xmlns") {
        root = root.attr("xmlns", if o.extra(rng, "xmlns-without-slash") { SETUP_NS.trim_end_matches('/') } else { SETUP_NS });
    }
    if o.has(rng, "version") {
        root = root.attr("version", "1");
    }
    root
}

fn idexchange(v: &mut Vals, rng: &mut Rng, o: &mut Opt) -> (Kind, &'static str, El) {
    match rng.below(4) {
        0 => {
            let mut root = setup_root("child_request", rng, o).attr("child_handle", v.handle(rng));
            if o.has(rng, "tag") {
                root = root.attr("tag", v.text(rng));
            }
            let root = root.kid(Node::El(El::new("child_bpki_ta").kid(Node::B64(v.id_cert(rng)))));
            (Kind::ChildReq, "idexchange.child_request", root)
        }
        1 => {
            let mut root = setup_root("parent_response", rng, o)
                .attr("service_uri", v.service_uri(rng))
                .attr("child_handle", v.handle(rng))
                .attr("parent_handle", v.handle(rng));
            if o.has(rng, "tag") {
                root = root.attr("tag", v.text(rng));
            }
            let mut kids = vec![Node::El(El::new("parent_bpki_ta").kid(Node::B64(v.id_cert(rng))))];
            // RFC 8183 5.2.2: optional <offer/> and <referral> elements
            if o.extra(rng, "offer") {
                kids.push(Node::El(El::new("offer")));
            }
            if o.extra(rng, "referral") {
                let r = El::new("referral").attr("referrer", v.handle(rng)).kid(Node::B64(b64(&rng.bytes(40))));
                let at = rng.usize_below(kids.len() + 1);
                kids.insert(at, Node::El(r));
            }
            root.kids = kids;
            (Kind::ParentResp, "idexchange.parent_response", root)
        }
        2 => {
            let mut root = setup_root("publisher_request", rng, o).attr("publisher_handle", v.handle(rng));
            if o.has(rng, "tag") {
                root = root.attr("tag", v.text(rng));
            }
            let root = root.kid(Node::El(El::new("publisher_bpki_ta").kid(Node::B64(v.id_cert(rng)))));
            (Kind::PubReq, "idexchange.publisher_request", root)
        }
        _ => {
            let mut root = setup_root("repository_response", rng, o)
                .attr("publisher_handle", v.handle(rng))
                .attr("service_uri", v.service_uri(rng))
                .attr("sia_base", v.rsync(rng));
            if o.has(rng, "rrdp_notification_uri") {
                root = root.attr("rrdp_notification_uri", v.https(rng));
            }
            if o.has(rng, "tag") {
                root = root.attr("tag", v.text(rng));
            }
            let root = root.kid(Node::El(El::new("repository_bpki_ta").kid(Node::B64(v.id_cert(rng)))));
            (Kind::RepoResp, "idexchange.repository_response", root)
        }
    }
}

//------------ entry point ----------------------------------------------------------

pub struct TextGen<'a> {
    vals: Vals<'a>,
}

impl<'a> TextGen<'a> {
    pub fn new(crypto: Option<&'a Crypto>) -> Self {
        TextGen { vals: Vals { crypto, stats: gen::ResStats::default(), refused: 0 } }
    }

    pub fn next(&mut self, rng: &mut Rng) -> TextDoc {
        let mut o = Opt::new(rng);
        let mut lenient = None;
        let (kind, variant, root) = match rng.below(10) {
            0..=3 => {
                let (variant, root) = provisioning(&mut self.vals, rng, &mut o);
                (Kind::Prov, variant, root)
            }
            4..=6 => {
                let (variant, root) = publication(&mut self.vals, rng, &mut o, &mut lenient);
                (Kind::Publ, variant, root)
            }
            _ => idexchange(&mut self.vals, rng, &mut o),
        };
        let st = Style::random(rng);
        let doc = render(&root, &st, rng);
        o.absent.sort();
        o.extras.sort();
        TextDoc { kind, variant, absent: o.absent, extras: o.extras, spelling: st.describe(), lenient, doc }
    }
}
