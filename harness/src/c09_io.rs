//! C09 helpers: byte-counting reader and never-ending hostile XML streams.
//!
//! A `HostileStream` is `prefix ++ unit ++ unit ++ …` without end. To keep a
//! broken implementation from running forever the generator refuses to go
//! beyond `stop_at` bytes (it then returns an I/O error and remembers that it
//! had to); `stop_at` is always chosen well beyond the bound the oracle
//! asserts, so reaching it is itself the observation "read too much".

use crate::core::{Ctx, Stage, Tier};
use std::io::{self, Read};

/// Case budget of this shard: native (quick, thorough) and ASan totals as in
/// `Ctx::stage_budget`, Miri totals per tier (Miri needs seconds per case).
pub fn budget(ctx: &Ctx, native: (u64, u64), asan: u64, miri: (u64, u64)) -> u64 {
    if ctx.stage == Stage::Miri {
        let total = if ctx.tier == Tier::Quick { miri.0 } else { miri.1 };
        return (total / ctx.nshards.max(1)).max(1);
    }
    ctx.stage_budget(native, asan, 1, 1)
}

//------------ CountingRead --------------------------------------------------

/// Counts what is pulled out of the underlying reader.
pub struct CountingRead<R> {
    inner: R,
    pub pulled: u64,
    pub calls: u64,
    pub reads_after_eof: u64,
    eof_seen: bool,
}

impl<R: Read> CountingRead<R> {
    pub fn new(inner: R) -> Self {
        CountingRead { inner, pulled: 0, calls: 0, reads_after_eof: 0, eof_seen: false }
    }

    pub fn inner(&self) -> &R {
        &self.inner
    }
}

impl<R: Read> Read for CountingRead<R> {
    fn read(&mut self, buf: &mut [u8]) -> io::Result<usize> {
        self.calls += 1;
        if self.eof_seen {
            self.reads_after_eof += 1;
        }
        let n = self.inner.read(buf)?;
        if n == 0 && !buf.is_empty() {
            self.eof_seen = true;
        }
        self.pulled += n as u64;
        Ok(n)
    }
}

//------------ HostileStream -------------------------------------------------

pub struct HostileStream {
    prefix: Vec<u8>,
    /// A whole number of repetitions of the hostile unit (>= 64 KiB so that
    /// reads are served by large copies).
    block: Vec<u8>,
    pos: u64,
    stop_at: u64,
    pub stopped: bool,
}

impl HostileStream {
    pub fn new(prefix: Vec<u8>, unit: &[u8], stop_at: u64, block_target: usize) -> Self {
        assert!(!unit.is_empty());
        let reps = (block_target / unit.len()).max(1);
        let mut block = Vec::with_capacity(reps * unit.len());
        for _ in 0..reps {
            block.extend_from_slice(unit);
        }
        HostileStream { prefix, block, pos: 0, stop_at, stopped: false }
    }

    pub fn produced(&self) -> u64 {
        self.pos
    }
}

impl Read for HostileStream {
    fn read(&mut self, buf: &mut [u8]) -> io::Result<usize> {
        if buf.is_empty() {
            return Ok(0);
        }
        if self.pos >= self.stop_at {
            self.stopped = true;
            return Err(io::Error::other("C09 monitor: hostile generator stop (bound exceeded)"));
        }
        let want = (buf.len() as u64).min(self.stop_at - self.pos) as usize;
        let mut done = 0usize;
        let plen = self.prefix.len() as u64;
        if self.pos < plen {
            let start = self.pos as usize;
            let n = (self.prefix.len() - start).min(want);
            buf[..n].copy_from_slice(&self.prefix[start..start + n]);
            done += n;
            self.pos += n as u64;
        }
        while done < want {
            let off = ((self.pos - plen) % self.block.len() as u64) as usize;
            let n = (self.block.len() - off).min(want - done);
            buf[done..done + n].copy_from_slice(&self.block[off..off + n]);
            done += n;
            self.pos += n as u64;
        }
        Ok(done)
    }
}

//------------ Dribble -------------------------------------------------------

/// Serves a finite byte string in chunks of the given sizes (cycled), to
/// exercise refill boundaries inside tokens.
pub struct Dribble<'a> {
    data: &'a [u8],
    pos: usize,
    chunks: Vec<usize>,
    idx: usize,
}

impl<'a> Dribble<'a> {
    pub fn new(data: &'a [u8], chunks: Vec<usize>) -> Self {
        assert!(!chunks.is_empty() && chunks.iter().all(|c| *c > 0));
        Dribble { data, pos: 0, chunks, idx: 0 }
    }
}

impl Read for Dribble<'_> {
    fn read(&mut self, buf: &mut [u8]) -> io::Result<usize> {
        let c = self.chunks[self.idx % self.chunks.len()];
        self.idx += 1;
        let n = c.min(buf.len()).min(self.data.len() - self.pos);
        buf[..n].copy_from_slice(&self.data[self.pos..self.pos + n]);
        self.pos += n;
        Ok(n)
    }
}
