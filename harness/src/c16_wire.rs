//! C16 helper: the serial number where the library takes it off a transport
//! or puts it on one, with the transport delivering in pieces.
//!
//! "Wire conversion is big-endian and lossless" is a statement about four
//! octets. Between the peer's four octets and the `Serial` the library hands
//! to its user sit readers that may be polled many times, may be raced
//! against something else and may be dropped half-way. Three workloads:
//!
//! * Server: the real `Server::run` over the scripted socket of `c08_io`
//!   (reused as it is). The client stream is two Serial Queries laid out by
//!   the independent encoder of `c07_io`; the first asks for serial X, the
//!   only serial the constant source has a (non-empty) diff from, the second
//!   for the source's current serial Y. The stream is cut at every octet
//!   position, with and without a notification fired in the gap (settled or
//!   in the same scheduler tick), with two cuts inside the serial field,
//!   octet by octet, with the output blocked and on the socket that delivers
//!   on flush. Oracle: the source answers with its diff only when it is asked
//!   for exactly (session, X), so the output - Serial Notify PDUs aside, each
//!   of which must carry Y - must be Cache Response, the one diff record, End
//!   of Data with Y, and then Cache Response, End of Data with Y for the
//!   second query. Anything else means `PayloadSource::diff` was asked for a
//!   serial that was never sent, or the stream is out of step.
//! * Client: `Client::step` over a reader that dribbles a protocol-valid
//!   transcript (reset or serial query, versions 0-2, then Serial Notify and a
//!   second serial query). Oracle: `Client::state()` after each exchange is
//!   exactly the (session, serial) of the End of Data that was sent, the
//!   Serial Query the client writes carries the serial it was constructed
//!   with, and the next one carries the serial of the previous End of Data.
//! * Readers: every public reader of a PDU that holds a serial number, fed in
//!   pieces, gives the serial that was sent.
//!
//! This file is included from `c16.rs` with `#[path]`.

use crate::c07_io::{drive, hex_capped, Chunking, Pdu as WirePdu, TruncatingReader};
use crate::c08::io::{new_runtime, run_schedule, ConstSource, Place, ReadLabel, RunOutcome, Schedule, SourceData, Step};
use crate::core::{panic_location, Ctx, Rng, Stage, Tier};
use rpki::resources::addr::{MaxLenPrefix, Prefix};
use rpki::resources::asn::Asn;
use rpki::rtr::client::{Client, PayloadError, PayloadTarget, PayloadUpdate};
use rpki::rtr::payload::{Action, Payload, RouteOrigin, Timing};
use rpki::rtr::pdu;
use rpki::rtr::state::{Serial, State};
use serde_json::{json, Value};
use std::cell::RefCell;
use std::io;
use std::net::{IpAddr, Ipv4Addr};
use std::pin::Pin;
use std::rc::Rc;
use std::sync::Arc;
use std::task::{Context, Poll};
use tokio::io::{AsyncRead, AsyncWrite, ReadBuf};

//------------ serial numbers worth sending -------------------------------------

/// Boundary values of the number space and values whose four octets are all
/// different (so that a lost, repeated or swapped octet shows).
const WIRE_SERIALS: [u32; 20] = [
    0x0102_0304,
    0xFFFF_FFFF,
    0,
    0x8000_0000,
    0x7FFF_FFFF,
    0xDEAD_BEEF,
    1,
    0x8000_0001,
    0xFFFF_FFFE,
    0x0000_00FF,
    0xFF00_0000,
    0x00FF_FF00,
    0x0100_0000,
    0x0001_0000,
    0x0000_0100,
    0x7FFF_FFFE,
    0xF0E1_D2C3,
    0x8040_2010,
    0x00FF_00FF,
    0x0000_0002,
];

pub(super) fn serial_class(x: u32) -> &'static str {
    match x {
        0 => "zero",
        0xFFFF_FFFF => "max",
        0x8000_0000 => "half",
        0x7FFF_FFFF | 0x7FFF_FFFE => "just-below-half",
        0x8000_0001 => "just-above-half",
        x if x < 0x1_0000 => "low-octets-only",
        x if x & 0xFFFF == 0 => "high-octets-only",
        x if x < 0x8000_0000 => "lower-half",
        _ => "upper-half",
    }
}

/// Another serial number, never equal to `x`.
fn other_serial(rng: &mut Rng, x: u32, i: usize) -> u32 {
    let delta = match i % 5 {
        0 => 1,
        1 => 0x7FFF_FFFF,
        2 => 0x8000_0000,
        3 => 0xFFFF_FFFF,
        _ => rng.next_u32() | 1,
    };
    x.wrapping_add(delta)
}

//------------ server ----------------------------------------------------------------

pub(super) fn origin(a: u8, asn: u32) -> Payload {
    let prefix = Prefix::new(IpAddr::V4(Ipv4Addr::new(192, 0, a, 0)), 24).expect("prefix");
    Payload::Origin(RouteOrigin::new(MaxLenPrefix::new(prefix, Some(24)).expect("maxlen"), Asn::from_u32(asn)))
}

/// A source at (session, y) whose only diff is the one from (session, x).
fn make_source(session: u16, x: u32, y: u32) -> ConstSource {
    ConstSource(Arc::new(SourceData {
        ready: true,
        state: State::from_parts(session, Serial::from(y)),
        diff_from: State::from_parts(session, Serial::from(x)),
        full: vec![origin(2, 64496), origin(3, 64497), origin(4, 64498)],
        diff: vec![(origin(2, 64496), Action::Announce)],
        timing: Timing { refresh: 300, retry: 60, expire: 900 },
    }))
}

/// Two Serial Queries: 0..12 asks for x, 12..24 for y.
fn query_stream(version: u8, session: u16, x: u32, y: u32) -> Vec<u8> {
    let mut v = WirePdu::SerialQuery { v: version, session, serial: x }.encode();
    v.extend_from_slice(&WirePdu::SerialQuery { v: version, session, serial: y }.encode());
    v
}

/// Where the server is after consuming n octets of `query_stream` (for the
/// evidence and for naming a failure, never for the verdict).
fn query_labels() -> Vec<ReadLabel> {
    let mut l = Vec::new();
    for q in 0..2u8 {
        l.push(ReadLabel { place: Place::Idle, query: q });
        for i in 1..8u8 {
            l.push(ReadLabel { place: Place::Header(i), query: q });
        }
        for i in 0..4u8 {
            l.push(ReadLabel { place: Place::Payload(i), query: q });
        }
    }
    l.push(ReadLabel { place: Place::Idle, query: 2 });
    l
}

use Step::{Buffering as BUF, Deliver as D, Notify as N, Settle as S};

fn sched(steps: Vec<Step>) -> Schedule {
    Schedule { credit: None, settle_first: true, steps }
}

/// All delivery schedules for a stream of `len` octets whose serial fields
/// are at 8..12 and 20..24. `wide` adds the variants of the thorough tier.
fn schedules(len: usize, wide: bool) -> Vec<(&'static str, Schedule)> {
    let mut v: Vec<(&'static str, Schedule)> = Vec::new();
    v.push(("whole", sched(vec![D(len), S])));
    v.push(("whole,then-notify", sched(vec![D(len), S, N, S])));
    for c in 1..len {
        v.push(("cut-only", sched(vec![D(c), S])));
        v.push(("cut,settle,notify-in-gap", sched(vec![D(c), S, N, S])));
        v.push(("cut+notify-same-tick", sched(vec![D(c), N, S])));
        v.push(("cut,settle,notify+rest-same-tick", sched(vec![D(c), S, N, D(len - c), S])));
        if wide {
            v.push(("notify+cut-same-tick", sched(vec![N, D(c), S])));
            v.push(("cut,settle,two-notifies-in-gap", sched(vec![D(c), S, N, N, S])));
            v.push(("cut,settle,notify,settle,notify", sched(vec![D(c), S, N, S, N, S])));
        }
    }
    // two cuts inside a serial field (and just around it), notification in either or both gaps
    for base in [0usize, 12] {
        for c1 in base + 7..base + 12 {
            for c2 in c1 + 1..=base + 12 {
                if c2 >= len {
                    continue;
                }
                v.push(("two-cuts,notify-in-both-gaps", sched(vec![D(c1), S, N, S, D(c2 - c1), S, N, S])));
                v.push(("two-cuts,notify-in-second-gap", sched(vec![D(c1), S, D(c2 - c1), S, N, S])));
                if wide {
                    v.push(("two-cuts,no-notify", sched(vec![D(c1), S, D(c2 - c1), S])));
                    v.push(("two-cuts,notify-in-first-gap", sched(vec![D(c1), S, N, S, D(c2 - c1), S])));
                }
            }
        }
    }
    // octet by octet
    let each = |f: &dyn Fn(usize) -> Vec<Step>| {
        let mut steps = Vec::new();
        for i in 0..len {
            steps.extend(f(i));
        }
        sched(steps)
    };
    v.push(("bytewise-only", each(&|_| vec![D(1), S])));
    v.push(("bytewise,notify-everywhere", each(&|_| vec![D(1), S, N, S])));
    v.push(("bytewise,octet+notify-same-tick", each(&|_| vec![D(1), N, S])));
    v.push(("bytewise-unsettled", each(&|_| vec![D(1)])));
    for p in [8usize, 9, 10, 20, 21, 22] {
        v.push(("bytewise,one-notify-inside-serial", each(&|i| if i == p { vec![D(1), S, N, S] } else { vec![D(1), S] })));
    }
    // the Serial Notify cannot be written while the serial number is half-way in
    for c in [9usize, 10, 11, 21, 23] {
        for credit in [0usize, 5, 12, 17] {
            if !wide && credit != 0 && credit != 12 {
                continue;
            }
            v.push(("output-blocked,cut,notify-in-gap", Schedule { credit: Some(credit), settle_first: true, steps: vec![D(c), S, N, S, D(len - c), S] }));
        }
        v.push(("flush-delivers,cut,notify-in-gap", sched(vec![BUF, D(c), S, N, S])));
        v.push(("notify-before-start,cut", Schedule { credit: None, settle_first: false, steps: vec![N, D(c), S] }));
    }
    v
}

pub(super) struct OutPdu {
    pub typ: u8,
    pub version: u8,
    pub session: u16,
    pub start: usize,
    pub len: usize,
}

/// Cuts the server's output into PDUs by their length fields.
pub(super) fn split_output(out: &[u8]) -> (Vec<OutPdu>, usize) {
    let mut pdus = Vec::new();
    let mut pos = 0;
    while out.len() - pos >= 8 {
        let len = u32::from_be_bytes([out[pos + 4], out[pos + 5], out[pos + 6], out[pos + 7]]) as usize;
        if len < 8 || out.len() - pos < len {
            break;
        }
        pdus.push(OutPdu { typ: out[pos + 1], version: out[pos], session: u16::from_be_bytes([out[pos + 2], out[pos + 3]]), start: pos, len });
        pos += len;
    }
    (pdus, pos)
}

pub(super) fn be32_at(out: &[u8], at: usize) -> Option<u32> {
    out.get(at..at + 4).map(|s| u32::from_be_bytes([s[0], s[1], s[2], s[3]]))
}

pub(super) fn describe_output(out: &[u8]) -> Vec<String> {
    let (pdus, end) = split_output(out);
    let mut v: Vec<String> = pdus
        .iter()
        .map(|p| match p.typ {
            0 => format!("SerialNotify(v{}, session {:#06x}, serial {:#010x})", p.version, p.session, be32_at(out, p.start + 8).unwrap_or(0)),
            3 => format!("CacheResponse(v{}, session {:#06x})", p.version, p.session),
            4 => format!("IPv4Prefix(v{})", p.version),
            6 => format!("IPv6Prefix(v{})", p.version),
            7 => format!("EndOfData(v{}, session {:#06x}, serial {:#010x}, {} octets)", p.version, p.session, be32_at(out, p.start + 8).unwrap_or(0), p.len),
            8 => format!("CacheReset(v{})", p.version),
            10 => format!("Error(v{}, code {}, {} octets)", p.version, p.session, p.len),
            t => format!("PDU type {} (v{}, {} octets)", t, p.version, p.len),
        })
        .collect();
    if end < out.len() {
        v.push(format!("+{} octets that are not a whole PDU", out.len() - end));
    }
    v
}

/// How the first notification / the cuts met the first differing query: the
/// part of a failure's signature that says what it took.
fn situation(schedule: &Schedule, got: &RunOutcome, len: usize) -> &'static str {
    let explicit: usize = schedule.steps.iter().map(|s| if let D(n) = s { *n } else { 0 }).sum();
    let pieces = schedule.chunks() + (explicit < len) as usize;
    if got.positions.iter().any(|p| matches!(p.place, Place::Payload(1..=3))) {
        "notification-while-part-of-the-serial-had-arrived"
    } else if got.positions.iter().any(|p| matches!(p.place, Place::Payload(0))) {
        "notification-between-header-and-serial"
    } else if !got.positions.is_empty() && pieces > 1 {
        "in-pieces-with-notification-elsewhere"
    } else if pieces > 1 {
        "in-pieces-without-notification"
    } else if !got.positions.is_empty() {
        "whole-with-notification"
    } else {
        "whole"
    }
}

struct ServerCase {
    version: u8,
    session: u16,
    x: u32,
    y: u32,
}

/// Judges one run. Returns (signature tail, description) of the first thing
/// that contradicts "the source was asked for exactly the serial sent".
fn judge_server(case: &ServerCase, out: &[u8], stats: &mut ServerStats) -> Option<(&'static str, String)> {
    let (pdus, end) = split_output(out);
    let mut rest: Vec<&OutPdu> = Vec::new();
    for p in &pdus {
        if p.typ == 0 {
            stats.notify_pdus += 1;
            let serial = be32_at(out, p.start + 8);
            if p.len != 12 || serial != Some(case.y) || p.session != case.session {
                return Some((
                    "serial-notify-does-not-carry-the-source-serial",
                    format!("a Serial Notify carries session {:#06x} serial {:?}, the source is at session {:#06x} serial {:#010x}", p.session, serial.map(|s| format!("{s:#010x}")), case.session, case.y),
                ));
            }
        } else {
            rest.push(p);
        }
    }
    let types: Vec<u8> = rest.iter().map(|p| p.typ).collect();
    // response to the query for x: the diff, which the source only hands out for (session, x)
    if types.len() < 3 || types[..3] != [3, 4, 7] {
        let what = if types.first() == Some(&8) {
            "the server answered Cache Reset: its source was asked for a serial it has no diff from, i.e. not the one sent"
        } else if types.len() >= 2 && types[..2] == [3, 7] {
            "the server answered with an empty diff: its source was asked for its own current serial, not the one sent"
        } else {
            "the server did not answer with the diff the source holds for the serial sent"
        };
        return Some(("query-not-answered-from-the-serial-sent", format!("Serial Query for serial {:#010x}: {}", case.x, what)));
    }
    let eod = rest[2];
    let eod_len = if case.version == 0 { 12 } else { 24 };
    if be32_at(out, eod.start + 8) != Some(case.y) || eod.session != case.session || eod.len != eod_len {
        return Some((
            "end-of-data-does-not-carry-the-source-serial",
            format!("End of Data carries session {:#06x} serial {:?} in {} octets, the source is at session {:#06x} serial {:#010x}", eod.session, be32_at(out, eod.start + 8).map(|s| format!("{s:#010x}")), eod.len, case.session, case.y),
        ));
    }
    stats.first_answered_with_diff += 1;
    // response to the query for y, the source's own serial: an empty diff
    if types.len() != 5 || types[3..] != [3, 7] || end != out.len() {
        return Some((
            "following-query-out-of-step",
            format!("the Serial Query for serial {:#010x} that follows the one for {:#010x} was not answered with Cache Response, End of Data", case.y, case.x),
        ));
    }
    let eod = rest[4];
    if be32_at(out, eod.start + 8) != Some(case.y) || eod.session != case.session || eod.len != eod_len {
        return Some((
            "end-of-data-does-not-carry-the-source-serial",
            format!("second End of Data carries session {:#06x} serial {:?}, the source is at session {:#06x} serial {:#010x}", eod.session, be32_at(out, eod.start + 8).map(|s| format!("{s:#010x}")), case.session, case.y),
        ));
    }
    if rest.iter().any(|p| p.version != case.version) {
        return None; // version handling is C07's business
    }
    stats.second_answered_empty += 1;
    None
}

#[derive(Default)]
struct ServerStats {
    runs: u64,
    notify_pdus: u64,
    first_answered_with_diff: u64,
    second_answered_empty: u64,
    inconclusive: u64,
    notify_at_payload: [u64; 4],
    notify_at_header: u64,
    notify_elsewhere: u64,
    cut_inside_serial: u64,
}

fn server_workload(ctx: &mut Ctx) -> u64 {
    let wide = ctx.tier == Tier::Thorough && ctx.stage == Stage::Native;
    let n_serials: usize = match (ctx.stage, ctx.tier) {
        (Stage::Native, Tier::Quick) => 20,
        (Stage::Native, Tier::Thorough) => 120,
        (Stage::Asan, _) => 24,
        (_, Tier::Quick) => 1,
        _ => 2,
    };
    let rt = new_runtime();
    let labels = query_labels();
    let all = schedules(24, wide);
    let mut stats = ServerStats::default();
    let mut evals = 0u64;
    let mut unit = 0u64;
    for si in 0..n_serials {
        // the same cases in every shard: the shards split the (case, schedule) units
        let mut rng = Rng::derive(ctx.seed, &["C16", "server-serials"], &[si as u64]);
        let x = if si < WIRE_SERIALS.len() { WIRE_SERIALS[si] } else { rng.next_u32() };
        let y = other_serial(&mut rng, x, si);
        let session = (rng.next_u32() >> 7) as u16 | 0x0101;
        for version in 0..3u8 {
            let case = ServerCase { version, session, x, y };
            let source = make_source(session, x, y);
            let stream = query_stream(version, session, x, y);
            for (k, (class, schedule)) in all.iter().enumerate() {
                unit += 1;
                if ctx.stage == Stage::Miri {
                    // a handful: notification with 1, 2, 3 octets of the serial in, plus controls
                    let _ = k;
                    let pick = *class == "whole" || (*class == "cut,settle,notify-in-gap" && matches!(schedule.steps[0], D(9) | D(11)));
                    if !pick || version != (si as u8 + 1) % 3 {
                        continue;
                    }
                } else if !ctx.mine(unit) {
                    continue;
                }
                ctx.breadcrumb(&format!("server: serial query {x:#x} then {y:#x}, v{version}, schedule {}", schedule.to_text()));
                let got = run_schedule(&rt, &source, &stream, &labels, schedule);
                evals += 1;
                stats.runs += 1;
                for p in &got.positions {
                    match p.place {
                        Place::Payload(n) => stats.notify_at_payload[(n & 3) as usize] += 1,
                        Place::Header(_) => stats.notify_at_header += 1,
                        _ => stats.notify_elsewhere += 1,
                    }
                }
                if matches!(schedule.steps.iter().find(|s| matches!(s, D(_))), Some(D(9) | D(10) | D(11))) {
                    stats.cut_inside_serial += 1;
                }
                let sit = situation(schedule, &got, stream.len());
                ctx.sig(&format!("server v{version} {class} [{sit}] serial={}", serial_class(x)));
                let detail = |got: &RunOutcome| -> Value {
                    json!({
                        "version": version,
                        "session": session,
                        "serial_sent_in_first_query": x,
                        "serial_sent_in_first_query_hex": format!("{x:#010x}"),
                        "source_serial_and_second_query": y,
                        "source_serial_hex": format!("{y:#010x}"),
                        "client_stream_hex": crate::core::hex(&stream),
                        "schedule_class": class,
                        "schedule": schedule.to_text(),
                        "notifications_fired_at": got.positions.iter().map(|p| format!("query {} {}", p.query, p.place.name())).collect::<Vec<_>>(),
                        "server_output": describe_output(&got.out),
                        "server_output_hex": hex_capped(&got.out, 256),
                    })
                };
                if let Some(text) = &got.panic {
                    ctx.violation(&format!("C16:panic:server-run:{}", panic_location(text)), &format!("the connection task panicked: {text}"), detail(&got));
                    continue;
                }
                if got.settle_bound_hit || got.overflow {
                    // cannot tell: not this property's business (C08 watches liveness)
                    stats.inconclusive += 1;
                    continue;
                }
                if let Some((what, msg)) = judge_server(&case, &got.out, &mut stats) {
                    ctx.violation(&format!("C16:server:{what}:{sit}"), &format!("{msg} ({sit}; schedule {})", schedule.to_text()), detail(&got));
                } else if sit == "notification-while-part-of-the-serial-had-arrived" {
                    ctx.sample("server: notification while part of the serial had arrived", || {
                        json!({"serial_sent": format!("{x:#010x}"), "version": version, "schedule": schedule.to_text(), "server_output": describe_output(&got.out)})
                    });
                }
            }
        }
    }
    ctx.obs("server_runs", stats.runs);
    ctx.obs("server_runs_inconclusive", stats.inconclusive);
    ctx.obs("server_first_query_answered_with_the_diff_for_its_serial", stats.first_answered_with_diff);
    ctx.obs("server_second_query_answered_with_empty_diff", stats.second_answered_empty);
    ctx.obs("server_serial_notify_pdus_checked", stats.notify_pdus);
    for (i, n) in stats.notify_at_payload.iter().enumerate() {
        ctx.obs(&format!("server_notify_with_{}_of_4_serial_octets_in", i), *n);
    }
    ctx.obs("server_notify_inside_header", stats.notify_at_header);
    ctx.obs("server_notify_elsewhere", stats.notify_elsewhere);
    ctx.obs("server_first_cut_inside_serial_field", stats.cut_inside_serial);
    if stats.inconclusive > 0 {
        ctx.notes.push(format!("{} server runs did not settle or overflowed and were not judged", stats.inconclusive));
    }
    evals
}

//------------ client -----------------------------------------------------------------

/// Reads a transcript in pieces, keeps what the client writes (accepting a
/// few octets per call).
struct ClientSock<'a> {
    rd: TruncatingReader<'a>,
    out: Rc<RefCell<Vec<u8>>>,
    write_max: usize,
}

impl AsyncRead for ClientSock<'_> {
    fn poll_read(self: Pin<&mut Self>, cx: &mut Context<'_>, buf: &mut ReadBuf<'_>) -> Poll<io::Result<()>> {
        Pin::new(&mut self.get_mut().rd).poll_read(cx, buf)
    }
}

impl AsyncWrite for ClientSock<'_> {
    fn poll_write(self: Pin<&mut Self>, _cx: &mut Context<'_>, data: &[u8]) -> Poll<io::Result<usize>> {
        let n = data.len().min(self.write_max);
        self.out.borrow_mut().extend_from_slice(&data[..n]);
        Poll::Ready(Ok(n))
    }
    fn poll_flush(self: Pin<&mut Self>, _cx: &mut Context<'_>) -> Poll<io::Result<()>> {
        Poll::Ready(Ok(()))
    }
    fn poll_shutdown(self: Pin<&mut Self>, _cx: &mut Context<'_>) -> Poll<io::Result<()>> {
        Poll::Ready(Ok(()))
    }
}

pub(super) struct Upd(Vec<(Action, Payload)>);

impl PayloadUpdate for Upd {
    fn push_update(&mut self, action: Action, payload: Payload) -> Result<(), PayloadError> {
        self.0.push((action, payload));
        Ok(())
    }
}

#[derive(Default)]
pub(super) struct Tgt {
    pub applied: usize,
}

impl PayloadTarget for Tgt {
    type Update = Upd;
    fn start(&mut self, _reset: bool) -> Upd {
        Upd(Vec::new())
    }
    fn apply(&mut self, _update: Upd, _timing: Timing) -> Result<(), PayloadError> {
        self.applied += 1;
        Ok(())
    }
}

fn v4(version: u8, k: u32) -> WirePdu {
    WirePdu::V4 { v: version, flags: 1, plen: 24, mlen: 24, addr: 0xC000_0200 + (k << 8), asn: 64496 + k, via_item: true, explicit_max: true }
}

fn chunkings(rng: &mut Rng) -> Vec<Chunking> {
    vec![
        Chunking::AllAtOnce,
        Chunking::ByteWise,
        Chunking::Script(vec![1, 0]),
        Chunking::Script(vec![3, 0, 2, 0]),
        Chunking::Script(vec![9, 0, 1, 0, 1, 0, 1, 0]),
        Chunking::Script(vec![10, 0, 2, 0]),
        Chunking::Script(vec![11, 0, 1, 0]),
        Chunking::Script(vec![5, 7, 0, 1]),
        Chunking::Script((0..6).map(|_| rng.below(4) as usize).chain([1]).collect()),
    ]
}

fn chunking_text(c: &Chunking) -> String {
    match c {
        Chunking::AllAtOnce => "all at once".into(),
        Chunking::ByteWise => "one octet per read, Pending before each".into(),
        Chunking::Script(s) => format!("cyclic script {:?} (n = at most n octets, 0 = Pending)", s),
    }
}

pub(super) fn state_json(s: Option<State>) -> Value {
    match s {
        None => Value::Null,
        Some(s) => json!({"session": s.session(), "serial": u32::from(s.serial()), "serial_hex": format!("{:#010x}", u32::from(s.serial()))}),
    }
}

fn client_workload(ctx: &mut Ctx) -> u64 {
    let n_cases: usize = match (ctx.stage, ctx.tier) {
        (Stage::Native, Tier::Quick) => 240,
        (Stage::Native, Tier::Thorough) => 6_000,
        (Stage::Asan, _) => 240,
        _ => 2,
    };
    let rt = new_runtime();
    let _guard = rt.enter();
    let mut evals = 0u64;
    let mut ok_steps = 0u64;
    let mut failed_steps = 0u64;
    let mut adopted = 0u64;
    let mut queries = 0u64;
    for ci in 0..n_cases {
        if ctx.stage != Stage::Miri && !ctx.mine(ci as u64) {
            continue;
        }
        let mut rng = Rng::derive(ctx.seed, &["C16", "client"], &[ci as u64]);
        let pick = |rng: &mut Rng, i: usize| if i < 2 * WIRE_SERIALS.len() { WIRE_SERIALS[(i / 2) % WIRE_SERIALS.len()] } else { rng.next_u32() };
        let old = pick(&mut rng, ci);
        let n1 = other_serial(&mut rng, old, ci);
        let n2 = if ci % 3 == 0 { n1.wrapping_add(1) } else { *rng.pick(&WIRE_SERIALS) };
        let version = (ci % 3) as u8;
        let session = (rng.next_u32() >> 9) as u16 | 0x0102;
        let with_state = ci % 2 == 0;
        let k1 = (ci / 6) % 3;
        let k2 = (ci / 18) % 2;
        let mut pdus = vec![WirePdu::CacheResponse { v: version, session }];
        for k in 0..k1 {
            pdus.push(v4(version, k as u32));
        }
        pdus.push(WirePdu::EndOfData { v: version, session, serial: n1, refresh: 3600, retry: 600, expire: 7200 });
        let first_len: usize = pdus.iter().map(|p| p.encode().len()).sum();
        pdus.push(WirePdu::SerialNotify { v: version, session, serial: n2 });
        pdus.push(WirePdu::CacheResponse { v: version, session });
        for k in 0..k2 {
            pdus.push(v4(version, 7 + k as u32));
        }
        pdus.push(WirePdu::EndOfData { v: version, session, serial: n2, refresh: 1800, retry: 300, expire: 3600 });
        let transcript: Vec<u8> = pdus.iter().flat_map(|p| p.encode()).collect();
        let all_chunkings = chunkings(&mut rng);
        let chosen: Vec<&Chunking> = if ctx.stage == Stage::Miri { vec![&all_chunkings[1]] } else { all_chunkings.iter().collect() };
        for ch in chosen {
            for write_max in [usize::MAX, 3] {
                if write_max == 3 && (!matches!(ch, Chunking::ByteWise | Chunking::AllAtOnce) || (ctx.stage == Stage::Miri && ci > 0)) {
                    continue;
                }
                let out = Rc::new(RefCell::new(Vec::new()));
                let sock = ClientSock { rd: TruncatingReader::new(&transcript, transcript.len(), ch.clone()), out: out.clone(), write_max };
                let state0 = if with_state { Some(State::from_parts(session, Serial::from(old))) } else { None };
                let mut client = if ci % 4 < 2 { Client::new(sock, Tgt::default(), state0) } else { Client::with_initial_version(version, sock, Tgt::default(), state0) };
                let budget = 8 * transcript.len() as u64 + 400;
                let detail = |client_state: Option<State>, written: &[u8], step: u32| -> Value {
                    json!({
                        "version": version,
                        "session": session,
                        "client_constructed_with": state_json(state0),
                        "transcript": pdus.iter().map(|p| p.to_json()).collect::<Vec<_>>(),
                        "transcript_hex": crate::core::hex(&transcript),
                        "first_exchange_octets": first_len,
                        "delivery": chunking_text(ch),
                        "client_write_accepts_per_call": if write_max == usize::MAX { json!("everything") } else { json!(write_max) },
                        "step": step,
                        "client_state_after_step": state_json(client_state),
                        "client_wrote_hex": crate::core::hex(written),
                    })
                };
                ctx.sig(&format!("client v{version} {} first={} k={k1} delivery={} serial={}", if with_state { "serial-query" } else { "reset-query" }, if ci % 4 < 2 { "new" } else { "with_initial_version" }, ch.label(), serial_class(n1)));
                // ---- first exchange
                let r = crate::core::catch(|| drive(client.step(), budget).0);
                evals += 1;
                let r = match r {
                    Ok(r) => r,
                    Err(text) => {
                        ctx.violation(&format!("C16:panic:client-step:{}", panic_location(&text)), &format!("Client::step panicked: {text}"), detail(None, &out.borrow()[..], 1));
                        continue;
                    }
                };
                if !matches!(r, Some(Ok(()))) {
                    // a client that gives up on a valid transcript is not this property's business
                    failed_steps += 1;
                    continue;
                }
                ok_steps += 1;
                let st = client.state();
                adopted += 1;
                if st.map(|s| (s.session(), u32::from(s.serial()))) != Some((session, n1)) {
                    ctx.violation(
                        "C16:client:state-is-not-the-serial-of-end-of-data",
                        &format!("End of Data carried session {session:#06x} serial {n1:#010x}; Client::state() is {} ({})", state_json(st), chunking_text(ch)),
                        detail(st, &out.borrow()[..], 1),
                    );
                    continue;
                }
                // what the client asked for
                let written = out.borrow().clone();
                let asked_ok = if with_state {
                    written.len() == 12 && written[1] == 1 && written[2..4] == session.to_be_bytes() && written[8..12] == old.to_be_bytes()
                } else {
                    written.len() == 8 && written[1] == 2
                };
                queries += 1;
                if !asked_ok {
                    ctx.violation(
                        "C16:client:serial-query-does-not-carry-the-state-given",
                        &format!("a client constructed with {} wrote {}", state_json(state0), crate::core::hex(&written)),
                        detail(st, &written, 1),
                    );
                    continue;
                }
                // ---- Serial Notify, then the query must be for what End of Data said
                let r = crate::core::catch(|| drive(client.step(), budget).0);
                evals += 1;
                let r = match r {
                    Ok(r) => r,
                    Err(text) => {
                        ctx.violation(&format!("C16:panic:client-step:{}", panic_location(&text)), &format!("Client::step panicked: {text}"), detail(st, &out.borrow()[..], 2));
                        continue;
                    }
                };
                if !matches!(r, Some(Ok(()))) {
                    failed_steps += 1;
                    continue;
                }
                ok_steps += 1;
                let written = out.borrow().clone();
                let q = &written[if with_state { 12 } else { 8 }..];
                queries += 1;
                if !(q.len() == 12 && q[1] == 1 && q[2..4] == session.to_be_bytes() && q[8..12] == n1.to_be_bytes()) {
                    ctx.violation(
                        "C16:client:next-serial-query-is-not-for-the-serial-of-end-of-data",
                        &format!("after End of Data with session {session:#06x} serial {n1:#010x} the client's next query is {}", crate::core::hex(q)),
                        detail(client.state(), &written, 2),
                    );
                    continue;
                }
                let st = client.state();
                adopted += 1;
                if st.map(|s| (s.session(), u32::from(s.serial()))) != Some((session, n2)) {
                    ctx.violation(
                        "C16:client:state-is-not-the-serial-of-end-of-data",
                        &format!("second End of Data carried session {session:#06x} serial {n2:#010x}; Client::state() is {} ({})", state_json(st), chunking_text(ch)),
                        detail(st, &written, 2),
                    );
                    continue;
                }
                if client.target().applied != 2 {
                    ctx.obs("client_target_applied_count_unexpected", 1);
                }
                if ctx.wants_sample("client: adopted serial") && matches!(ch, Chunking::ByteWise) {
                    ctx.sample("client: adopted serial", || json!({"end_of_data_serials": [format!("{n1:#010x}"), format!("{n2:#010x}")], "delivery": chunking_text(ch), "version": version, "client_wrote_hex": crate::core::hex(&written), "state": state_json(st)}));
                }
            }
        }
    }
    ctx.obs("client_steps_completed", ok_steps);
    ctx.obs("client_steps_not_completed", failed_steps);
    ctx.obs("client_adopted_states_compared", adopted);
    ctx.obs("client_queries_inspected", queries);
    if failed_steps > 0 {
        ctx.notes.push(format!("{failed_steps} client steps over a valid transcript did not complete; the adopted serial could not be observed for them"));
    }
    evals
}

//------------ readers ---------------------------------------------------------------

/// Every public reader of a PDU with a serial number in it, fed in pieces.
fn reader_workload(ctx: &mut Ctx) -> u64 {
    let mut evals = 0u64;
    let mut rng = ctx.rng("readers");
    let n_random = ctx.stage_budget((400, 40_000), 400, 1, 0) as usize;
    let serials: Vec<u32> = if ctx.stage == Stage::Miri { vec![0x0102_0304, 0xFFFF_FFFE] } else { WIRE_SERIALS.iter().copied().chain((0..n_random).map(|_| rng.next_u32())).collect() };
    if ctx.shard != 0 && ctx.stage != Stage::Miri && ctx.tier == Tier::Quick {
        return 0;
    }
    for (i, &a) in serials.iter().enumerate() {
        let session = (i as u16).wrapping_mul(0x0301) ^ 0x5A5A;
        let all = chunkings(&mut rng);
        let chosen: Vec<&Chunking> = if ctx.stage == Stage::Miri { vec![&all[1]] } else if i < WIRE_SERIALS.len() { all.iter().collect() } else { vec![&all[1], &all[8]] };
        for ch in chosen {
            let mut bad: Vec<&'static str> = Vec::new();
            for version in 0..3u8 {
                let eod = WirePdu::EndOfData { v: version, session, serial: a, refresh: 3600, retry: 600, expire: 7200 }.encode();
                // header first, then the rest: what `Payload::read` does for the client
                let mut rd = TruncatingReader::new(&eod, eod.len(), ch.clone());
                match drive(pdu::Payload::read(&mut rd), 600).0 {
                    Some(Ok(Err(e))) if u32::from(e.serial()) == a && e.session() == session && u32::from(e.state().serial()) == a => {}
                    _ => bad.push("payload-read-end-of-data"),
                }
                let mut rd = TruncatingReader::new(&eod, eod.len(), ch.clone());
                let got = drive(
                    async {
                        let h = pdu::Header::read(&mut rd).await?;
                        pdu::EndOfData::read_payload(h, &mut rd).await
                    },
                    600,
                )
                .0;
                match got {
                    Some(Ok(e)) if u32::from(e.serial()) == a && e.session() == session => {}
                    _ => bad.push("end-of-data-read-payload"),
                }
                let mut rd = TruncatingReader::new(&eod, eod.len(), ch.clone());
                let ok = if version == 0 {
                    matches!(drive(pdu::EndOfDataV0::read(&mut rd), 600).0, Some(Ok(e)) if u32::from(e.serial()) == a)
                } else {
                    matches!(drive(pdu::EndOfDataV1::read(&mut rd), 600).0, Some(Ok(e)) if u32::from(e.serial()) == a)
                };
                if !ok {
                    bad.push("end-of-data-vN-read");
                }
                let mut rd = TruncatingReader::new(&eod, eod.len(), ch.clone());
                let ok = if version == 0 {
                    matches!(drive(pdu::EndOfDataV0::try_read(&mut rd), 600).0, Some(Ok(Ok(e))) if u32::from(e.serial()) == a)
                } else {
                    matches!(drive(pdu::EndOfDataV1::try_read(&mut rd), 600).0, Some(Ok(Ok(e))) if u32::from(e.serial()) == a)
                };
                if !ok {
                    bad.push("end-of-data-vN-try-read");
                }
                let sn = WirePdu::SerialNotify { v: version, session, serial: a }.encode();
                let mut rd = TruncatingReader::new(&sn, sn.len(), ch.clone());
                match drive(pdu::SerialNotify::try_read(&mut rd), 600).0 {
                    Some(Ok(Ok(p))) if p.as_ref() == sn.as_slice() => {}
                    _ => bad.push("serial-notify-try-read"),
                }
                let mut rd = TruncatingReader::new(&sn, sn.len(), ch.clone());
                let got = drive(
                    async {
                        let h = pdu::Header::read(&mut rd).await?;
                        pdu::SerialNotify::read_payload(h, &mut rd).await
                    },
                    600,
                )
                .0;
                match got {
                    Some(Ok(p)) if p.as_ref() == sn.as_slice() => {}
                    _ => bad.push("serial-notify-read-payload"),
                }
                let sq = WirePdu::SerialQuery { v: version, session, serial: a }.encode();
                let mut rd = TruncatingReader::new(&sq, sq.len(), ch.clone());
                let got = drive(
                    async {
                        let h = pdu::Header::read(&mut rd).await?;
                        let p = pdu::SerialQueryPayload::read(&mut rd).await?;
                        Ok::<_, io::Error>((h.session(), p.serial()))
                    },
                    600,
                )
                .0;
                match got {
                    Some(Ok((s, p))) if s == session && u32::from(p) == a => {}
                    _ => bad.push("header-then-serial-query-payload"),
                }
                evals += 7;
            }
            for what in bad {
                ctx.violation(
                    &format!("C16:pdu-wire:{}-in-pieces", what),
                    &format!("serial {a:#010x} sent big-endian is not what {what} gives back when the octets arrive in pieces ({})", chunking_text(ch)),
                    json!({"serial": a, "serial_hex": format!("{a:#010x}"), "session": session, "delivery": chunking_text(ch)}),
                );
            }
        }
    }
    ctx.obs("reader_serials_fed_in_pieces", serials.len() as u64);
    ctx.sig("readers in pieces: Payload::read / EndOfData::read_payload / EndOfDataV0,V1 read, try_read / SerialNotify try_read, read_payload / header + SerialQueryPayload");
    evals
}

pub fn run(ctx: &mut Ctx) -> u64 {
    let mut evals = 0;
    evals += reader_workload(ctx);
    evals += client_workload(ctx);
    evals += server_workload(ctx);
    evals
}
