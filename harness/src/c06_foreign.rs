//! C06 helper: the real client against a cache that is NOT the library's
//! server (included from `c06.rs` with `#[path]`).
//!
//! Everything else in C06 joins the library's client with the library's
//! server, so the client only ever reads what that one sender produces: flags
//! octets 0 and 1, zeroed reserved fields, one fixed shape of a difference. A
//! router talks to caches written by other people. RFC 6810 / RFC 8210 /
//! 8210bis give a sender freedoms the library's server never uses, and oblige
//! the receiver to cope:
//!
//! * section 5 ("Reserved fields (marked 'zero' in PDU diagrams) MUST be zero
//!   on transmission and MUST be ignored on receipt"): the fourth octet of the
//!   body of an IPv4 / IPv6 Prefix PDU, the 16 bits after the type octet in the
//!   header of those PDUs and of Cache Reset, the octet after the flags octet
//!   in the header of a Router Key / ASPA PDU;
//! * sections 5.6, 5.7, 5.10: "The lowest-order bit of the Flags field is 1
//!   for an announcement and 0 for a withdrawal", the remaining bits "MUST be
//!   ignored on receipt";
//! * payload PDUs in any order, types interleaved; an item announced and
//!   withdrawn again (or withdrawn and announced again) inside one response; an
//!   ASPA record replaced by a second announcement for the same customer
//!   (inside one response or of a record held); an ASPA withdrawal with, without
//!   or with other providers than the record held; duplicate announcements and
//!   withdrawals of something absent (a receiver "SHOULD" raise an error, so an
//!   error and carrying on are both fine - a step that ends in `Err` asserts
//!   nothing);
//! * End of Data timing values at both ends of their ranges (refresh 1 ..
//!   86400, retry 1 .. 7200, expire 600 .. 172800), any step of the serial
//!   number (none, one, many, across the wrap, backwards), a new session id
//!   after Cache Reset;
//! * a cache speaking a lower version than the router asked for answers either
//!   with an "unsupported protocol version" Error Report or directly with PDUs
//!   of its own version (RFC 8210 section 7).
//!
//! Workload: scripted conversations of 1 .. 4 exchanges. The harness writes
//! down the cache side as a list of items with their dress (flags octet,
//! reserved fields), lays it out with the independent encoder `c07_io::Pdu`
//! (reserved fields are then overwritten in the octets) and serves it through
//! a scripted socket that releases every answer only after the query it
//! answers was written (the client reads the socket while it idles, so
//! nothing may be readable early). The client is the real `Client`, driven
//! through `step()` or `update()` + `apply()` on a paused-clock runtime; an
//! exchange after the first is started by a Serial Notify or by the refresh
//! timer running out in virtual time.
//!
//! Oracle (model written from the documents, plain integers): the data the
//! transcript prescribes is the previous data (empty for an answer to a reset
//! query) with the payload PDUs applied in wire order - lowest-order flags bit
//! 1 inserts (an ASPA replaces the record of that customer), 0 removes.
//! After a step that returned `Ok` the target's log replayed on the previous
//! data must be that, `Client::state()` must be the End of Data's session and
//! serial, and from version 1 on the timing handed to the target must be the
//! End of Data's. Where the documents leave the receiver's behaviour open the
//! oracle accepts every documented reading and records which one was seen:
//! payload types the session's version does not carry (applied or ignored),
//! withdrawals inside an answer to a reset query (applied or ignored), timing
//! values outside the ranges or with expire not above refresh / retry
//! (recorded only).

use super::{abort_class, gen_providers, gen_universe, short, Applied, Target, Universe, STEP_GUARD};
use crate::c06_src::{from_lib, render_item, Data, Item, TimingT};
use crate::c07_io::{hex_capped, Pdu};
use crate::core::{catch, panic_location, take_last_panic, Ctx, Rng, Stage};
use rpki::rtr::client::Client;
use rpki::rtr::payload::Action;
use rpki::rtr::state::{Serial, State};
use serde_json::{json, Value};
use std::collections::BTreeMap;
use std::io;
use std::pin::Pin;
use std::sync::{Arc, Mutex};
use std::task::{Context, Poll};
use tokio::io::{AsyncRead, AsyncWrite, ReadBuf};

//------------ the scripted socket ---------------------------------------------

/// Octets the cache says once the client has written `after_queries` queries.
struct Part {
    after_queries: usize,
    bytes: Vec<u8>,
}

/// What the client wrote, framed by the length field of RFC 8210 section 5.
#[derive(Default)]
struct Wire {
    out: Vec<u8>,
    parsed: usize,
    queries: usize,
    /// (version, type, session field, octets after the header)
    sent: Vec<(u8, u8, u16, Vec<u8>)>,
    framing_lost: bool,
}

struct CacheSock {
    parts: Vec<Part>,
    part: usize,
    pos: usize,
    /// cyclic delivery script: 0 = not ready once (the waker is called), n = at most n octets
    chunks: Vec<usize>,
    chunk_idx: usize,
    wire: Arc<Mutex<Wire>>,
}

impl AsyncRead for CacheSock {
    fn poll_read(self: Pin<&mut Self>, cx: &mut Context<'_>, buf: &mut ReadBuf<'_>) -> Poll<io::Result<()>> {
        let this = self.get_mut();
        if buf.remaining() == 0 {
            return Poll::Ready(Ok(()));
        }
        while this.part < this.parts.len() && this.pos >= this.parts[this.part].bytes.len() {
            this.part += 1;
            this.pos = 0;
        }
        if this.part >= this.parts.len() {
            // the cache has closed the connection
            return Poll::Ready(Ok(()));
        }
        let queries = this.wire.lock().unwrap_or_else(|e| e.into_inner()).queries;
        if this.parts[this.part].after_queries > queries {
            // the cache has nothing to say before it is asked (the clock is
            // virtual: the runtime moves on to the client's next timer)
            return Poll::Pending;
        }
        let step = if this.chunks.is_empty() { usize::MAX } else { this.chunks[this.chunk_idx % this.chunks.len()] };
        this.chunk_idx += 1;
        if step == 0 {
            cx.waker().wake_by_ref();
            return Poll::Pending;
        }
        let bytes = &this.parts[this.part].bytes;
        let n = buf.remaining().min(step).min(bytes.len() - this.pos);
        buf.put_slice(&bytes[this.pos..this.pos + n]);
        this.pos += n;
        Poll::Ready(Ok(()))
    }
}

impl AsyncWrite for CacheSock {
    fn poll_write(self: Pin<&mut Self>, _cx: &mut Context<'_>, buf: &[u8]) -> Poll<io::Result<usize>> {
        let mut w = self.wire.lock().unwrap_or_else(|e| e.into_inner());
        w.out.extend_from_slice(buf);
        while !w.framing_lost && w.out.len() - w.parsed >= 8 {
            let at = w.parsed;
            let len = u32::from_be_bytes([w.out[at + 4], w.out[at + 5], w.out[at + 6], w.out[at + 7]]) as usize;
            if !(8..=1 << 20).contains(&len) {
                w.framing_lost = true;
                break;
            }
            if w.out.len() - at < len {
                break;
            }
            let rec = (w.out[at], w.out[at + 1], u16::from_be_bytes([w.out[at + 2], w.out[at + 3]]), w.out[at + 8..at + len].to_vec());
            if rec.1 == 1 || rec.1 == 2 {
                w.queries += 1;
            }
            w.sent.push(rec);
            w.parsed += len;
        }
        Poll::Ready(Ok(buf.len()))
    }

    fn poll_flush(self: Pin<&mut Self>, _cx: &mut Context<'_>) -> Poll<io::Result<()>> {
        Poll::Ready(Ok(()))
    }

    fn poll_shutdown(self: Pin<&mut Self>, _cx: &mut Context<'_>) -> Poll<io::Result<()>> {
        Poll::Ready(Ok(()))
    }
}

//------------ the script --------------------------------------------------------

#[derive(Clone, Copy, Debug, PartialEq, Eq)]
enum Reply {
    /// Cache Response + difference, in answer to a serial query
    Diff,
    /// Cache Response + full set, in answer to a reset query
    Reset,
    /// Cache Reset in answer to the serial query, then the full set in answer to the reset query
    Fallback,
}

impl Reply {
    fn name(self) -> &'static str {
        match self {
            Reply::Diff => "serial",
            Reply::Reset => "reset",
            Reply::Fallback => "fallback-reset",
        }
    }
}

#[derive(Clone, Copy, Debug, PartialEq, Eq)]
enum Entry {
    Step,
    UpdateApply,
}

#[derive(Clone, Copy, Debug, PartialEq, Eq)]
enum FlagStyle {
    /// 0 and 1 only: what the library's own server sends (control)
    Plain,
    OneReservedBit,
    HighBit,
    AllOnes,
    AnyOctet,
    MixedPerPdu,
}

impl FlagStyle {
    fn name(self) -> &'static str {
        match self {
            FlagStyle::Plain => "plain",
            FlagStyle::OneReservedBit => "one-reserved-bit",
            FlagStyle::HighBit => "bit-7",
            FlagStyle::AllOnes => "all-reserved-bits",
            FlagStyle::AnyOctet => "any-octet",
            FlagStyle::MixedPerPdu => "mixed-per-pdu",
        }
    }
}

#[derive(Clone, Copy, Debug, PartialEq, Eq)]
enum ZeroStyle {
    Zero,
    LowBit,
    AllOnes,
    Any,
    MixedPerPdu,
}

impl ZeroStyle {
    fn name(self) -> &'static str {
        match self {
            ZeroStyle::Zero => "zero",
            ZeroStyle::LowBit => "lowest-bit",
            ZeroStyle::AllOnes => "all-ones",
            ZeroStyle::Any => "any",
            ZeroStyle::MixedPerPdu => "mixed-per-pdu",
        }
    }
}

/// One payload PDU as the cache sends it.
#[derive(Clone, Debug)]
struct WirePdu {
    announce: bool,
    /// for an ASPA withdrawal: the providers on the wire (they do not matter)
    item: Item,
    flags: u8,
    /// prefix PDUs: fourth octet of the body; router key / ASPA: octet after the flags octet
    zero8: u8,
    /// prefix PDUs: the 16 bits after the type octet
    zero16: u16,
}

#[derive(Clone, Debug)]
struct Exchange {
    /// Serial Notify in front of it (otherwise the refresh timer starts the exchange)
    notify: Option<(u16, u32)>,
    /// Error Report "unsupported protocol version" first: (query embedded?, length of the text)
    version_error: Option<(bool, usize)>,
    reply: Reply,
    /// the reserved 16 bits of the Cache Reset PDU
    reset_zero16: u16,
    pdus: Vec<WirePdu>,
    eod: (u16, u32),
    timing: TimingT,
    timing_class: &'static str,
    /// the values are within the ranges of RFC 8210 section 6 and expire is above refresh and retry
    timing_regular: bool,
}

#[derive(Clone, Debug)]
struct Script {
    seed: u64,
    /// the cache's protocol version: every PDU it sends carries it
    v: u8,
    client_version: u8,
    init_state: Option<(u16, u32)>,
    init_data: Data,
    entry: Entry,
    chunks: Vec<usize>,
    flag_style: FlagStyle,
    zero_style: ZeroStyle,
    /// open case: the cache sends payload types its version does not have
    out_of_version: bool,
    /// open case: the cache puts withdrawals into answers to reset queries
    withdraw_in_reset: bool,
    exchanges: Vec<Exchange>,
}

fn carried(v: u8, item: &Item) -> bool {
    match item {
        Item::Origin(_) => true,
        Item::Key(_) => v >= 1,
        Item::Aspa(..) => v >= 2,
    }
}

fn dress_flags(style: FlagStyle, announce: bool, rng: &mut Rng) -> u8 {
    let base = announce as u8;
    match style {
        FlagStyle::Plain => base,
        FlagStyle::OneReservedBit => base | (1u8 << rng.range(1, 7)),
        FlagStyle::HighBit => base | 0x80,
        FlagStyle::AllOnes => base | 0xFE,
        FlagStyle::AnyOctet => (rng.next_u32() as u8 & 0xFE) | base,
        FlagStyle::MixedPerPdu => {
            let s = *rng.pick(&[FlagStyle::Plain, FlagStyle::OneReservedBit, FlagStyle::HighBit, FlagStyle::AllOnes, FlagStyle::AnyOctet]);
            dress_flags(s, announce, rng)
        }
    }
}

fn dress_zero(style: ZeroStyle, rng: &mut Rng) -> (u8, u16) {
    match style {
        ZeroStyle::Zero => (0, 0),
        ZeroStyle::LowBit => (1, *rng.pick(&[0x0001u16, 0x0100, 0x0101])),
        ZeroStyle::AllOnes => (0xFF, 0xFFFF),
        ZeroStyle::Any => ((rng.next_u32() as u8).max(1), (rng.next_u32() as u16).max(1)),
        ZeroStyle::MixedPerPdu => {
            let s = *rng.pick(&[ZeroStyle::Zero, ZeroStyle::LowBit, ZeroStyle::AllOnes, ZeroStyle::Any]);
            let (a, b) = dress_zero(s, rng);
            // one of the two fields only, now and then
            match rng.below(3) {
                0 => (a, 0),
                1 => (0, b),
                _ => (a, b),
            }
        }
    }
}

fn gen_eod_timing(rng: &mut Rng) -> (TimingT, &'static str) {
    match rng.below(12) {
        0 => ((1, 1, 600), "all-at-minimum"),
        1 => ((86_400, 7200, 172_800), "all-at-maximum"),
        2 | 3 => (
            (*rng.pick(&[1u32, 86_400]), *rng.pick(&[1u32, 7200]), *rng.pick(&[600u32, 172_800])),
            "ends-mixed",
        ),
        4 => (
            (*rng.pick(&[2u32, 86_399]), *rng.pick(&[2u32, 7199]), *rng.pick(&[601u32, 172_799])),
            "next-to-the-ends",
        ),
        5 => (
            // refresh stays below the range of tokio's timer wheel (see STEP_GUARD)
            (*rng.pick(&[0u32, 86_401, 30_000_000]), *rng.pick(&[0u32, 7201, u32::MAX]), *rng.pick(&[0u32, 599, 172_801, u32::MAX])),
            "outside-the-ranges",
        ),
        6 => ((3600, 600, 7200), "defaults"),
        _ => {
            // expire above refresh and retry (RFC 8210 section 6)
            let refresh = rng.range(1, 86_400);
            let retry = rng.range(1, 7200);
            let expire = rng.range(refresh.max(retry).max(599) + 1, 172_800);
            ((refresh as u32, retry as u32, expire as u32), "inside")
        }
    }
}

fn timing_regular(t: TimingT) -> bool {
    (1..=86_400).contains(&t.0) && (1..=7200).contains(&t.1) && (600..=172_800).contains(&t.2) && t.2 > t.0 && t.2 > t.1
}

fn pick_item(rng: &mut Rng, uni: &Universe, working: &[Item], v: u8, oov: bool) -> Item {
    if !working.is_empty() && rng.chance(3, 4) {
        return rng.pick(working).clone();
    }
    let keys_ok = v >= 1 || oov;
    let aspas_ok = v >= 2 || oov;
    match rng.below(20) {
        0..=3 if keys_ok => Item::Key(rng.pick(&uni.keys).clone()),
        4..=8 if aspas_ok => Item::Aspa(*rng.pick(&uni.customers), gen_providers(rng, uni)),
        _ => Item::Origin(*rng.pick(&uni.origins)),
    }
}

fn holds(d: &Data, item: &Item) -> bool {
    match item {
        Item::Origin(k) => d.origins.contains(k),
        Item::Key(k) => d.keys.contains(k),
        Item::Aspa(c, _) => d.aspas.contains_key(c),
    }
}

fn other_providers(rng: &mut Rng, uni: &Universe, held: Option<&Vec<u32>>) -> Vec<u32> {
    let mut p = gen_providers(rng, uni);
    if Some(&p) == held {
        p.push(64_496);
    }
    p
}

/// The payload PDUs of one answer. The list itself defines the cache's data:
/// `start` (empty for an answer to a reset query) with the list applied in order.
fn gen_pdus(rng: &mut Rng, uni: &Universe, working: &[Item], sc_v: u8, oov: bool, wd_in_reset: bool, full: bool, start: &Data, n: usize) -> Vec<(bool, Item)> {
    let mut d = if full { Data::default() } else { start.clone() };
    let mut list: Vec<(bool, Item)> = Vec::new();
    let mut tries = 0;
    while list.len() < n && tries < 4 * n + 8 {
        tries += 1;
        let mut item = pick_item(rng, uni, working, sc_v, oov);
        let present = holds(&d, &item);
        let may_withdraw = !full || wd_in_reset;
        let announce = match (&item, present) {
            (Item::Aspa(c, _), true) => {
                // replace by a second announcement / same record again / withdraw
                let held = d.aspas.get(c).cloned();
                match rng.below(20) {
                    0..=8 => {
                        item = Item::Aspa(*c, other_providers(rng, uni, held.as_ref()));
                        true
                    }
                    9 | 10 => {
                        item = Item::Aspa(*c, held.unwrap_or_default());
                        true
                    }
                    _ if may_withdraw => {
                        let wire = match rng.below(4) {
                            0 | 1 => Vec::new(),
                            2 => held.unwrap_or_default(),
                            _ => gen_providers(rng, uni),
                        };
                        item = Item::Aspa(*c, wire);
                        false
                    }
                    _ => {
                        item = Item::Aspa(*c, other_providers(rng, uni, held.as_ref()));
                        true
                    }
                }
            }
            (_, true) => {
                if may_withdraw && rng.chance(7, 10) {
                    false
                } else if rng.chance(1, 2) {
                    true // the same item announced again
                } else {
                    continue;
                }
            }
            (_, false) => {
                if may_withdraw && rng.chance(3, 20) {
                    false // withdrawal of something absent
                } else {
                    true
                }
            }
        };
        d.apply(announce, &item);
        list.push((announce, item));
    }
    list
}

fn gen_subset(rng: &mut Rng, uni: &Universe, v: u8) -> Data {
    let mut d = Data::default();
    let share = rng.range(0, 3);
    for k in &uni.origins {
        if rng.below(4) < share {
            d.origins.insert(*k);
        }
    }
    if v >= 1 {
        for k in &uni.keys {
            if rng.below(4) < share {
                d.keys.insert(k.clone());
            }
        }
    }
    if v >= 2 {
        for c in &uni.customers {
            if rng.below(4) < share + 1 {
                d.aspas.insert(*c, gen_providers(rng, uni));
            }
        }
    }
    d
}

fn gen_script(seed: u64, light: bool) -> Script {
    let mut rng = Rng::new(seed);
    let uni = gen_universe(&mut rng, light);
    let v: u8 = match rng.below(8) {
        0 => 0,
        1 | 2 => 1,
        _ => 2,
    };
    let client_version = if rng.chance(2, 3) { v } else { rng.range(v as u64, 2) as u8 };
    let flag_style = match rng.below(16) {
        0 | 1 => FlagStyle::Plain,
        2..=4 => FlagStyle::OneReservedBit,
        5 | 6 => FlagStyle::HighBit,
        7 | 8 => FlagStyle::AllOnes,
        9..=11 => FlagStyle::AnyOctet,
        _ => FlagStyle::MixedPerPdu,
    };
    let zero_style = match rng.below(16) {
        0..=5 => ZeroStyle::Zero,
        6..=8 => ZeroStyle::LowBit,
        9 | 10 => ZeroStyle::AllOnes,
        11 | 12 => ZeroStyle::Any,
        _ => ZeroStyle::MixedPerPdu,
    };
    let out_of_version = v < 2 && rng.chance(1, 16);
    let withdraw_in_reset = rng.chance(1, 16);
    let session0 = rng.next_u32() as u16;
    let serial0 = match rng.below(6) {
        0 => 0,
        1 => u32::MAX - rng.below(3) as u32,
        2 => 0x7FFF_FFFF + rng.below(3) as u32,
        _ => rng.next_u32(),
    };
    let with_state = rng.chance(3, 5);
    let init_state = if with_state { Some((session0, serial0)) } else { None };
    // without a state the target may hold anything: an answer to a reset query replaces it
    let init_data = if with_state || rng.bool() { gen_subset(&mut rng, &uni, v) } else { Data::default() };
    // items that come up again and again, so that one item has a history inside a response
    let mut working: Vec<Item> = Vec::new();
    for _ in 0..rng.range(3, 8) {
        let it = pick_item(&mut rng, &uni, &[], v, out_of_version);
        working.push(it);
    }
    let n_exchanges = if light { rng.range(1, 2) } else { rng.range(1, 4) } as usize;
    let mut exchanges = Vec::new();
    let mut state = init_state;
    let mut data = init_data.clone();
    for x in 0..n_exchanges {
        let reply = match state {
            None => Reply::Reset,
            Some(_) => {
                if rng.chance(1, 4) {
                    Reply::Fallback
                } else {
                    Reply::Diff
                }
            }
        };
        let full = reply != Reply::Diff;
        let n = match rng.below(10) {
            0 => 0,
            1..=5 => rng.range(1, 8),
            6..=8 => rng.range(8, 24),
            _ => rng.range(24, 60),
        } as usize;
        let n = if light { n.min(5) } else { n };
        let list = gen_pdus(&mut rng, &uni, &working, v, out_of_version, withdraw_in_reset, full, &data, n);
        let pdus: Vec<WirePdu> = list
            .into_iter()
            .map(|(announce, item)| {
                let flags = dress_flags(flag_style, announce, &mut rng);
                let (zero8, zero16) = dress_zero(zero_style, &mut rng);
                WirePdu { announce, item, flags, zero8, zero16 }
            })
            .collect();
        // the cache's data after this answer (primary reading; the checker
        // derives the acceptable outcomes from the client's own previous data)
        let mut d = if full { Data::default() } else { data.clone() };
        for p in &pdus {
            d.apply(p.announce, &p.item);
        }
        data = d;
        let (old_session, old_serial) = state.unwrap_or((session0, serial0));
        let session = match reply {
            Reply::Diff => old_session,
            Reply::Fallback => {
                if rng.bool() {
                    old_session
                } else {
                    rng.next_u32() as u16
                }
            }
            Reply::Reset => old_session,
        };
        let serial = if reply == Reply::Diff && pdus.is_empty() && rng.chance(2, 3) {
            old_serial // nothing new
        } else {
            match rng.below(12) {
                0..=6 => old_serial.wrapping_add(1),
                7 => old_serial.wrapping_add(rng.range(2, 1000) as u32),
                8 => old_serial.wrapping_add(0x7FFF_FFFF),
                9 => old_serial.wrapping_add(0x8000_0000 + rng.below(3) as u32),
                10 => *rng.pick(&[0u32, u32::MAX, 1]),
                _ => rng.next_u32(),
            }
        };
        let (timing, timing_class) = gen_eod_timing(&mut rng);
        let notify = if x > 0 && rng.chance(3, 5) {
            Some((session, if rng.bool() { serial } else { rng.next_u32() }))
        } else {
            None
        };
        let version_error = if x == 0 && client_version > v && rng.chance(1, 2) {
            Some((rng.bool(), *rng.pick(&[0usize, 7, 40])))
        } else {
            None
        };
        let reset_zero16 = match zero_style {
            ZeroStyle::Zero => 0,
            _ => dress_zero(zero_style, &mut rng).1,
        };
        exchanges.push(Exchange {
            notify,
            version_error,
            reply,
            reset_zero16,
            pdus,
            eod: (session, serial),
            timing,
            timing_class,
            timing_regular: timing_regular(timing),
        });
        state = Some((session, serial));
    }
    let chunks: Vec<usize> = match rng.below(6) {
        0 => vec![1],
        1 => vec![0, 1],
        2 => (0..rng.range(2, 6)).map(|_| rng.below(9) as usize).collect::<Vec<_>>(),
        3 => vec![7, 0, 13],
        _ => Vec::new(),
    };
    // a script of zeros only would never deliver anything
    let chunks = if !chunks.is_empty() && chunks.iter().all(|c| *c == 0) { vec![0, 3] } else { chunks };
    Script {
        seed,
        v,
        client_version,
        init_state,
        init_data,
        entry: if rng.chance(2, 3) { Entry::Step } else { Entry::UpdateApply },
        chunks,
        flag_style,
        zero_style,
        out_of_version,
        withdraw_in_reset,
        exchanges,
    }
}

//------------ octets ---------------------------------------------------------------

fn encode_payload(v: u8, p: &WirePdu) -> Vec<u8> {
    let mut b = match &p.item {
        Item::Origin((false, bits, len, ml, asn)) => {
            Pdu::V4 { v, flags: p.flags, plen: *len, mlen: *ml, addr: *bits as u32, asn: *asn, via_item: false, explicit_max: true }.encode()
        }
        Item::Origin((true, bits, len, ml, asn)) => {
            Pdu::V6 { v, flags: p.flags, plen: *len, mlen: *ml, addr: *bits, asn: *asn, via_item: false, explicit_max: true }.encode()
        }
        Item::Key((ski, asn, info)) => Pdu::RouterKey { v, flags: p.flags, ski: *ski, asn: *asn, info: info.clone(), via_item: false }.encode(),
        Item::Aspa(c, prov) => Pdu::Aspa { v, flags: p.flags, customer: *c, providers: prov.clone(), via_item: false }.encode(),
    };
    // the reserved fields ("zero" in the PDU diagrams)
    match &p.item {
        Item::Origin(_) => {
            b[2..4].copy_from_slice(&p.zero16.to_be_bytes());
            b[11] = p.zero8;
        }
        _ => b[3] = p.zero8,
    }
    b
}

#[derive(Clone, Debug, PartialEq, Eq)]
enum Query {
    Serial(u16, u32),
    Reset,
}

struct Laid {
    parts: Vec<Part>,
    /// per exchange: the queries a client holding the previous End of Data's state sends
    queries: Vec<Vec<Query>>,
}

fn lay_out(sc: &Script) -> Laid {
    let v = sc.v;
    let mut parts: Vec<Part> = Vec::new();
    let mut queries: Vec<Vec<Query>> = Vec::new();
    let mut q = 0usize;
    let mut state = sc.init_state;
    for ex in &sc.exchanges {
        let mut expect: Vec<Query> = Vec::new();
        if let Some((se, sn)) = ex.notify {
            parts.push(Part { after_queries: q, bytes: Pdu::SerialNotify { v, session: se, serial: sn }.encode() });
        }
        let first = match state {
            Some((se, sn)) => Query::Serial(se, sn),
            None => Query::Reset,
        };
        if let Some((embed, text_len)) = ex.version_error {
            let asked = match &first {
                Query::Serial(se, sn) => Pdu::SerialQuery { v: sc.client_version, session: *se, serial: *sn },
                Query::Reset => Pdu::ResetQuery { v: sc.client_version },
            };
            let text: Vec<u8> = b"this cache speaks an older version of the protocol".iter().copied().take(text_len).collect();
            q += 1;
            parts.push(Part { after_queries: q, bytes: Pdu::Error { v, code: 4, pdu: if embed { asked.encode() } else { Vec::new() }, text }.encode() });
            expect.push(first.clone());
        }
        expect.push(first);
        if ex.reply == Reply::Fallback {
            q += 1;
            let mut b = Pdu::CacheReset { v }.encode();
            b[2..4].copy_from_slice(&ex.reset_zero16.to_be_bytes());
            parts.push(Part { after_queries: q, bytes: b });
            expect.push(Query::Reset);
        }
        q += 1;
        let mut bytes = Pdu::CacheResponse { v, session: ex.eod.0 }.encode();
        for p in &ex.pdus {
            bytes.extend_from_slice(&encode_payload(v, p));
        }
        bytes.extend_from_slice(&Pdu::EndOfData { v, session: ex.eod.0, serial: ex.eod.1, refresh: ex.timing.0, retry: ex.timing.1, expire: ex.timing.2 }.encode());
        parts.push(Part { after_queries: q, bytes });
        queries.push(expect);
        state = Some(ex.eod);
    }
    Laid { parts, queries }
}

//------------ the model ------------------------------------------------------------

/// The data sets the documents allow after this answer, with the reading of
/// the open cases each belongs to: (data, out-of-version types applied,
/// withdrawals in an answer to a reset query applied).
fn outcomes(sc: &Script, ex: &Exchange, prev: &Data) -> Vec<(Data, bool, bool)> {
    let full = ex.reply != Reply::Diff;
    let has_oov = ex.pdus.iter().any(|p| !carried(sc.v, &p.item));
    let has_wd = full && ex.pdus.iter().any(|p| !p.announce);
    let mut out: Vec<(Data, bool, bool)> = Vec::new();
    for oov in [false, true] {
        if oov && !has_oov {
            continue;
        }
        for wd in [true, false] {
            if !wd && !has_wd {
                continue;
            }
            let mut d = if full { Data::default() } else { prev.clone() };
            for p in &ex.pdus {
                if !oov && !carried(sc.v, &p.item) {
                    continue;
                }
                if full && !p.announce && !wd {
                    continue;
                }
                d.apply(p.announce, &p.item);
            }
            out.push((d, oov, wd));
        }
    }
    out
}

fn item_id(item: &Item) -> String {
    match item {
        Item::Aspa(c, _) => format!("aspa {}", c),
        other => render_item(other),
    }
}

/// What happens to single items inside one answer.
#[derive(Default)]
struct Shapes {
    announce_then_withdraw: bool,
    withdraw_then_announce: bool,
    announced_twice: bool,
    withdrawn_twice: bool,
    withdraw_of_absent: bool,
    announce_of_held: bool,
    aspa_replaced_in_answer: bool,
    aspa_replaced_held: bool,
    aspa_withdrawn_with_providers: bool,
    types_interleaved: bool,
}

impl Shapes {
    fn of(ex: &Exchange, prev: &Data) -> Shapes {
        let full = ex.reply != Reply::Diff;
        let base = if full { Data::default() } else { prev.clone() };
        let mut s = Shapes::default();
        let mut hist: BTreeMap<String, (bool, Vec<bool>)> = BTreeMap::new();
        let mut last_aspa: BTreeMap<u32, Vec<u32>> = BTreeMap::new();
        let mut type_runs = 0;
        let mut last_type = 9u8;
        for p in &ex.pdus {
            let t = match &p.item {
                Item::Origin(k) => k.0 as u8,
                Item::Key(_) => 2,
                Item::Aspa(..) => 3,
            };
            if t != last_type {
                type_runs += 1;
                last_type = t;
            }
            let e = hist.entry(item_id(&p.item)).or_insert_with(|| (holds(&base, &p.item), Vec::new()));
            e.1.push(p.announce);
            if let Item::Aspa(c, prov) = &p.item {
                if p.announce {
                    if let Some(q) = last_aspa.get(c) {
                        if q != prov {
                            s.aspa_replaced_in_answer = true;
                        }
                    } else if let Some(q) = base.aspas.get(c) {
                        if q != prov && !e.1[..e.1.len() - 1].contains(&false) {
                            s.aspa_replaced_held = true;
                        }
                    }
                    last_aspa.insert(*c, prov.clone());
                } else {
                    last_aspa.remove(c);
                    if !prov.is_empty() {
                        s.aspa_withdrawn_with_providers = true;
                    }
                }
            }
        }
        s.types_interleaved = type_runs > 4;
        for (held, seq) in hist.values() {
            let mut cur = *held;
            for (i, a) in seq.iter().enumerate() {
                if *a && cur {
                    if i == 0 {
                        s.announce_of_held = true;
                    } else {
                        s.announced_twice = true;
                    }
                }
                if !*a && !cur {
                    if i == 0 {
                        s.withdraw_of_absent = true;
                    } else {
                        s.withdrawn_twice = true;
                    }
                }
                if i > 0 {
                    if seq[i - 1] && !*a {
                        s.announce_then_withdraw = true;
                    }
                    if !seq[i - 1] && *a {
                        s.withdraw_then_announce = true;
                    }
                }
                cur = *a;
            }
        }
        s
    }

    fn names(&self) -> Vec<&'static str> {
        let mut v = Vec::new();
        for (on, name) in [
            (self.announce_then_withdraw, "announce-then-withdraw"),
            (self.withdraw_then_announce, "withdraw-then-announce"),
            (self.announced_twice, "announced-twice"),
            (self.withdrawn_twice, "withdrawn-twice"),
            (self.withdraw_of_absent, "withdraw-of-absent"),
            (self.announce_of_held, "announce-of-held"),
            (self.aspa_replaced_in_answer, "aspa-replaced-inside-answer"),
            (self.aspa_replaced_held, "aspa-held-replaced-by-announcement"),
            (self.aspa_withdrawn_with_providers, "aspa-withdrawn-with-providers"),
            (self.types_interleaved, "types-interleaved"),
        ] {
            if on {
                v.push(name);
            }
        }
        v
    }
}

/// The first payload PDU of the answer that the target was handed
/// differently from how it was sent: (stable class, text for the reader).
/// `None` when the log cannot be aligned with the PDUs one by one or follows
/// them exactly. Information for the signature only, never a verdict.
fn first_deviation(sc: &Script, ex: &Exchange, applied: &[Applied]) -> Option<(String, String)> {
    let log: Vec<(bool, Item)> = applied
        .iter()
        .flat_map(|a| a.items.iter())
        .map(|(action, payload)| (matches!(action, Action::Announce), from_lib(payload)))
        .collect();
    if log.len() > ex.pdus.len() {
        return None;
    }
    // a shorter log: the entries follow the PDUs in order with some PDUs left out
    let skipping = log.len() < ex.pdus.len();
    let mut j = 0usize;
    for (i, p) in ex.pdus.iter().enumerate() {
        let entry = log.get(j);
        let matches_entry = match entry {
            Some((announce, item)) => {
                let same_item = match (&p.item, item) {
                    // the providers of a withdrawal do not matter
                    (Item::Aspa(a, _), Item::Aspa(b, _)) if !p.announce => a == b,
                    (a, b) => a == b,
                };
                *announce == p.announce && same_item
            }
            None => false,
        };
        if matches_entry {
            j += 1;
            continue;
        }
        let kind = match &p.item {
            Item::Origin(k) => if k.0 { "ipv6-prefix" } else { "ipv4-prefix" },
            Item::Key(_) => "router-key",
            Item::Aspa(..) => "aspa",
        };
        let sent = if p.announce { "announce" } else { "withdraw" };
        let nonzero = p.zero8 != 0 || (matches!(p.item, Item::Origin(_)) && p.zero16 != 0);
        let dress = match (p.flags > 1, nonzero) {
            (false, false) => "plain",
            (true, false) => "reserved-flag-bits",
            (false, true) => "nonzero-reserved-field",
            (true, true) => "reserved-flag-bits+nonzero-reserved-field",
        };
        let sent_text = format!(
            "payload PDU number {} of the answer ({} {}, flags octet {:#04x}, octets {})",
            i + 1, sent, short(render_item(&p.item)), p.flags, hex_capped(&encode_payload(sc.v, p), 48)
        );
        if skipping {
            return Some((
                format!("{}-{}-not-handed-on:{}", kind, sent, dress),
                format!("; {} was not handed to the target ({} PDUs in the answer, {} entries in the log)", sent_text, ex.pdus.len(), log.len()),
            ));
        }
        let (announce, item) = entry?;
        let handed = if *announce != p.announce {
            if *announce { "handed-on-as-announce" } else { "handed-on-as-withdraw" }
        } else {
            "handed-on-with-other-content"
        };
        return Some((
            format!("{}-{}-{}:{}", kind, sent, handed, dress),
            format!("; {} was handed to the target as {} {}", sent_text, if *announce { "announce" } else { "withdraw" }, short(render_item(item))),
        ));
    }
    None
}

//------------ rendering --------------------------------------------------------------

fn state_text(s: Option<(u16, u32)>) -> String {
    match s {
        Some((a, b)) => format!("{}:{}", a, b),
        None => "none".into(),
    }
}

fn exchange_json(sc: &Script, x: usize, ex: &Exchange) -> Value {
    json!({
        "exchange": x + 1,
        "started_by": match ex.notify { Some((a, b)) => format!("Serial Notify {}:{}", a, b), None => if x == 0 { "the client's first query".to_string() } else { "the refresh timer (virtual time)".to_string() } },
        "error_report_unsupported_version_first": ex.version_error.map(|(e, t)| format!("query embedded: {}, text of {} octets", e, t)),
        "cache_answers": match ex.reply { Reply::Diff => "Cache Response + difference", Reply::Reset => "Cache Response + full set", Reply::Fallback => "Cache Reset; after the reset query Cache Response + full set" },
        "reserved_bits_of_cache_reset": format!("{:#06x}", ex.reset_zero16),
        "payload_pdus": ex.pdus.iter().map(|p| json!({
            "action": if p.announce { "announce" } else { "withdraw" },
            "item": short(render_item(&p.item)),
            "flags_octet": format!("{:#04x}", p.flags),
            "reserved_fields": match &p.item { Item::Origin(_) => format!("header {:#06x}, body octet {:#04x}", p.zero16, p.zero8), _ => format!("header octet {:#04x}", p.zero8) },
            "octets": hex_capped(&encode_payload(sc.v, p), 72),
        })).collect::<Vec<_>>(),
        "end_of_data": {"session": ex.eod.0, "serial": ex.eod.1, "refresh": ex.timing.0, "retry": ex.timing.1, "expire": ex.timing.2, "timing_class": ex.timing_class},
    })
}

fn script_json(sc: &Script, upto: usize) -> Value {
    json!({
        "transcript_seed": sc.seed,
        "cache_version": sc.v,
        "client_initial_version": sc.client_version,
        "client_initial_state": state_text(sc.init_state),
        "client_initial_data": sc.init_data.render(),
        "client_entry_point": match sc.entry { Entry::Step => "step", Entry::UpdateApply => "update + apply" },
        "delivery_script": format!("{:?}", sc.chunks),
        "flags_style": sc.flag_style.name(),
        "reserved_fields_style": sc.zero_style.name(),
        "cache_sends_types_its_version_lacks": sc.out_of_version,
        "cache_withdraws_inside_answers_to_reset_queries": sc.withdraw_in_reset,
        "exchanges": sc.exchanges.iter().enumerate().take(upto + 1).map(|(x, ex)| exchange_json(sc, x, ex)).collect::<Vec<_>>(),
    })
}

fn log_text(applied: &[Applied]) -> Vec<String> {
    let mut out = Vec::new();
    for a in applied {
        out.push(format!("apply(reset={}, timing=({},{},{}))", a.reset, a.timing.refresh, a.timing.retry, a.timing.expire));
        for (action, payload) in a.items.iter().take(200) {
            out.push(format!("{} {}", if matches!(action, Action::Announce) { "announce" } else { "withdraw" }, short(render_item(&from_lib(payload)))));
        }
        if a.items.len() > 200 {
            out.push(format!("... {} more", a.items.len() - 200));
        }
    }
    out
}

//------------ running and judging ---------------------------------------------------

struct Stats {
    attempted: u64,
    completed: u64,
}

async fn one_call(client: &mut Client<CacheSock, Target>, entry: Entry) -> Result<(), io::Error> {
    match entry {
        Entry::Step => client.step().await,
        Entry::UpdateApply => {
            let update = client.update().await?;
            client.apply(update).await
        }
    }
}

fn run_script(ctx: &mut Ctx, sc: &Script) -> Stats {
    let rt = tokio::runtime::Builder::new_current_thread().enable_time().start_paused(true).build().expect("tokio runtime");
    let laid = lay_out(sc);
    let stats = rt.block_on(async {
        let wire = Arc::new(Mutex::new(Wire::default()));
        let sock = CacheSock { parts: laid.parts, part: 0, pos: 0, chunks: sc.chunks.clone(), chunk_idx: 0, wire: wire.clone() };
        let state = sc.init_state.map(|(se, sn)| State::from_parts(se, Serial::from(sn)));
        let mut client = Client::with_initial_version(sc.client_version, sock, Target::default(), state);
        let mut cdata = sc.init_data.clone();
        let mut stats = Stats { attempted: 0, completed: 0 };
        let mut sent_seen = 0usize;
        for (x, ex) in sc.exchanges.iter().enumerate() {
            stats.attempted += 1;
            let res = tokio::time::timeout(STEP_GUARD, one_call(&mut client, sc.entry)).await;
            let (sent, framing_lost): (Vec<(u8, u8, u16, Vec<u8>)>, bool) = {
                let w = wire.lock().unwrap_or_else(|e| e.into_inner());
                (w.sent[sent_seen.min(w.sent.len())..].to_vec(), w.framing_lost)
            };
            sent_seen += sent.len();
            let shapes = Shapes::of(ex, &cdata);
            let reserved_flag_pdus = ex.pdus.iter().filter(|p| p.flags > 1).count() as u64;
            let nonzero_pdus = ex.pdus.iter().filter(|p| p.zero8 != 0 || (matches!(p.item, Item::Origin(_)) && p.zero16 != 0)).count() as u64;
            let has_oov = ex.pdus.iter().any(|p| !carried(sc.v, &p.item));
            let has_wd_in_full = ex.reply != Reply::Diff && ex.pdus.iter().any(|p| !p.announce);
            let outcome_name = match &res {
                Ok(Ok(())) => "completed",
                Ok(Err(_)) => "refused",
                Err(_) => "stalled",
            };
            if reserved_flag_pdus > 0 {
                ctx.obs(&format!("foreign_exchanges_with_reserved_flag_bits_{}", outcome_name), 1);
            }
            if nonzero_pdus > 0 || (ex.reply == Reply::Fallback && ex.reset_zero16 != 0) {
                ctx.obs(&format!("foreign_exchanges_with_nonzero_reserved_fields_{}", outcome_name), 1);
            }
            for name in shapes.names() {
                ctx.obs(&format!("foreign_shape_{}:{}", outcome_name, name), 1);
            }
            if !ex.timing_regular && sc.v >= 1 {
                ctx.obs(&format!("foreign_exchanges_with_timing_outside_the_ranges_{}", outcome_name), 1);
            }
            match res {
                Ok(Ok(())) => {}
                Ok(Err(e)) => {
                    let text = format!("{:?}: {}", e.kind(), e);
                    ctx.obs("foreign_exchanges_refused", 1);
                    ctx.obs(&format!("foreign_refused:{}", abort_class(&text)), 1);
                    // with refresh = 0 the client's idle wait is over before a
                    // Serial Notify that is not readable at once has been read:
                    // the notification (or the rest of it) is then taken for the
                    // answer to the next query
                    let after_refresh_0 = x > 0 && sc.v >= 1 && sc.exchanges[x - 1].timing.0 == 0 && ex.notify.is_some();
                    ctx.obs(if after_refresh_0 { "foreign_refused_while_a_serial_notify_was_due_at_refresh_0" } else { "foreign_refused_for_another_reason" }, 1);
                    if has_oov {
                        ctx.obs("foreign_open_types_the_version_lacks:refused", 1);
                    }
                    if has_wd_in_full {
                        ctx.obs("foreign_open_withdrawal_in_answer_to_reset_query:refused", 1);
                    }
                    let sample_kind = if after_refresh_0 { "foreign-cache-exchange-refused" } else { "foreign-cache-exchange-refused-other" };
                    if ctx.wants_sample(sample_kind) {
                        let v = json!({"transcript": script_json(sc, x), "refused_exchange": x + 1, "error": text,
                            "pdus_sent_by_the_client_in_it": sent.iter().map(|s| format!("version {} type {} field {:#06x} +{} octets", s.0, s.1, s.2, s.3.len())).collect::<Vec<_>>()});
                        ctx.sample(sample_kind, || v);
                    }
                    break;
                }
                Err(_) => {
                    ctx.obs("foreign_exchanges_stalled", 1);
                    if ctx.wants_sample("foreign-cache-exchange-stalled") {
                        let v = json!({"transcript": script_json(sc, x), "stalled_exchange": x + 1});
                        ctx.sample("foreign-cache-exchange-stalled", || v);
                    }
                    break;
                }
            }
            // ---- the step returned Ok
            let applied: Vec<Applied> = std::mem::take(&mut client.target_mut().applied);
            let cstate = client.state().map(|s| (s.session(), u32::from(s.serial())));
            // did the client ask what the script answers?
            let asked: Vec<Query> = sent
                .iter()
                .filter_map(|(_, t, field, body)| match t {
                    1 if body.len() == 4 => Some(Query::Serial(*field, u32::from_be_bytes([body[0], body[1], body[2], body[3]]))),
                    2 => Some(Query::Reset),
                    _ => None,
                })
                .collect();
            if framing_lost || asked != laid.queries[x] {
                // the answers were written for other questions: nothing to judge
                ctx.obs("foreign_exchanges_where_the_client_asked_something_else", 1);
                ctx.notes.push(format!(
                    "C06 foreign cache: in exchange {} of transcript {} the client asked {:?} where the script answers {:?}; exchange not evaluated",
                    x + 1, sc.seed, asked, laid.queries[x]
                ));
                break;
            }
            ctx.eval();
            stats.completed += 1;
            let prev = cdata.clone();
            let mut got = prev.clone();
            let mut n_items = 0usize;
            for a in &applied {
                if a.reset {
                    got = Data::default();
                }
                for (action, payload) in &a.items {
                    n_items += 1;
                    got.apply(matches!(action, Action::Announce), &from_lib(payload));
                }
            }
            let acceptable = outcomes(sc, ex, &prev);
            let observed = |extra: Value| -> Value {
                json!({
                    "transcript": script_json(sc, x),
                    "failing_exchange": x + 1,
                    "previous_data": prev.render(),
                    "target_log": log_text(&applied),
                    "client_state_after": state_text(cstate),
                    "queries_of_the_client": asked.iter().map(|q| format!("{:?}", q)).collect::<Vec<_>>(),
                    "observed": extra,
                })
            };
            let resp = ex.reply.name();
            let matching: Vec<&(Data, bool, bool)> = acceptable.iter().filter(|o| o.0 == got).collect();
            if matching.is_empty() {
                let want = &acceptable[0].0;
                let class_list = got.diff_classes(want);
                let mut types: Vec<&str> = class_list.iter().map(|c| c.split('-').next().unwrap_or(c)).collect();
                types.dedup();
                let mut dress: Vec<&str> = Vec::new();
                if reserved_flag_pdus > 0 {
                    dress.push("reserved flag bits set");
                }
                if nonzero_pdus > 0 {
                    dress.push("non-zero reserved fields");
                }
                dress.extend(shapes.names());
                // signature: the first PDU the target was handed differently
                // from how it was sent (what kind, sent as what, handed on as
                // what, how it was dressed); where the log follows the PDUs one
                // by one or cannot be aligned with them, the payload types
                // affected (as for the library's own server)
                let (sig, where_text) = match first_deviation(sc, ex, &applied) {
                    Some((class, text)) => (format!("C06:foreign-cache:client-data-differs-from-transcript:{}", class), text),
                    None => (format!("C06:foreign-cache:client-data-differs-from-transcript:v{}:{}:{}", sc.v, resp, types.join("+")), String::new()),
                };
                ctx.violation(
                    &sig,
                    &format!(
                        "after a completed {} step (version {}) against a scripted cache the target's log applied to the previous data is not what the payload PDUs of the answer, applied in wire order by their lowest-order flags bit, yield ({}){}; the answer used: {}",
                        resp, sc.v, class_list.join("+"), where_text, if dress.is_empty() { "nothing special".to_string() } else { dress.join(", ") }
                    ),
                    observed(json!({
                        "replayed_client_data": got.render(),
                        "data_the_transcript_prescribes": acceptable.iter().map(|o| json!({
                            "types_the_version_lacks_applied": o.1, "withdrawals_in_full_answer_applied": o.2, "data": o.0.render()})).collect::<Vec<_>>(),
                    })),
                );
                break;
            }
            if has_oov {
                let applied_reading = matching.iter().any(|o| o.1);
                let ignored_reading = matching.iter().any(|o| !o.1);
                let name = match (applied_reading, ignored_reading) {
                    (true, true) => "no-difference",
                    (true, false) => "applied",
                    _ => "ignored",
                };
                ctx.obs(&format!("foreign_open_types_the_version_lacks:{}", name), 1);
            }
            if has_wd_in_full {
                let applied_reading = matching.iter().any(|o| o.2);
                let ignored_reading = matching.iter().any(|o| !o.2);
                let name = match (applied_reading, ignored_reading) {
                    (true, true) => "no-difference",
                    (true, false) => "applied",
                    _ => "ignored",
                };
                ctx.obs(&format!("foreign_open_withdrawal_in_answer_to_reset_query:{}", name), 1);
            }
            cdata = got;
            if cstate != Some(ex.eod) {
                ctx.violation(
                    &format!("C06:foreign-cache:client-state-differs-from-end-of-data:{}", resp),
                    &format!("Client::state() is {} after a completed step whose End of Data (scripted cache) named {}:{}", state_text(cstate), ex.eod.0, ex.eod.1),
                    observed(json!({"client_state": state_text(cstate), "end_of_data": state_text(Some(ex.eod))})),
                );
                break;
            }
            if sc.v >= 1 {
                if let Some(a) = applied.last() {
                    let t = (a.timing.refresh, a.timing.retry, a.timing.expire);
                    if ex.timing_regular {
                        if t != ex.timing {
                            ctx.violation(
                                &format!("C06:foreign-cache:timing-differs-from-end-of-data:v{}:{}", sc.v, resp),
                                &format!("version {}: the timing handed to the target {:?} is not the End of Data's {:?} (values within the ranges of RFC 8210 section 6, class {})", sc.v, t, ex.timing, ex.timing_class),
                                observed(json!({"timing_handed_to_target": format!("{:?}", t), "end_of_data_timing": format!("{:?}", ex.timing)})),
                            );
                            break;
                        }
                    } else {
                        ctx.obs(if t == ex.timing { "foreign_timing_outside_the_ranges:taken-over" } else { "foreign_timing_outside_the_ranges:not-taken-over" }, 1);
                    }
                }
            }
            // ---- accounting
            ctx.obs("foreign_exchanges_completed", 1);
            ctx.obs(&format!("foreign_completed_v{}_{}", sc.v, resp.replace('-', "_")), 1);
            ctx.obs(&format!("foreign_completed_with_flags_{}", sc.flag_style.name()), 1);
            ctx.obs(&format!("foreign_completed_with_reserved_fields_{}", sc.zero_style.name()), 1);
            ctx.obs("foreign_pdus_with_reserved_flag_bits_in_completed_exchanges", reserved_flag_pdus);
            ctx.obs("foreign_pdus_with_nonzero_reserved_fields_in_completed_exchanges", nonzero_pdus);
            if sc.v >= 1 {
                ctx.obs(&format!("foreign_timing_{}", ex.timing_class), 1);
            }
            if applied.iter().map(|a| a.items.len()).sum::<usize>() != ex.pdus.len() {
                ctx.obs("foreign_exchanges_where_the_log_is_not_one_entry_per_pdu", 1);
            }
            if sent.iter().any(|s| s.1 == 10) {
                ctx.obs("foreign_completed_exchanges_in_which_the_client_sent_an_error_report", 1);
            }
            let nego = if sc.client_version == sc.v {
                "same-version"
            } else if sc.exchanges[0].version_error.is_some() {
                "lower-by-error-report"
            } else {
                "lower-directly"
            };
            if x == 0 && sc.client_version != sc.v {
                ctx.obs(&format!("foreign_version_{}", nego.replace('-', "_")), 1);
            }
            let trivial = ex.reply == Reply::Diff && n_items == 0 && ex.pdus.is_empty();
            if !trivial {
                ctx.sig(&format!(
                    "F v{} {} flags={} reserved={} version={} entry={:?} delivery={}",
                    sc.v, resp, sc.flag_style.name(), sc.zero_style.name(), nego, sc.entry,
                    match sc.chunks.as_slice() { [] => "whole", [1] => "octetwise", _ => "chunks" }
                ));
                ctx.sig(&format!("G v{} {} shapes=[{}] open={}{}", sc.v, resp, shapes.names().join(","), if has_oov { "types" } else { "" }, if has_wd_in_full { "withdrawals" } else { "" }));
            }
            ctx.sig(&format!(
                "H v{} {} timing={} started-by={} first={}",
                sc.v, resp, if sc.v >= 1 { ex.timing_class } else { "-" },
                if x == 0 { "connect" } else if ex.notify.is_some() { "notify" } else { "refresh-timer" },
                x == 0
            ));
            let kind = if reserved_flag_pdus > 0 && nonzero_pdus > 0 {
                "foreign-cache-reserved-bits-and-fields"
            } else if reserved_flag_pdus > 0 {
                "foreign-cache-reserved-flag-bits"
            } else if shapes.announce_then_withdraw || shapes.withdraw_then_announce || shapes.aspa_replaced_in_answer {
                "foreign-cache-item-with-a-history-inside-one-answer"
            } else {
                "foreign-cache-plain"
            };
            if !trivial && x + 1 == sc.exchanges.len() && ctx.wants_sample(kind) {
                let v = json!({"transcript": script_json(sc, x), "every_exchange_completed": true, "last_target_log": log_text(&applied), "client_data_after": cdata.render(), "client_state_after": state_text(cstate)});
                ctx.sample(kind, || v);
            }
        }
        stats
    });
    drop(rt);
    stats
}

//------------ entry ----------------------------------------------------------------

pub fn run_foreign(ctx: &mut Ctx) {
    let light = ctx.stage == Stage::Miri;
    let n = ctx.stage_budget((64_000, 1_600_000), 48_000, 32, 0);
    let mut rng = ctx.rng("foreign-cache");
    let mut attempted = 0u64;
    let mut completed = 0u64;
    for i in 0..n {
        let seed = rng.next_u64();
        let sc = gen_script(seed, light);
        if i % 64 == 0 {
            ctx.breadcrumb(&format!("foreign-cache transcript {} seed {}", i, seed));
        }
        take_last_panic();
        match catch(|| run_script(ctx, &sc)) {
            Ok(s) => {
                attempted += s.attempted;
                completed += s.completed;
            }
            Err(text) => {
                ctx.violation(
                    &format!("C06:panic:foreign-cache:{}", panic_location(&text)),
                    &format!("panic while the client talked to a scripted cache: {}", text),
                    script_json(&sc, sc.exchanges.len()),
                );
            }
        }
    }
    ctx.obs("foreign_transcripts", n);
    ctx.obs("foreign_exchanges_attempted", attempted);
    if attempted > 0 && completed * 2 < attempted {
        ctx.notes.push(format!(
            "C06: only {} of {} exchanges with the scripted cache completed; the property is conditional on completion, so the foreign-cache family was observed too little",
            completed, attempted
        ));
    }
}
