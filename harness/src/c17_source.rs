//! C17 part 6 — the decoders of times, validity windows and serial numbers
//! driven through `bcder::decode::Source` implementations of the harness.
//!
//! All decoders of rpki-rs are generic over `Source`, a trait that users are
//! invited to implement. Its contract: data becomes visible through
//! `request(len)`; `slice()` need only be as long as what the last `request`
//! returned (it may be longer); `advance` / `bytes` must stay within that.
//! The sources that come with bcder show everything from the start, so a
//! decoder that looks at `slice()` without asking first, asks for less than
//! it reads, or relies on seeing exactly what it asked for, behaves well on
//! all of them and on nothing else.
//!
//! Environment model (`Feed`): the same octets delivered
//!  * all at once (what a slice does),
//!  * in blocks of k octets counted from the current position
//!    (`request(n)` makes ceil(n / k) * k octets visible), k = 1, 2, 7, 13, 16,
//!  * in blocks of k octets counted from the start of the input (a reader
//!    that fills a buffer block by block),
//!  * generously: `request(n)` shows n + m octets,
//!  * and, for valid inputs, by a source that fails (`Err`) at a chosen offset.
//! `advance` and `bytes` beyond what `request` has returned panic, as the trait
//! documents (a panic is reported like any other panic).
//!
//! Oracle: the inputs are written by the harness (`der.rs`, the calendar and
//! strict parser of `c17.rs`), so the expected instants / serial octets are
//! known without asking the library. A valid canonical input must be
//! accepted with exactly these values through every source, an input with a
//! time the strict parser refuses must be refused through every source, and
//! wherever the statement leaves the verdict open (year 0000, valid but not
//! canonical form, BER length forms, non-minimal integers) every source must
//! give what the slice gives: how the octets arrive is not part of the value.

use super::{ascii, canonical_tag, char_class, days_in_month, field_of, instant_of, oracle_parse, serial_class, serial_values, serial_values_small, time_text, Parsed, ALPHABET, T_GEN, T_UTC};
use crate::core::{hex, Ctx, Rng, Stage};
use crate::der;
use bcder::decode::{Constructed, DecodeError, Pos, Source};
use bcder::Mode;
use bytes::Bytes;
use rpki::repository::crl::{Crl, CrlEntry, RevokedCertificates, TbsCertList};
use rpki::repository::manifest::ManifestContent;
use rpki::repository::x509::{Serial, Time, Validity};
use serde_json::json;
use std::cell::Cell;
use std::collections::BTreeMap;

//============ The source =======================================================

#[derive(Clone, Copy, Debug, PartialEq, Eq)]
pub enum Policy {
    /// everything is visible from the start
    Everything,
    /// `request(n)` makes ceil(n / k) * k octets from the current position visible
    Blocks(usize),
    /// data arrives in blocks of k octets counted from the start of the input
    AlignedBlocks(usize),
    /// `request(n)` makes n + m octets visible
    Generous(usize),
}

impl Policy {
    fn class(self) -> &'static str {
        match self {
            Policy::Everything => "feed-everything-at-once",
            Policy::Blocks(_) => "feed-block-by-block",
            Policy::AlignedBlocks(_) => "feed-aligned-blocks",
            Policy::Generous(_) => "feed-more-than-requested",
        }
    }

    fn text(self) -> String {
        match self {
            Policy::Everything => "everything visible from the start".into(),
            Policy::Blocks(k) => format!("request(n) shows ceil(n/{k})*{k} octets from the current position"),
            Policy::AlignedBlocks(k) => format!("blocks of {k} octets counted from the start of the input"),
            Policy::Generous(m) => format!("request(n) shows n+{m} octets"),
        }
    }
}

#[derive(Debug)]
pub struct Broken;

impl std::fmt::Display for Broken {
    fn fmt(&self, f: &mut std::fmt::Formatter) -> std::fmt::Result {
        f.write_str("the source failed to get more data")
    }
}

impl std::error::Error for Broken {}

pub struct Feed {
    data: Bytes,
    /// start of the view
    pos: usize,
    /// end of what is visible (absolute, >= pos)
    vis: usize,
    policy: Policy,
    /// a request that needs an octet at or beyond this offset fails
    fail_at: Option<usize>,
    pub failed: bool,
    pub requests: u64,
    /// `slice()` calls answered while part of the input was still hidden
    pub peeks_with_hidden_octets: Cell<u64>,
}

impl Feed {
    pub fn new(data: Bytes, policy: Policy) -> Self {
        let vis = if policy == Policy::Everything { data.len() } else { 0 };
        Feed { data, pos: 0, vis, policy, fail_at: None, failed: false, requests: 0, peeks_with_hidden_octets: Cell::new(0) }
    }

    pub fn failing(data: Bytes, policy: Policy, fail_at: usize) -> Self {
        Feed { fail_at: Some(fail_at), ..Feed::new(data, policy) }
    }
}

impl Source for Feed {
    type Error = Broken;

    fn pos(&self) -> Pos {
        self.pos.into()
    }

    fn request(&mut self, len: usize) -> Result<usize, Broken> {
        self.requests += 1;
        let total = self.data.len();
        let needed_end = self.pos.saturating_add(len).min(total);
        let mut end = match self.policy {
            Policy::Everything => total,
            Policy::Blocks(k) => self.pos.saturating_add(len.div_ceil(k).saturating_mul(k)),
            Policy::AlignedBlocks(k) => self.pos.saturating_add(len).div_ceil(k).saturating_mul(k),
            Policy::Generous(m) => self.pos.saturating_add(len).saturating_add(m),
        }
        .min(total)
        .max(needed_end);
        if let Some(f) = self.fail_at {
            if needed_end > f {
                self.failed = true;
                return Err(Broken);
            }
            end = end.min(f.max(needed_end));
        }
        self.vis = self.vis.max(end);
        Ok(self.vis - self.pos)
    }

    fn slice(&self) -> &[u8] {
        if self.vis < self.data.len() {
            self.peeks_with_hidden_octets.set(self.peeks_with_hidden_octets.get() + 1);
        }
        &self.data[self.pos..self.vis]
    }

    fn bytes(&self, start: usize, end: usize) -> Bytes {
        assert!(start <= end && end <= self.vis - self.pos, "Source::bytes beyond what request() has returned");
        self.data.slice(self.pos + start..self.pos + end)
    }

    fn advance(&mut self, len: usize) {
        assert!(len <= self.vis - self.pos, "Source::advance beyond what request() has returned");
        self.pos += len;
    }
}

/// The sources one input goes through. Index 0 is the reference.
#[derive(Clone, Copy, Debug, PartialEq, Eq)]
enum Via {
    Slice,
    BytesValue,
    Feed(Policy),
}

impl Via {
    fn class(self) -> &'static str {
        match self {
            Via::Slice => "slice",
            Via::BytesValue => "bytes",
            Via::Feed(p) => p.class(),
        }
    }

    fn text(self) -> String {
        match self {
            Via::Slice => "&[u8] (bcder SliceSource)".into(),
            Via::BytesValue => "Bytes (bcder BytesSource)".into(),
            Via::Feed(p) => format!("harness source: {}", p.text()),
        }
    }
}

const BLOCKS: [usize; 5] = [1, 2, 7, 13, 16];

fn vias(ctx: &Ctx) -> Vec<Via> {
    let mut v = vec![Via::Slice];
    if ctx.is_miri() {
        v.extend([Via::Feed(Policy::Blocks(1)), Via::Feed(Policy::Generous(5))]);
        return v;
    }
    v.push(Via::BytesValue);
    v.push(Via::Feed(Policy::Everything));
    for k in BLOCKS {
        v.push(Via::Feed(Policy::Blocks(k)));
    }
    for k in &BLOCKS[1..] {
        v.push(Via::Feed(Policy::AlignedBlocks(*k)));
    }
    v.push(Via::Feed(Policy::Generous(1)));
    v.push(Via::Feed(Policy::Generous(5)));
    v
}

//============ What a decoder returned, in comparable form ======================

#[derive(Clone, Debug, Default, PartialEq, Eq)]
pub struct Seen {
    /// an optional decoder returned `None`
    absent: bool,
    times: Vec<(i64, u32)>,
    serials: Vec<[u8; 20]>,
    /// list lengths reported by the object
    count: Option<usize>,
}

impl Seen {
    fn time(mut self, t: Time) -> Self {
        self.times.push((t.timestamp(), t.timestamp_subsec_nanos()));
        self
    }

    fn serial(mut self, s: Serial) -> Self {
        self.serials.push(s.into_array());
        self
    }

    fn entries(mut self, list: &RevokedCertificates) -> Self {
        let mut n = 0;
        for e in list.iter() {
            self = self.serial(e.user_certificate).time(e.revocation_date);
            n += 1;
        }
        self.count = Some(n);
        self
    }

    fn show(&self) -> serde_json::Value {
        json!({"absent": self.absent, "instants": self.times, "serials": self.serials.iter().map(|s| hex(s)).collect::<Vec<_>>(), "count": self.count})
    }
}

#[derive(Clone, Debug, PartialEq, Eq)]
enum Out {
    Value(Seen),
    Rejected,
    SourceError,
    Panicked(String),
}

impl Out {
    fn word(&self) -> &'static str {
        match self {
            Out::Value(_) => "accepted",
            Out::Rejected => "rejected",
            Out::SourceError => "source-error",
            Out::Panicked(_) => "panicked",
        }
    }

    fn show(&self) -> serde_json::Value {
        match self {
            Out::Value(s) => json!({"accepted": s.show()}),
            Out::Rejected => json!("rejected"),
            Out::SourceError => json!("error of the source handed on"),
            Out::Panicked(t) => json!({"panicked": t}),
        }
    }
}

//============ The decoder entry points =========================================

trait Door {
    const NAME: &'static str;
    /// reaches aws-lc or is too slow for an interpreter
    const NATIVE_ONLY: bool = false;
    fn run<S: Source>(cons: &mut Constructed<S>) -> Result<Seen, DecodeError<S::Error>>;
}

struct TimeTake;
impl Door for TimeTake {
    const NAME: &'static str = "Time::take_from";
    fn run<S: Source>(cons: &mut Constructed<S>) -> Result<Seen, DecodeError<S::Error>> {
        Time::take_from(cons).map(|t| Seen::default().time(t))
    }
}

struct TimeTakeOpt;
impl Door for TimeTakeOpt {
    const NAME: &'static str = "Time::take_opt_from";
    fn run<S: Source>(cons: &mut Constructed<S>) -> Result<Seen, DecodeError<S::Error>> {
        Time::take_opt_from(cons).map(|t| match t {
            Some(t) => Seen::default().time(t),
            None => Seen { absent: true, ..Seen::default() },
        })
    }
}

struct ValidityTake;
impl Door for ValidityTake {
    const NAME: &'static str = "Validity::take_from";
    fn run<S: Source>(cons: &mut Constructed<S>) -> Result<Seen, DecodeError<S::Error>> {
        Validity::take_from(cons).map(|v| Seen::default().time(v.not_before()).time(v.not_after()))
    }
}

struct SerialTake;
impl Door for SerialTake {
    const NAME: &'static str = "Serial::take_from";
    fn run<S: Source>(cons: &mut Constructed<S>) -> Result<Seen, DecodeError<S::Error>> {
        Serial::take_from(cons).map(|s| Seen::default().serial(s))
    }
}

struct EntryTake;
impl Door for EntryTake {
    const NAME: &'static str = "CrlEntry::take_from";
    fn run<S: Source>(cons: &mut Constructed<S>) -> Result<Seen, DecodeError<S::Error>> {
        CrlEntry::take_from(cons).map(|e| Seen::default().serial(e.user_certificate).time(e.revocation_date))
    }
}

struct EntryTakeOpt;
impl Door for EntryTakeOpt {
    const NAME: &'static str = "CrlEntry::take_opt_from";
    fn run<S: Source>(cons: &mut Constructed<S>) -> Result<Seen, DecodeError<S::Error>> {
        CrlEntry::take_opt_from(cons).map(|e| match e {
            Some(e) => Seen::default().serial(e.user_certificate).time(e.revocation_date),
            None => Seen { absent: true, ..Seen::default() },
        })
    }
}

struct RevokedTake;
impl Door for RevokedTake {
    const NAME: &'static str = "RevokedCertificates::take_from";
    fn run<S: Source>(cons: &mut Constructed<S>) -> Result<Seen, DecodeError<S::Error>> {
        RevokedCertificates::take_from(cons).map(|l| Seen::default().entries(&l))
    }
}

struct TbsCrlTake;
impl Door for TbsCrlTake {
    const NAME: &'static str = "TbsCertList::take_from";
    fn run<S: Source>(cons: &mut Constructed<S>) -> Result<Seen, DecodeError<S::Error>> {
        TbsCertList::take_from(cons).map(|t| Seen::default().time(t.this_update()).time(t.next_update()).serial(t.crl_number()).entries(t.revoked_certs()))
    }
}

struct CrlTake;
impl Door for CrlTake {
    const NAME: &'static str = "Crl::take_from";
    const NATIVE_ONLY: bool = true;
    fn run<S: Source>(cons: &mut Constructed<S>) -> Result<Seen, DecodeError<S::Error>> {
        Crl::take_from(cons).map(|t| Seen::default().time(t.this_update()).time(t.next_update()).serial(t.crl_number()).entries(t.revoked_certs()))
    }
}

struct ManifestTake;
impl Door for ManifestTake {
    const NAME: &'static str = "ManifestContent::take_from";
    fn run<S: Source>(cons: &mut Constructed<S>) -> Result<Seen, DecodeError<S::Error>> {
        ManifestContent::take_from(cons).map(|m| {
            let mut s = Seen::default().serial(m.manifest_number()).time(m.this_update()).time(m.next_update());
            s.count = Some(m.len());
            s
        })
    }
}

fn decode_feed<D: Door>(mode: Mode, feed: &mut Feed) -> Out {
    let res = crate::core::catch(|| mode.decode(&mut *feed, |cons| D::run(cons)));
    match res {
        Ok(Ok(seen)) => Out::Value(seen),
        Ok(Err(_)) if feed.failed => Out::SourceError,
        Ok(Err(_)) => Out::Rejected,
        Err(text) => Out::Panicked(text),
    }
}

fn decode_via<D: Door>(mode: Mode, via: Via, input: &Bytes, st: &mut Stats) -> Out {
    match via {
        Via::Slice => match crate::core::catch(|| mode.decode(input.as_ref(), |cons| D::run(cons))) {
            Ok(Ok(seen)) => Out::Value(seen),
            Ok(Err(_)) => Out::Rejected,
            Err(text) => Out::Panicked(text),
        },
        Via::BytesValue => match crate::core::catch(|| mode.decode(input.clone(), |cons| D::run(cons))) {
            Ok(Ok(seen)) => Out::Value(seen),
            Ok(Err(_)) => Out::Rejected,
            Err(text) => Out::Panicked(text),
        },
        Via::Feed(policy) => {
            let mut feed = Feed::new(input.clone(), policy);
            let out = decode_feed::<D>(mode, &mut feed);
            st.requests += feed.requests;
            if feed.peeks_with_hidden_octets.get() > 0 {
                st.decodes_with_hidden_octets += 1;
            }
            out
        }
    }
}

//============ Judging ==========================================================

/// What the harness knows about an input.
#[derive(Clone, Debug)]
enum Expect {
    /// valid and canonical: must be accepted with these values
    Value(Seen),
    /// contains a time the strict parser refuses (or no value at all where one is required)
    Reject,
    /// the statement leaves it open: every source must agree with the slice
    Open,
}

#[derive(Default)]
struct Stats {
    evals: u64,
    inputs: u64,
    requests: u64,
    decodes_with_hidden_octets: u64,
    /// (door, verdict) -> count
    verdicts: BTreeMap<(&'static str, &'static str), u64>,
    by_via: BTreeMap<&'static str, u64>,
    open_accepted: u64,
    open_rejected: u64,
    failing_runs: u64,
    failing_errors: u64,
    failing_complete: u64,
}

fn mode_name(mode: Mode) -> &'static str {
    match mode {
        Mode::Der => "der",
        Mode::Ber => "ber",
        Mode::Cer => "cer",
    }
}

struct Case<'a> {
    /// what kind of object the input is, for the signature
    object: &'static str,
    /// class of the input (mutation class, shape) for the evidence
    class: &'a str,
    input: &'a Bytes,
    expect: &'a Expect,
    /// literal description of the input
    lit: &'a dyn Fn() -> serde_json::Value,
}

/// One input through one entry point, both modes, every source.
fn through<D: Door>(ctx: &mut Ctx, st: &mut Stats, vias: &[Via], modes: &[Mode], case: &Case) {
    if D::NATIVE_ONLY && ctx.no_ffi() {
        return;
    }
    for &mode in modes {
        let outs: Vec<Out> = vias.iter().map(|&v| decode_via::<D>(mode, v, case.input, st)).collect();
        st.evals += outs.len() as u64;
        for v in vias {
            *st.by_via.entry(v.class()).or_insert(0) += 1;
        }
        let reference = &outs[0];
        *st.verdicts.entry((D::NAME, reference.word())).or_insert(0) += 1;
        // what is wrong, with which source first
        let mut wrong: Option<(usize, &'static str)> = None;
        for (i, out) in outs.iter().enumerate() {
            let what = match (out, case.expect) {
                (Out::Panicked(_), _) => Some("panic"),
                (Out::SourceError, _) => Some("source-error-from-a-source-that-never-fails"),
                (Out::Value(got), Expect::Value(want)) => (got != want).then_some("wrong-value"),
                (Out::Rejected, Expect::Value(_)) => Some("rejected-valid"),
                (Out::Value(_), Expect::Reject) => Some("accepted-invalid"),
                (Out::Rejected, Expect::Reject) => None,
                (_, Expect::Open) => (out != reference).then_some(match (out, reference) {
                    (Out::Value(_), Out::Value(_)) => "other-value-than-from-the-slice",
                    (Out::Value(_), _) => "accepted-what-the-slice-source-rejects",
                    _ => "rejected-what-the-slice-source-accepts",
                }),
            };
            if let Some(w) = what {
                wrong = Some((i, w));
                break;
            }
        }
        if matches!(case.expect, Expect::Open) {
            if matches!(reference, Out::Value(_)) {
                st.open_accepted += 1;
            } else {
                st.open_rejected += 1;
            }
        }
        let expect_word = match case.expect {
            Expect::Value(_) => "valid",
            Expect::Reject => "invalid",
            Expect::Open => "open",
        };
        ctx.sig(&format!("source {} {} {} {} {} -> {}{}", D::NAME, mode_name(mode), case.object, case.class, expect_word, reference.word(), if wrong.is_some() { " (sources differ)" } else { "" }));
        if let Some((i, what)) = wrong {
            let deviating: Vec<serde_json::Value> = vias
                .iter()
                .zip(outs.iter())
                .filter(|(_, o)| match case.expect {
                    Expect::Value(want) => !matches!(o, Out::Value(got) if got == want),
                    Expect::Reject => !matches!(o, Out::Rejected),
                    Expect::Open => *o != reference,
                })
                .map(|(v, o)| json!({"source": v.text(), "result": o.show()}))
                .collect();
            let sig = if let Out::Panicked(text) = &outs[i] {
                format!("C17:panic:source:{}:{}:{}", D::NAME, vias[i].class(), crate::core::panic_location(text))
            } else {
                format!("C17:source:{}:{}:{}", D::NAME, what, vias[i].class())
            };
            let desc = format!(
                "{} ({}) of a {} ({}) through {}: {}; the slice source gives: {}",
                D::NAME,
                mode_name(mode),
                case.object,
                case.class,
                vias[i].text(),
                what,
                reference.word()
            );
            ctx.violation(
                &sig,
                &desc,
                json!({
                    "entry_point": D::NAME,
                    "mode": mode_name(mode),
                    "input": (case.lit)(),
                    "der": hex(case.input),
                    "expected": match case.expect {
                        Expect::Value(v) => json!({"accepted": v.show()}),
                        Expect::Reject => json!("rejected (a time that is not a strict RFC 5280 form, or a missing value)"),
                        Expect::Open => json!("whatever the slice source gives"),
                    },
                    "from_the_slice": reference.show(),
                    "deviating_sources": deviating,
                }),
            );
        }
    }
}

/// A valid input through a source that fails at every offset: a value must not
/// come out unless every octet has been delivered.
fn through_failing<D: Door>(ctx: &mut Ctx, st: &mut Stats, case: &Case, policies: &[Policy], dense: bool) {
    if D::NATIVE_ONLY && ctx.no_ffi() {
        return;
    }
    let Expect::Value(want) = case.expect else { return };
    let n = case.input.len();
    let offsets: Vec<usize> = if dense { (0..=n).collect() } else { vec![0, 1, n / 2, n.saturating_sub(1), n] };
    for &policy in policies {
        for &f in &offsets {
            let mut feed = Feed::failing(case.input.clone(), policy, f);
            let out = decode_feed::<D>(Mode::Der, &mut feed);
            st.evals += 1;
            st.failing_runs += 1;
            let bad = match &out {
                Out::Panicked(_) => Some("panic"),
                Out::Value(_) if f < n => Some("value-although-the-source-failed-before-the-end"),
                Out::Value(got) if got != want => Some("wrong-value"),
                Out::Value(_) => {
                    st.failing_complete += 1;
                    None
                }
                Out::SourceError => {
                    st.failing_errors += 1;
                    None
                }
                // a content error is fine as long as no value comes out
                Out::Rejected if f < n => {
                    st.failing_errors += 1;
                    None
                }
                Out::Rejected => Some("rejected-valid"),
            };
            ctx.sig(&format!("failing-source {} {} {} fails-{} -> {}", D::NAME, case.object, policy.class(), if f >= n { "never" } else if f == 0 { "at-once" } else { "inside" }, out.word()));
            if let Some(what) = bad {
                let sig = if let Out::Panicked(text) = &out {
                    format!("C17:panic:source:{}:failing-source:{}", D::NAME, crate::core::panic_location(text))
                } else {
                    format!("C17:source:{}:{}:failing-source", D::NAME, what)
                };
                ctx.violation(
                    &sig,
                    &format!("{} of a {} from a source ({}) that fails once offset {} of {} is needed: {}", D::NAME, case.object, policy.text(), f, n, what),
                    json!({"entry_point": D::NAME, "input": (case.lit)(), "der": hex(case.input), "source": policy.text(), "fails_at_offset": f, "input_length": n, "result": out.show()}),
                );
            }
        }
    }
}

//============ Inputs ===========================================================

type Civil = (i64, u32, u32, u32, u32, u32);

fn random_civil(rng: &mut Rng) -> Civil {
    let y = match rng.below(6) {
        0 | 1 => 1950 + rng.below(100) as i64,
        2 => *rng.pick(&[1i64, 9, 99, 999, 1000, 1949, 1950, 2049, 2050, 9999]),
        _ => 1 + rng.below(9999) as i64,
    };
    let m = 1 + rng.below(12) as u32;
    let d = match rng.below(4) {
        0 => days_in_month(y, m),
        1 => 1,
        _ => 1 + rng.below(days_in_month(y, m) as u64) as u32,
    };
    match rng.below(5) {
        0 => (y, m, d, 23, 59, 59),
        1 => (y, m, d, 0, 0, 0),
        _ => (y, m, d, rng.below(24) as u32, rng.below(60) as u32, rng.below(60) as u32),
    }
}

const FIXED_CIVILS: &[Civil] = &[
    (1, 1, 1, 0, 0, 0),
    (999, 12, 31, 23, 59, 59),
    (1949, 12, 31, 23, 59, 59),
    (1950, 1, 1, 0, 0, 0),
    (1999, 12, 31, 23, 59, 59),
    (2000, 2, 29, 12, 30, 45),
    (2024, 2, 29, 12, 0, 0),
    (2049, 12, 31, 23, 59, 59),
    (2050, 1, 1, 0, 0, 0),
    (2100, 2, 28, 1, 2, 3),
    (9999, 12, 31, 23, 59, 59),
    (1970, 1, 1, 0, 0, 0),
];

/// The canonical time of a civil second: (tag, text, instant).
fn canon(c: Civil) -> (u8, Vec<u8>, i64) {
    let tag = canonical_tag(c.0);
    (tag, time_text(tag == T_GEN, c.0, c.1, c.2, c.3, c.4, c.5).into_bytes(), instant_of(c.0, c.1, c.2, c.3, c.4, c.5))
}

fn civil_text(c: Civil) -> String {
    format!("{:04}-{:02}-{:02}T{:02}:{:02}:{:02}Z", c.0, c.1, c.2, c.3, c.4, c.5)
}

/// A time element as it may stand inside a larger structure: the octets and
/// what the harness knows about it.
#[derive(Clone, Debug)]
struct TimeEl {
    tlv: Vec<u8>,
    /// Some(instant) = must decode to it; None with `reject` = must be refused; else open
    instant: Option<i64>,
    reject: bool,
    class: String,
    text: String,
}

fn time_el(tag: u8, content: &[u8], class: &str) -> TimeEl {
    let tlv = der::tlv(tag, content);
    let text = format!("tag 0x{:02x} '{}'", tag, ascii(content));
    match oracle_parse(tag, content) {
        Parsed::Accept { instant, year } if canonical_tag(year) == tag => TimeEl { tlv, instant: Some(instant), reject: false, class: class.into(), text },
        Parsed::Accept { .. } => TimeEl { tlv, instant: None, reject: false, class: format!("{class} valid-not-canonical"), text },
        Parsed::Unspecified => TimeEl { tlv, instant: None, reject: false, class: format!("{class} year-0000"), text },
        Parsed::Reject(_) => TimeEl { tlv, instant: None, reject: true, class: class.into(), text },
    }
}

fn civil_el(c: Civil) -> TimeEl {
    let (tag, text, _) = canon(c);
    time_el(tag, &text, if tag == T_UTC { "valid-utctime" } else { "valid-generalizedtime" })
}

/// Near-valid variants of a valid time string (a thinned version of part 2's neighbourhood).
/// `light`: one substitution per position and the shapes only (interpreter stages).
fn near_valid(tag: u8, base: &[u8], all_bytes: bool, light: bool) -> Vec<(Vec<u8>, String, u8)> {
    let n = base.len();
    let mut out: Vec<(Vec<u8>, String, u8)> = Vec::new();
    let keep = |out: &mut Vec<(Vec<u8>, String, u8)>, v: Vec<u8>, class: String, t: u8| out.push((v, class, t));
    for p in 0..if light { 0 } else { n } {
        for &ch in ALPHABET {
            if ch == base[p] {
                continue;
            }
            let mut v = base.to_vec();
            v[p] = ch;
            keep(&mut out, v, format!("sub1 {}:{}", field_of(tag, p), char_class(ch)), tag);
        }
        if all_bytes {
            for ch in 0..=255u8 {
                if ch == base[p] || ALPHABET.contains(&ch) {
                    continue;
                }
                let mut v = base.to_vec();
                v[p] = ch;
                keep(&mut out, v, format!("sub1 {}:{}", field_of(tag, p), char_class(ch)), tag);
            }
        }
    }
    if light {
        for p in 0..n {
            let mut v = base.to_vec();
            v[p] = ALPHABET[(p * 5 + 10) % ALPHABET.len()];
            if v[p] != base[p] {
                keep(&mut out, v, format!("sub1 {}:{}", field_of(tag, p), char_class(ALPHABET[(p * 5 + 10) % ALPHABET.len()])), tag);
            }
        }
    }
    for cut in 0..if light { 0 } else { n } {
        keep(&mut out, base[..cut].to_vec(), "truncated".into(), tag);
        let mut v = base[..cut].to_vec();
        v.push(b'Z');
        if v.len() != n {
            keep(&mut out, v, "truncated+Z".into(), tag);
        }
    }
    for p in 0..if light { 0 } else { n } {
        let mut v = base.to_vec();
        v.remove(p);
        keep(&mut out, v, "deleted-one".into(), tag);
        for &ch in ALPHABET {
            let mut v = base.to_vec();
            v.insert(p, ch);
            keep(&mut out, v, format!("inserted-one {}", char_class(ch)), tag);
        }
    }
    for &ch in if light { &ALPHABET[..1] } else { ALPHABET } {
        let mut v = base.to_vec();
        v.push(ch);
        keep(&mut out, v, format!("appended-after-Z {}", char_class(ch)), tag);
    }
    let body = &base[..n - 1];
    let shapes: Vec<(Vec<u8>, &str)> = vec![
        ([&body[..n - 3], b"Z"].concat(), "seconds-omitted"),
        ([body, b".0Z"].concat(), "fraction"),
        ([body, b".000Z"].concat(), "fraction"),
        ([body, b"+0000"].concat(), "offset"),
        ([body, b"-0100"].concat(), "offset"),
        ([&body[..n - 3], b"+0000"].concat(), "offset"),
        (body.to_vec(), "no-terminator"),
        ([body, b"z"].concat(), "lowercase-z"),
        ([b" ", body].concat(), "leading-space"),
        ([b"+", &body[1..], b"Z"].concat(), "plus-for-first-digit"),
        ([body, b"ZZ"].concat(), "two-terminators"),
        (vec![b'Z'; n], "all-Z"),
        (vec![b'0'; n], "all-zero-digits"),
    ];
    for (v, class) in shapes {
        // never thinned: these are the forms a width / terminator pre-check is written for
        out.push((v, class.into(), tag));
    }
    let other = if tag == T_UTC { T_GEN } else { T_UTC };
    out.push((base.to_vec(), "content-under-other-time-tag".into(), other));
    for t in [der::T_IA5, der::T_PRINTABLE, der::T_OCTETSTRING, der::T_INTEGER, 0x37, 0x38, 0x97] {
        out.push((base.to_vec(), "non-time-tag".into(), t));
    }
    out
}

fn serial_octets(rng: &mut Rng) -> [u8; 20] {
    let mut v = [0u8; 20];
    let len = 1 + rng.usize_below(20);
    let r = rng.bytes(len);
    v[20 - len..].copy_from_slice(&r);
    v[0] &= 0x7f;
    match rng.below(8) {
        0 => v[20 - len] = 0x80,
        1 => v[20 - len] = 0x7f,
        2 => v[20 - len] = 0xff & if len == 20 { 0x7f } else { 0xff },
        _ => {}
    }
    // 20 significant octets with the top bit set are not a serial number
    v[0] &= 0x7f;
    v
}

/// Integer elements: minimal encodings (must decode to the value) and the
/// forms the statement does not speak about (open).
#[derive(Clone, Debug)]
struct SerialEl {
    tlv: Vec<u8>,
    value: Option<[u8; 20]>,
    class: String,
}

fn serial_el(v: &[u8; 20]) -> SerialEl {
    SerialEl { tlv: der::uint_be(v), value: Some(*v), class: format!("minimal {}", serial_class(v)) }
}

fn odd_serials(v: &[u8; 20]) -> Vec<SerialEl> {
    let min = der::uint_be(v);
    let content = &min[2..];
    let mut out = Vec::new();
    let mut push = |c: Vec<u8>, class: &str| out.push(SerialEl { tlv: der::tlv(der::T_INTEGER, &c), value: None, class: class.into() });
    push([&[0u8][..], content].concat(), "redundant-leading-zero");
    push([&[0u8, 0][..], content].concat(), "two-leading-zeros");
    if content[0] & 0x80 == 0 {
        let mut c = content.to_vec();
        c[0] |= 0x80;
        push(c, "negative");
    }
    push([&[0xffu8][..], content].concat(), "leading-ff");
    push(Vec::new(), "empty-content");
    push(vec![0x01; 21], "21-octets");
    push([&[0u8][..], &[0x80u8; 21][..]].concat(), "22-octets");
    out.push(SerialEl { tlv: [&[der::T_INTEGER, 0x81, content.len() as u8][..], content].concat(), value: None, class: "long-form-length".into() });
    out.push(SerialEl { tlv: der::tlv(der::T_OCTETSTRING, content), value: None, class: "octet-string-tag".into() });
    out.push(SerialEl { tlv: der::tlv(0x0a, content), value: None, class: "enumerated-tag".into() });
    out
}

fn name_cn(cn: &str) -> Vec<u8> {
    let atv = der::seq(&[&der::oid(&[2, 5, 4, 3]), &der::tlv(der::T_PRINTABLE, cn.as_bytes())]);
    der::seq(&[&der::tlv(der::T_SET, &atv)])
}

fn alg_sha256_with_rsa() -> Vec<u8> {
    der::seq(&[&der::oid(der::OID_SHA256_WITH_RSA), &der::null()])
}

fn extension(arcs: &[u64], value: &[u8]) -> Vec<u8> {
    der::seq(&[&der::oid(arcs), &der::octets(value)])
}

/// TBSCertList (RFC 6487 profile) around the given elements.
fn tbs_cert_list(this: &[u8], next: &[u8], entries: Option<&[Vec<u8>]>, crl_number: &[u8], aki: &[u8]) -> Vec<u8> {
    let mut parts: Vec<Vec<u8>> = vec![der::uint(1), alg_sha256_with_rsa(), name_cn("C17 issuer"), this.to_vec(), next.to_vec()];
    if let Some(e) = entries {
        parts.push(der::seq_of(e));
    }
    let exts = vec![extension(&[2, 5, 29, 35], &der::seq(&[&der::tlv(der::ctx_prim(0), aki)])), extension(&[2, 5, 29, 20], crl_number)];
    parts.push(der::tlv(der::ctx(0), &der::seq_of(&exts)));
    der::seq_of(&parts)
}

/// Manifest eContent around the given elements.
fn manifest_content(number: &[u8], this: &[u8], next: &[u8], files: usize, explicit_version: bool) -> Vec<u8> {
    let mut parts: Vec<Vec<u8>> = Vec::new();
    if explicit_version {
        parts.push(der::tlv(der::ctx(0), &der::uint(0)));
    }
    parts.push(number.to_vec());
    parts.push(this.to_vec());
    parts.push(next.to_vec());
    parts.push(der::oid(der::OID_SHA256));
    let list: Vec<Vec<u8>> = (0..files).map(|i| der::seq(&[&der::ia5(format!("file{i:03}.roa").as_bytes()), &der::bitstring(0, &[i as u8; 32])])).collect();
    parts.push(der::seq_of(&list));
    der::seq_of(&parts)
}

//============ The workload =====================================================

/// Combines elements into what a structure of them must give.
fn combine(times: &[&TimeEl], serials: &[&SerialEl]) -> (bool, bool) {
    // (all known valid, some must-reject)
    let valid = times.iter().all(|t| t.instant.is_some()) && serials.iter().all(|s| s.value.is_some());
    let reject = times.iter().any(|t| t.reject);
    (valid, reject)
}

pub fn part_sources(ctx: &mut Ctx) {
    let native = ctx.stage == Stage::Native;
    let dense = matches!(ctx.stage, Stage::Native | Stage::Asan);
    let nshards = ctx.nshards.max(1);
    let vias = vias(ctx);
    let both = [Mode::Der, Mode::Ber];
    let der_only = [Mode::Der];
    let modes: &[Mode] = if dense { &both } else { &der_only };
    let fail_policies: Vec<Policy> = if dense { vec![Policy::Blocks(1), Policy::Blocks(7), Policy::AlignedBlocks(16), Policy::Generous(5)] } else { vec![Policy::Blocks(1)] };
    let mut st = Stats::default();
    let st = &mut st;
    let mut rng = ctx.rng("sources");
    let rng = &mut rng;

    // the civil seconds of this shard: the fixed ones dealt out, then seed-chosen ones
    let mut civils: Vec<Civil> = FIXED_CIVILS.iter().enumerate().filter(|(i, _)| (*i as u64) % nshards == ctx.shard).map(|(_, c)| *c).collect();
    for _ in 0..ctx.stage_budget((48_000, 1_200_000), 2_000, 4, 8) {
        civils.push(random_civil(rng));
    }
    if !dense {
        // interpreter stages: one fixed and one seed-chosen second per shard
        civils = vec![civils[0], *civils.last().expect("one")];
        civils.dedup();
    }
    // serial values: the boundary list of part 4 dealt out, then seed-chosen ones
    let boundary = if dense { serial_values(ctx, 0) } else { serial_values_small(ctx, 0) };
    let mut serials: Vec<[u8; 20]> = boundary.into_iter().filter(|v| v[0] & 0x80 == 0).enumerate().filter(|(i, _)| (*i as u64) % nshards == ctx.shard).map(|(_, v)| v).collect();
    if !dense {
        serials.truncate(1);
    }
    for _ in 0..ctx.stage_budget((24_000, 600_000), 1_000, 4, 4) {
        serials.push(serial_octets(rng));
    }

    // (a) single times: valid ones ...
    ctx.breadcrumb("C17 sources: times");
    for (i, &c) in civils.iter().enumerate() {
        let el = civil_el(c);
        let input = Bytes::from(el.tlv.clone());
        let want = Expect::Value(Seen { times: vec![(el.instant.expect("canonical"), 0)], ..Seen::default() });
        let lit = || json!({"time": el.text, "date": civil_text(c)});
        let case = Case { object: "time", class: &el.class, input: &input, expect: &want, lit: &lit };
        through::<TimeTake>(ctx, st, &vias, modes, &case);
        through::<TimeTakeOpt>(ctx, st, &vias, modes, &case);
        st.inputs += 1;
        if i < if dense { 12 } else { 1 } {
            through_failing::<TimeTake>(ctx, st, &case, &fail_policies, dense);
            if dense {
                through_failing::<TimeTakeOpt>(ctx, st, &case, &fail_policies, dense);
            }
        }
    }
    // ... nothing at all ...
    {
        let input = Bytes::new();
        let lit = || json!("no octets at all");
        let none = Expect::Value(Seen { absent: true, ..Seen::default() });
        through::<TimeTake>(ctx, st, &vias, modes, &Case { object: "time", class: "empty-input", input: &input, expect: &Expect::Reject, lit: &lit });
        through::<TimeTakeOpt>(ctx, st, &vias, modes, &Case { object: "time", class: "empty-input", input: &input, expect: &none, lit: &lit });
        through::<EntryTakeOpt>(ctx, st, &vias, modes, &Case { object: "crl-entry", class: "empty-input", input: &input, expect: &none, lit: &lit });
    }
    // ... and the near-valid neighbourhood of some of them
    let nbases = ctx.stage_budget((96, 1_200), 16, 1, 2) as usize;
    let mut near_pool: Vec<TimeEl> = Vec::new();
    for (bi, &c) in civils.iter().take(nbases).enumerate() {
        let (tag, base, _) = canon(c);
        let mut variants = near_valid(tag, &base, native, !dense);
        if !dense {
            // interpreter stages: three of them, other ones in every shard
            let step = (variants.len() / 3).max(1);
            let offset = (ctx.shard as usize * 7 + ctx.seed as usize) % step;
            variants = variants.into_iter().enumerate().filter(|(i, _)| i % step == offset).map(|(_, v)| v).collect();
        }
        for (content, class, t) in variants {
            let el = time_el(t, &content, &class);
            let input = Bytes::from(el.tlv.clone());
            let expect = match (el.instant, el.reject) {
                (Some(i), _) => Expect::Value(Seen { times: vec![(i, 0)], ..Seen::default() }),
                (None, true) => Expect::Reject,
                (None, false) => Expect::Open,
            };
            let lit = || json!({"time": el.text, "mutation_of": civil_text(c)});
            let case = Case { object: "time", class: &el.class, input: &input, expect: &expect, lit: &lit };
            through::<TimeTake>(ctx, st, &vias, modes, &case);
            // an optional decoder meeting another tag answers "absent" and leaves the value where it is:
            // the enclosing decoder then reports trailing data; only the agreement of the sources is judged
            let opt_expect = if matches!(expect, Expect::Reject) && t != T_UTC && t != T_GEN { Expect::Open } else { expect.clone() };
            through::<TimeTakeOpt>(ctx, st, &vias, modes, &Case { expect: &opt_expect, ..case });
            st.inputs += 1;
            if bi < 4 && (el.reject || el.instant.is_none()) && rng.below(if dense { 6 } else { 2 }) == 0 {
                near_pool.push(el);
            }
        }
        // BER length forms of the valid base: open, the sources must agree
        if dense {
            for (form, bytes) in [
                ("long-form-length", [&[tag, 0x81, base.len() as u8][..], &base].concat()),
                ("two-octet-length", [&[tag, 0x82, 0, base.len() as u8][..], &base].concat()),
                ("indefinite-length", [&[tag, 0x80][..], &base, &[0, 0]].concat()),
                ("constructed-bit", der::tlv(tag | 0x20, &der::tlv(der::T_OCTETSTRING, &base))),
                ("length-beyond-input", [&[tag, base.len() as u8 + 1][..], &base].concat()),
                ("length-short-of-input", [&[tag, base.len() as u8 - 1][..], &base].concat()),
            ] {
                let input = Bytes::from(bytes);
                let lit = || json!({"valid_time": civil_text(c), "length_form": form});
                let case = Case { object: "time", class: form, input: &input, expect: &Expect::Open, lit: &lit };
                through::<TimeTake>(ctx, st, &vias, &both, &case);
                through::<TimeTakeOpt>(ctx, st, &vias, &both, &case);
                st.inputs += 1;
            }
        }
    }
    if near_pool.is_empty() {
        near_pool.push(time_el(T_UTC, b"2402291200Z", "seconds-omitted"));
    }

    // (b) validity windows: two valid times in both orders of form, then one near-valid time on either side
    ctx.breadcrumb("C17 sources: validity");
    let pairs = ctx.stage_budget((24_000, 600_000), 1_000, 1, 6) as usize;
    for i in 0..pairs.min(civils.len().saturating_sub(1)) {
        let (a, b) = (civils[i], civils[civils.len() - 1 - i]);
        let (a, b) = if canon(a).2 <= canon(b).2 { (a, b) } else { (b, a) };
        let (ea, eb) = (civil_el(a), civil_el(b));
        let input = Bytes::from(der::seq(&[&ea.tlv, &eb.tlv]));
        let want = Expect::Value(Seen { times: vec![(ea.instant.unwrap(), 0), (eb.instant.unwrap(), 0)], ..Seen::default() });
        let class = format!("{}+{}", if ea.tlv[0] == T_UTC { "utc" } else { "gen" }, if eb.tlv[0] == T_UTC { "utc" } else { "gen" });
        let lit = || json!({"not_before": civil_text(a), "not_after": civil_text(b)});
        let case = Case { object: "validity", class: &class, input: &input, expect: &want, lit: &lit };
        through::<ValidityTake>(ctx, st, &vias, modes, &case);
        st.inputs += 1;
        if i < if dense { 6 } else { 0 } {
            through_failing::<ValidityTake>(ctx, st, &case, &fail_policies, dense);
        }
        if i < near_pool.len().min(if dense { 400 } else { 2 }) {
            let bad = &near_pool[i];
            for side in 0..2 {
                let parts: [&TimeEl; 2] = if side == 0 { [bad, &eb] } else { [&ea, bad] };
                let input = Bytes::from(der::seq(&[&parts[0].tlv, &parts[1].tlv]));
                let expect = if bad.reject { Expect::Reject } else { Expect::Open };
                let class = format!("{} as {}", bad.class, if side == 0 { "not_before" } else { "not_after" });
                let lit = || json!({"first": parts[0].text, "second": parts[1].text});
                through::<ValidityTake>(ctx, st, &vias, modes, &Case { object: "validity", class: &class, input: &input, expect: &expect, lit: &lit });
                st.inputs += 1;
            }
        }
        if i < 8 && dense {
            // structural variants: open unless a value is missing
            let variants: Vec<(&str, Vec<u8>, Expect)> = vec![
                ("inverted-window", der::seq(&[&eb.tlv, &ea.tlv]), Expect::Open),
                ("one-time-only", der::seq(&[&ea.tlv]), Expect::Reject),
                ("empty-sequence", der::seq(&[]), Expect::Reject),
                ("three-times", der::seq(&[&ea.tlv, &eb.tlv, &eb.tlv]), Expect::Open),
                ("set-instead-of-sequence", der::tlv(der::T_SET, &[ea.tlv.clone(), eb.tlv.clone()].concat()), Expect::Open),
                ("trailing-octets-after-the-window", [der::seq(&[&ea.tlv, &eb.tlv]), vec![0x05, 0x00]].concat(), Expect::Open),
            ];
            for (class, bytes, expect) in variants {
                let input = Bytes::from(bytes);
                let lit = || json!({"a": civil_text(a), "b": civil_text(b), "shape": class});
                through::<ValidityTake>(ctx, st, &vias, modes, &Case { object: "validity", class, input: &input, expect: &expect, lit: &lit });
                st.inputs += 1;
            }
        }
    }

    // (c) serial numbers
    ctx.breadcrumb("C17 sources: serials");
    for (i, v) in serials.iter().enumerate() {
        let el = serial_el(v);
        let input = Bytes::from(el.tlv.clone());
        let want = Expect::Value(Seen { serials: vec![*v], ..Seen::default() });
        let lit = || json!({"serial_octets": hex(v)});
        let case = Case { object: "serial", class: &el.class, input: &input, expect: &want, lit: &lit };
        through::<SerialTake>(ctx, st, &vias, modes, &case);
        st.inputs += 1;
        if i < if dense { 8 } else { 1 } {
            through_failing::<SerialTake>(ctx, st, &case, &fail_policies, dense);
        }
        if i % if dense { 16 } else { 2 } == 0 {
            for odd in odd_serials(v) {
                let input = Bytes::from(odd.tlv.clone());
                let lit = || json!({"integer": hex(&odd.tlv), "made_from_serial": hex(v)});
                through::<SerialTake>(ctx, st, &vias, modes, &Case { object: "serial", class: &odd.class, input: &input, expect: &Expect::Open, lit: &lit });
                st.inputs += 1;
            }
        }
    }

    // (d) the structures that contain them: CRL entries and lists, TBSCertList, whole CRLs, manifest content
    ctx.breadcrumb("C17 sources: structures");
    let nstruct = ctx.stage_budget((16_000, 320_000), 800, 1, 6) as usize;
    let aki = [0x5au8; 20];
    let signature = vec![0xa5u8; 256];
    for i in 0..nstruct {
        if civils.len() < 4 || serials.is_empty() {
            break;
        }
        let pick_c = |rng: &mut Rng| civils[rng.usize_below(civils.len())];
        let pick_s = |rng: &mut Rng| serials[rng.usize_below(serials.len())];
        // one near-valid time in every fourth structure
        let spoil = i % 4 == 3;
        let bad = near_pool[i % near_pool.len()].clone();

        // CRL entry
        {
            let (sv, c) = (pick_s(rng), pick_c(rng));
            let (se, te) = (serial_el(&sv), if spoil { bad.clone() } else { civil_el(c) });
            let input = Bytes::from(der::seq(&[&se.tlv, &te.tlv]));
            let (valid, reject) = combine(&[&te], &[&se]);
            let expect = if valid {
                Expect::Value(Seen { serials: vec![sv], times: vec![(te.instant.unwrap(), 0)], ..Seen::default() })
            } else if reject {
                Expect::Reject
            } else {
                Expect::Open
            };
            let class = format!("{} {}", se.class.split(' ').next().unwrap_or(""), te.class);
            let lit = || json!({"serial_octets": hex(&sv), "revocation_date": te.text});
            let case = Case { object: "crl-entry", class: &class, input: &input, expect: &expect, lit: &lit };
            through::<EntryTake>(ctx, st, &vias, modes, &case);
            if dense {
                through::<EntryTakeOpt>(ctx, st, &vias, modes, &case);
            }
            st.inputs += 1;
            if i < if dense { 4 } else { 0 } {
                through_failing::<EntryTake>(ctx, st, &case, &fail_policies, dense);
            }
        }

        // list of revoked certificates, TBSCertList, CRL
        {
            let n = match rng.below(6) {
                0 => 0,
                1 => 1,
                2 => 2,
                3 => 3 + rng.usize_below(6),
                4 => 17,
                _ => 1 + rng.usize_below(40),
            };
            let n = if dense { n } else { n.min(2) };
            let spoil_at = if spoil && n > 0 { Some(rng.usize_below(n)) } else { None };
            let mut entries: Vec<Vec<u8>> = Vec::new();
            let mut want = Seen::default();
            let (mut valid, mut reject) = (true, false);
            for k in 0..n {
                let (sv, c) = (pick_s(rng), pick_c(rng));
                let te = if spoil_at == Some(k) { bad.clone() } else { civil_el(c) };
                entries.push(der::seq(&[&der::uint_be(&sv), &te.tlv]));
                valid &= te.instant.is_some();
                reject |= te.reject;
                want.serials.push(sv);
                want.times.push((te.instant.unwrap_or(0), 0));
            }
            want.count = Some(n);
            // a list that is present but empty is a question of the CRL profile, not of this property: open
            let list_expect = if n == 0 { Expect::Open } else if valid { Expect::Value(want.clone()) } else if reject { Expect::Reject } else { Expect::Open };
            let class = format!("{} entries{}", match n { 0 => "0", 1 => "1", 2 => "2", 3..=8 => "3-8", 17 => "17", _ => "many" }, if spoil_at.is_some() { format!(", one with {}", bad.class) } else { String::new() });
            if dense && (n > 0 || i % 8 == 0) {
                let input = Bytes::from(der::seq_of(&entries));
                let lit = || json!({"entries": n, "spoiled_entry": spoil_at, "spoiled_with": if spoil_at.is_some() { json!(bad.text) } else { json!(null) }});
                let case = Case { object: "revoked-list", class: &class, input: &input, expect: &list_expect, lit: &lit };
                through::<RevokedTake>(ctx, st, &vias, modes, &case);
                st.inputs += 1;
            }
            // the list inside a TBSCertList with times and number of its own
            let (this_c, next_c, number) = (pick_c(rng), pick_c(rng), pick_s(rng));
            let spoil_time = spoil && spoil_at.is_none();
            let this_el = if spoil_time && i % 8 < 4 { bad.clone() } else { civil_el(this_c) };
            let next_el = if spoil_time && i % 8 >= 4 { bad.clone() } else { civil_el(next_c) };
            let number_el = serial_el(&number);
            let tbs = tbs_cert_list(&this_el.tlv, &next_el.tlv, if n == 0 { None } else { Some(&entries) }, &number_el.tlv, &aki);
            let (tvalid, treject) = combine(&[&this_el, &next_el], &[&number_el]);
            let mut twant = Seen::default();
            twant.times = vec![(this_el.instant.unwrap_or(0), 0), (next_el.instant.unwrap_or(0), 0)];
            twant.serials = vec![number];
            twant.serials.extend(want.serials.iter().copied());
            twant.times.extend(want.times.iter().copied());
            twant.count = Some(n);
            let tbs_expect = if valid && tvalid { Expect::Value(twant) } else if reject || treject { Expect::Reject } else { Expect::Open };
            let tclass = format!("{}+{} {}", this_el.class, next_el.class, class);
            let lit = || json!({"this_update": this_el.text, "next_update": next_el.text, "crl_number_octets": hex(&number), "entries": n, "spoiled_entry": spoil_at});
            {
                let input = Bytes::from(tbs.clone());
                let case = Case { object: "tbs-cert-list", class: &tclass, input: &input, expect: &tbs_expect, lit: &lit };
                through::<TbsCrlTake>(ctx, st, &vias, modes, &case);
                st.inputs += 1;
                if i < if dense { 2 } else { 0 } {
                    through_failing::<TbsCrlTake>(ctx, st, &case, &fail_policies[..1], false);
                }
            }
            if i % 2 == 0 {
                let input = Bytes::from(der::seq(&[&tbs, &alg_sha256_with_rsa(), &der::bitstring(0, &signature)]));
                let case = Case { object: "crl", class: &tclass, input: &input, expect: &tbs_expect, lit: &lit };
                through::<CrlTake>(ctx, st, &vias, &modes[..1], &case);
                st.inputs += 1;
            }
        }

        // manifest content
        {
            let (a, b) = (pick_c(rng), pick_c(rng));
            let (a, b) = if canon(a).2 <= canon(b).2 { (a, b) } else { (b, a) };
            let number = pick_s(rng);
            // manifests carry GeneralizedTime whatever the year (RFC 9286); for 1950-2049 that is the
            // valid-but-not-canonical form of this property, so the verdict is open there
            let as_gen = |c: Civil| time_el(T_GEN, time_text(true, c.0, c.1, c.2, c.3, c.4, c.5).as_bytes(), "generalizedtime");
            let this_el = if spoil && i % 8 < 4 { bad.clone() } else if i % 3 == 0 { civil_el(a) } else { as_gen(a) };
            let next_el = if spoil && i % 8 >= 4 { bad.clone() } else if i % 3 == 0 { civil_el(b) } else { as_gen(b) };
            let number_el = serial_el(&number);
            let files = if dense { rng.usize_below(5) } else { 1 };
            let input = Bytes::from(manifest_content(&number_el.tlv, &this_el.tlv, &next_el.tlv, files, i % 5 == 0));
            let (valid, reject) = combine(&[&this_el, &next_el], &[&number_el]);
            // UTCTime in a manifest is outside RFC 9286: a version that refuses it is not wrong
            let utc_inside = this_el.tlv[0] == T_UTC || next_el.tlv[0] == T_UTC;
            let expect = if valid && !utc_inside {
                Expect::Value(Seen { serials: vec![number], times: vec![(this_el.instant.unwrap(), 0), (next_el.instant.unwrap(), 0)], count: Some(files), ..Seen::default() })
            } else if reject {
                Expect::Reject
            } else {
                Expect::Open
            };
            let class = format!("{}+{} files-{}", this_el.class, next_el.class, files.min(2));
            let lit = || json!({"manifest_number_octets": hex(&number), "this_update": this_el.text, "next_update": next_el.text, "files": files});
            let case = Case { object: "manifest-content", class: &class, input: &input, expect: &expect, lit: &lit };
            through::<ManifestTake>(ctx, st, &vias, modes, &case);
            st.inputs += 1;
            if i < if dense { 2 } else { 0 } {
                through_failing::<ManifestTake>(ctx, st, &case, &fail_policies[..1], false);
            }
        }
    }

    ctx.evals(st.evals);
    ctx.obs("source_inputs", st.inputs);
    ctx.obs("source_decodes", st.evals);
    ctx.obs("source_requests_answered", st.requests);
    ctx.obs("source_decodes_that_looked_while_octets_were_hidden", st.decodes_with_hidden_octets);
    for ((door, verdict), n) in &st.verdicts {
        ctx.obs(&format!("source_inputs_{verdict}:{door}"), *n);
    }
    for (via, n) in &st.by_via {
        ctx.obs(&format!("source_decodes_via:{via}"), *n);
    }
    ctx.obs("source_open_inputs_accepted_by_every_source", st.open_accepted);
    ctx.obs("source_open_inputs_rejected_by_every_source", st.open_rejected);
    ctx.obs("failing_source_runs", st.failing_runs);
    ctx.obs("failing_source_error_handed_on", st.failing_errors);
    ctx.obs("failing_source_value_after_every_octet_arrived", st.failing_complete);
    if st.decodes_with_hidden_octets == 0 {
        ctx.notes.push("C17: no decoder ever looked at a source while octets were hidden; the lazy sources were not exercised".into());
    }
    if ctx.shard == 0 {
        // literal cases: what the decoders asked of a source that shows one octet at a time
        for c in [(2024i64, 2u32, 29u32, 12u32, 0u32, 0u32), (2050, 1, 1, 0, 0, 0)] {
            let el = civil_el(c);
            let mut feed = Feed::new(Bytes::from(el.tlv.clone()), Policy::Blocks(1));
            let out = decode_feed::<TimeTake>(Mode::Der, &mut feed);
            ctx.sample("source", || json!({"date": civil_text(c), "der": hex(&el.tlv), "source": Policy::Blocks(1).text(), "requests_answered": feed.requests, "result": out.show(), "oracle_instant": el.instant}));
        }
        let bad = time_el(T_UTC, b"2402291200Z", "seconds-omitted");
        let mut feed = Feed::new(Bytes::from(bad.tlv.clone()), Policy::Blocks(7));
        let out = decode_feed::<TimeTake>(Mode::Der, &mut feed);
        ctx.sample("source", || json!({"time": bad.text, "der": hex(&bad.tlv), "source": Policy::Blocks(7).text(), "result": out.show(), "oracle": "reject"}));
    }
}
