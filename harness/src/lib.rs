pub mod alloc;
pub mod core;
pub mod c16;

use crate::core::Ctx;

pub fn dispatch(ctx: &mut Ctx) -> bool {
    match ctx.id.as_str() {
        "C16" => c16::run(ctx),
        _ => return false,
    }
    true
}
