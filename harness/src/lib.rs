pub mod alloc;
pub mod core;
pub mod der;
pub mod keys;
pub mod model;
pub mod serde_tok;
pub mod c09_deltas;
pub mod c09_gen;
pub mod c09_hostile;
pub mod c09_io;
pub mod c09_lib;
pub mod c06_net;
pub mod c06_src;
pub mod c07_gen;
pub mod c07_io;
pub mod c07_lib;

pub mod c01;
pub mod c02;
pub mod c02_cms;
pub mod c03;
pub mod c03_gen;
pub mod c03_ip;
pub mod c03_long;
pub mod c03_serde;
pub mod c04;
pub mod c05;
pub mod c06;
pub mod c07;
pub mod c08;
pub mod c09;
pub mod c10;
pub mod c11;
pub mod c12;
pub mod c13;
pub mod c13_any;
pub mod c14;
pub mod c15;
pub mod c16;
pub mod c17;

use crate::core::Ctx;

pub fn dispatch(ctx: &mut Ctx) -> bool {
    match ctx.id.as_str() {
        "C01" => c01::run(ctx),
        "C02" => c02::run(ctx),
        "C03" => c03::run(ctx),
        "C04" => c04::run(ctx),
        "C05" => c05::run(ctx),
        "C06" => c06::run(ctx),
        "C07" => c07::run(ctx),
        "C08" => c08::run(ctx),
        "C09" => c09::run(ctx),
        "C10" => c10::run(ctx),
        "C11" => c11::run(ctx),
        "C12" => c12::run(ctx),
        "C13" => c13::run(ctx),
        "C14" => c14::run(ctx),
        "C15" => c15::run(ctx),
        "C16" => c16::run(ctx),
        "C17" => c17::run(ctx),
        _ => return false,
    }
    true
}
