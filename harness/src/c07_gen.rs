//! C07 value generators: boundary-dense field values for every PDU type.

use crate::c07_io::{Chunking, Pdu};
use crate::core::Rng;

const B32: [u32; 22] = [
    0, 1, 2, 0xFF, 0x100, 0xFFFF, 0x1_0000, 0x00FF_FFFF, 0x0100_0000, 0x7FFF_FFFF, 0x8000_0000, 0x8000_0001, 0xFFFF_FFFE, 0xFFFF_FFFF,
    0x0102_0304, 23456, 64512, 65535, 65536, 4_200_000_000, 3600, 7200,
];
const B16: [u16; 11] = [0, 1, 2, 0xFF, 0x100, 0x7FFF, 0x8000, 0xFFFE, 0xFFFF, 0x0102, 0x1234];

/// Boundary value, single-byte pattern, or random.
pub fn b32(r: &mut Rng) -> u32 {
    match r.below(4) {
        0 => *r.pick(&B32),
        1 => (r.below(255) as u32 + 1) << (8 * r.below(4) as u32),
        _ => r.next_u32(),
    }
}

pub fn b16(r: &mut Rng) -> u16 {
    match r.below(3) {
        0 => *r.pick(&B16),
        1 => (r.below(255) as u16 + 1) << (8 * r.below(2) as u16),
        _ => r.next_u32() as u16,
    }
}

fn item_flags(r: &mut Rng) -> u8 {
    r.below(2) as u8
}

fn raw_flags(r: &mut Rng) -> u8 {
    match r.below(4) {
        0 => 0,
        1 => 1,
        2 => *r.pick(&[2u8, 3, 0x80, 0x81, 0xFE, 0xFF]),
        _ => r.next_u32() as u8,
    }
}

fn plen_of(r: &mut Rng, max: u8) -> u8 {
    if r.bool() {
        let edges: &[u8] = if max == 32 {
            &[0, 1, 7, 8, 9, 15, 16, 17, 23, 24, 25, 31, 32]
        } else {
            &[0, 1, 8, 31, 32, 33, 47, 48, 63, 64, 65, 95, 96, 97, 126, 127, 128]
        };
        *r.pick(edges)
    } else {
        r.range(0, max as u64) as u8
    }
}

fn mlen_of(r: &mut Rng, plen: u8, max: u8) -> u8 {
    match r.below(4) {
        0 => plen,
        1 => max,
        2 => (plen as u64 + 1).min(max as u64) as u8,
        _ => r.range(plen as u64, max as u64) as u8,
    }
}

fn wild_len(r: &mut Rng, max: u8) -> u8 {
    match r.below(3) {
        0 => *r.pick(&[0u8, 1, 31, 32, 33, 64, 127, 128, 129, 200, 254, 255]),
        1 => r.range(0, max as u64) as u8,
        _ => r.next_u32() as u8,
    }
}

/// How large the variable parts may become.
#[derive(Clone, Copy, PartialEq, Eq, Debug)]
pub enum Size {
    /// Miri: a handful of octets
    Tiny,
    /// up to about 2 KiB
    Normal,
    /// the documented maxima (16380 providers, 64 KiB key info)
    Large,
}

pub const KINDS: u64 = 12;

/// Generates a value of PDU type number `which % 12` (EndOfData counts
/// twice: version 0 and versions 1/2).
pub fn gen_pdu(r: &mut Rng, which: u64, size: Size) -> Pdu {
    let v = r.below(3) as u8;
    match which % KINDS {
        0 => Pdu::SerialNotify { v, session: b16(r), serial: b32(r) },
        1 => Pdu::SerialQuery { v, session: b16(r), serial: b32(r) },
        2 => Pdu::ResetQuery { v },
        3 => Pdu::CacheResponse { v, session: b16(r) },
        4 => {
            if r.below(4) != 0 {
                let plen = plen_of(r, 32);
                let explicit_max = r.bool();
                let mlen = if explicit_max { mlen_of(r, plen, 32) } else { plen };
                let raw = match r.below(3) {
                    0 => u32::MAX,
                    _ => r.next_u32(),
                };
                let addr = if plen == 0 { 0 } else { raw & (u32::MAX << (32 - plen as u32)) };
                Pdu::V4 { v, flags: item_flags(r), plen, mlen, addr, asn: b32(r), via_item: true, explicit_max }
            } else {
                Pdu::V4 { v, flags: raw_flags(r), plen: wild_len(r, 32), mlen: wild_len(r, 32), addr: b32(r), asn: b32(r), via_item: false, explicit_max: true }
            }
        }
        5 => {
            if r.below(4) != 0 {
                let plen = plen_of(r, 128);
                let explicit_max = r.bool();
                let mlen = if explicit_max { mlen_of(r, plen, 128) } else { plen };
                let raw = match r.below(4) {
                    0 => u128::MAX,
                    // v4-mapped and friends: shapes that text formats treat specially
                    1 => 0xFFFF_0000_0000u128 | r.next_u32() as u128,
                    _ => r.next_u128(),
                };
                let addr = if plen == 0 { 0 } else { raw & (u128::MAX << (128 - plen as u32)) };
                Pdu::V6 { v, flags: item_flags(r), plen, mlen, addr, asn: b32(r), via_item: true, explicit_max }
            } else {
                Pdu::V6 { v, flags: raw_flags(r), plen: wild_len(r, 128), mlen: wild_len(r, 128), addr: r.next_u128(), asn: b32(r), via_item: false, explicit_max: true }
            }
        }
        6 => Pdu::EndOfData { v: 0, session: b16(r), serial: b32(r), refresh: 0, retry: 0, expire: 0 },
        7 => Pdu::EndOfData { v: 1 + r.below(2) as u8, session: b16(r), serial: b32(r), refresh: b32(r), retry: b32(r), expire: b32(r) },
        8 => Pdu::CacheReset { v },
        9 => {
            let len = match size {
                Size::Tiny => r.range(0, 6) as usize,
                Size::Normal => *r.pick(&[0usize, 1, 2, 3, 4, 5, 7, 8, 33, 64, 91, 100, 255, 256, 257, 1000, 1023, 1024, 1025, 2047, 2048]),
                Size::Large => *r.pick(&[4096usize, 65535 - 32, 65536 - 32, 65536, 70000]),
            };
            let mut ski = [0u8; 20];
            ski.copy_from_slice(&r.bytes(20));
            if r.below(8) == 0 {
                ski = [0xFF; 20];
            }
            let via_item = r.below(3) != 0;
            Pdu::RouterKey { v, flags: if via_item { item_flags(r) } else { raw_flags(r) }, ski, asn: b32(r), info: r.bytes(len), via_item }
        }
        10 => {
            let inner: Vec<u8> = match r.below(3) {
                0 => {
                    let n = match size {
                        Size::Tiny => r.range(0, 9) as usize,
                        _ => *r.pick(&[0usize, 1, 7, 8, 12, 20, 32, 100]),
                    };
                    r.bytes(n)
                }
                1 => Vec::new(),
                _ => {
                    let k = *r.pick(&[0u64, 1, 2, 3, 4, 5, 6, 7, 8]);
                    gen_pdu(r, k, Size::Tiny).encode()
                }
            };
            let text_len = match size {
                Size::Tiny => r.range(0, 6) as usize,
                _ => {
                    if r.below(3) == 0 {
                        // make the part after the header land around the 1024-octet skip buffer
                        let target = *r.pick(&[1023usize, 1024, 1025, 2047, 2048, 2049, 3000]);
                        target.saturating_sub(8 + inner.len())
                    } else {
                        *r.pick(&[0usize, 1, 2, 10, 40, 80, 200])
                    }
                }
            };
            let mut text = r.bytes(text_len);
            if r.bool() {
                for b in text.iter_mut() {
                    *b = b' ' + (*b % 95);
                }
            }
            Pdu::Error { v, code: if r.bool() { r.below(12) as u16 } else { b16(r) }, pdu: inner, text }
        }
        _ => {
            let n = match size {
                Size::Tiny => r.range(0, 3) as usize,
                Size::Normal => *r.pick(&[0usize, 1, 2, 3, 4, 5, 8, 16, 17, 63, 64, 255, 256]),
                Size::Large => *r.pick(&[1000usize, 4095, 16379, 16380]),
            };
            let providers: Vec<u32> = (0..n).map(|_| b32(r)).collect();
            let via_item = r.below(3) != 0;
            Pdu::Aspa { v, flags: if via_item { item_flags(r) } else { raw_flags(r) }, customer: b32(r), providers, via_item }
        }
    }
}

/// A cyclic delivery script: 0 = Pending, n = at most n octets.
pub fn random_script(r: &mut Rng) -> Chunking {
    let n = r.range(1, 9) as usize;
    let mut s: Vec<usize> = (0..n)
        .map(|_| match r.below(6) {
            0 | 1 => 0,
            2 => 1,
            3 => r.range(2, 7) as usize,
            4 => r.range(8, 40) as usize,
            _ => r.range(41, 5000) as usize,
        })
        .collect();
    if s.iter().all(|x| *x == 0) {
        s.push(r.range(1, 9) as usize);
    }
    Chunking::Script(s)
}

/// Header length values that sit on the edges of what the readers compare
/// against. `u32::MAX`-sized announcements are added by the caller for the
/// native stage only.
pub fn length_set(true_len: u32, cap: u32) -> Vec<u32> {
    let mut v: Vec<u32> = (0..=40).collect();
    for d in 1..=4u32 {
        v.push(true_len.saturating_sub(d));
        v.push(true_len.saturating_add(d));
    }
    v.extend_from_slice(&[1023, 1024, 1025, 1032, 1033, 2056, 0xFFFF, 0x1_0000, 0x1_0001, 0x1_0004, 0x00FF_FFFF, 0x0100_0000, 0x0100_0004]);
    // the true length with one higher bit set: equal to the truth for any reader that narrows the
    // length, or a count derived from it, to fewer bits
    for k in 2..32u32 {
        if let Some(x) = true_len.checked_add(1 << k) {
            v.push(x);
        }
    }
    v.retain(|x| *x <= cap);
    v.sort();
    v.dedup();
    v
}
