//! Shared plumbing of the runtime monitors: PRNG, per-shard context that
//! counts evaluations / case signatures / samples / violations, panic capture
//! and the drain of hook H1 (chain invariant log inside rpki-rs).

use serde_json::{json, Value};
use std::cell::RefCell;
use std::collections::{BTreeMap, HashSet};
use std::panic::{self, AssertUnwindSafe};

//------------ Rng -----------------------------------------------------------

/// xoshiro256** seeded through splitmix64. Deterministic everywhere.
#[derive(Clone, Debug)]
pub struct Rng {
    s: [u64; 4],
}

pub fn splitmix64(x: &mut u64) -> u64 {
    *x = x.wrapping_add(0x9E37_79B9_7F4A_7C15);
    let mut z = *x;
    z = (z ^ (z >> 30)).wrapping_mul(0xBF58_476D_1CE4_E5B9);
    z = (z ^ (z >> 27)).wrapping_mul(0x94D0_49BB_1331_11EB);
    z ^ (z >> 31)
}

pub fn fnv64(data: &[u8]) -> u64 {
    let mut h: u64 = 0xcbf2_9ce4_8422_2325;
    for b in data {
        h ^= *b as u64;
        h = h.wrapping_mul(0x0100_0000_01b3);
    }
    h
}

impl Rng {
    pub fn new(seed: u64) -> Self {
        let mut x = seed;
        let s = [
            splitmix64(&mut x),
            splitmix64(&mut x),
            splitmix64(&mut x),
            splitmix64(&mut x),
        ];
        Rng { s }
    }

    pub fn derive(seed: u64, parts: &[&str], nums: &[u64]) -> Self {
        let mut x = seed;
        for p in parts {
            x ^= fnv64(p.as_bytes());
            splitmix64(&mut x);
        }
        for n in nums {
            x ^= n.wrapping_mul(0x9E37_79B9_7F4A_7C15);
            splitmix64(&mut x);
        }
        Rng::new(x)
    }

    pub fn next_u64(&mut self) -> u64 {
        let result = self.s[1].wrapping_mul(5).rotate_left(7).wrapping_mul(9);
        let t = self.s[1] << 17;
        self.s[2] ^= self.s[0];
        self.s[3] ^= self.s[1];
        self.s[1] ^= self.s[2];
        self.s[0] ^= self.s[3];
        self.s[2] ^= t;
        self.s[3] = self.s[3].rotate_left(45);
        result
    }

    pub fn next_u32(&mut self) -> u32 {
        (self.next_u64() >> 32) as u32
    }

    pub fn next_u128(&mut self) -> u128 {
        ((self.next_u64() as u128) << 64) | self.next_u64() as u128
    }

    /// Uniform in 0..n (n > 0).
    pub fn below(&mut self, n: u64) -> u64 {
        debug_assert!(n > 0);
        // bias is irrelevant for workload generation
        self.next_u64() % n
    }

    pub fn range(&mut self, lo: u64, hi_incl: u64) -> u64 {
        lo + self.below(hi_incl - lo + 1)
    }

    pub fn usize_below(&mut self, n: usize) -> usize {
        self.below(n as u64) as usize
    }

    pub fn chance(&mut self, num: u64, den: u64) -> bool {
        self.below(den) < num
    }

    pub fn bool(&mut self) -> bool {
        self.next_u64() & 1 == 1
    }

    pub fn pick<'a, T>(&mut self, items: &'a [T]) -> &'a T {
        &items[self.usize_below(items.len())]
    }

    pub fn shuffle<T>(&mut self, items: &mut [T]) {
        for i in (1..items.len()).rev() {
            let j = self.usize_below(i + 1);
            items.swap(i, j);
        }
    }

    pub fn bytes(&mut self, len: usize) -> Vec<u8> {
        let mut v = Vec::with_capacity(len);
        while v.len() < len {
            let x = self.next_u64().to_le_bytes();
            let take = (len - v.len()).min(8);
            v.extend_from_slice(&x[..take]);
        }
        v
    }
}

//------------ Panic capture -------------------------------------------------

thread_local! {
    static LAST_PANIC: RefCell<Option<String>> = const { RefCell::new(None) };
}

/// Installs a silent panic hook that remembers `file:line: message`.
pub fn install_panic_hook() {
    panic::set_hook(Box::new(|info| {
        let loc = info
            .location()
            .map(|l| format!("{}:{}", l.file(), l.line()))
            .unwrap_or_else(|| "<unknown>".into());
        let msg = if let Some(s) = info.payload().downcast_ref::<&str>() {
            (*s).to_string()
        } else if let Some(s) = info.payload().downcast_ref::<String>() {
            s.clone()
        } else {
            "<non-string payload>".into()
        };
        let text = format!("{}: {}", loc, msg);
        LAST_PANIC.with(|p| *p.borrow_mut() = Some(text));
    }));
}

pub fn take_last_panic() -> Option<String> {
    LAST_PANIC.with(|p| p.borrow_mut().take())
}

/// Location part (`file:line`) of a captured panic text, with the path
/// reduced to what follows `/src/` so signatures are stable across checkouts.
pub fn panic_location(text: &str) -> String {
    let loc = text.split(": ").next().unwrap_or(text);
    match loc.rfind("/src/") {
        Some(idx) => loc[idx + 1..].to_string(),
        None => loc.to_string(),
    }
}

/// Runs `f`, turning a panic into `Err("file:line: message")`.
pub fn catch<T>(f: impl FnOnce() -> T) -> Result<T, String> {
    take_last_panic();
    match panic::catch_unwind(AssertUnwindSafe(f)) {
        Ok(v) => Ok(v),
        Err(_) => Err(take_last_panic().unwrap_or_else(|| "<panic without hook>".into())),
    }
}

//------------ Ctx -----------------------------------------------------------

#[derive(Clone, Copy, Debug, PartialEq, Eq)]
pub enum Tier {
    Quick,
    Thorough,
}

#[derive(Clone, Copy, Debug, PartialEq, Eq)]
pub enum Stage {
    Native,
    Asan,
    Miri,
    Valgrind,
}

pub struct Ctx {
    pub id: String,
    pub tier: Tier,
    pub stage: Stage,
    pub seed: u64,
    pub shard: u64,
    pub nshards: u64,
    /// Optional literal case handed in by `--case` (replay of one case).
    pub case: Option<Value>,
    /// Path of the result file; `<out_path>.crumb` may be used for breadcrumbs
    /// (the driver attaches its tail to a "process died" violation).
    pub out_path: Option<String>,
    pub evaluations: u64,
    signatures: HashSet<u64>,
    sig_examples: BTreeMap<String, u64>,
    pub disjoint_distinct: u64,
    samples: BTreeMap<String, Vec<Value>>,
    violations: Vec<Value>,
    violation_sigs: BTreeMap<String, u64>,
    obs: BTreeMap<String, u64>,
    pub notes: Vec<String>,
    pub exhaustive: Option<bool>,
    started: std::time::Instant,
    pub h1_chains: u64,
}

impl Ctx {
    pub fn new(id: &str, tier: Tier, stage: Stage, seed: u64, shard: u64, nshards: u64) -> Self {
        install_logger();
        Ctx {
            id: id.into(),
            tier,
            stage,
            seed,
            shard,
            nshards,
            case: None,
            out_path: None,
            evaluations: 0,
            signatures: HashSet::new(),
            sig_examples: BTreeMap::new(),
            disjoint_distinct: 0,
            samples: BTreeMap::new(),
            violations: Vec::new(),
            violation_sigs: BTreeMap::new(),
            obs: BTreeMap::new(),
            notes: Vec::new(),
            exhaustive: None,
            started: std::time::Instant::now(),
            h1_chains: 0,
        }
    }

    /// A PRNG private to this (property, stage-independent, shard, purpose).
    /// The stage is deliberately *not* mixed in for workloads that should be
    /// comparable across stages; pass it in `purpose` if wanted.
    pub fn rng(&self, purpose: &str) -> Rng {
        Rng::derive(self.seed, &[&self.id, purpose], &[self.shard, self.nshards])
    }

    /// Budget selector: `(quick, thorough)` for the native stage, scaled down
    /// for the slow instruments.
    pub fn budget(&self, quick: u64, thorough: u64) -> u64 {
        let base = match self.tier {
            Tier::Quick => quick,
            Tier::Thorough => thorough,
        };
        let per_shard = (base / self.nshards.max(1)).max(1);
        per_shard
    }

    /// Picks by stage: native / asan / miri / valgrind numbers (totals, divided by shards).
    pub fn stage_budget(&self, native: (u64, u64), asan: u64, miri: u64, valgrind: u64) -> u64 {
        let total = match self.stage {
            Stage::Native => match self.tier {
                Tier::Quick => native.0,
                Tier::Thorough => native.1,
            },
            Stage::Asan => asan,
            Stage::Miri => miri,
            Stage::Valgrind => valgrind,
        };
        (total / self.nshards.max(1)).max(1)
    }

    pub fn is_native(&self) -> bool {
        self.stage == Stage::Native
    }

    pub fn is_miri(&self) -> bool {
        self.stage == Stage::Miri
    }

    /// True for the instruments that cannot run foreign (C/asm) code.
    pub fn no_ffi(&self) -> bool {
        self.stage == Stage::Miri
    }

    pub fn mine(&self, index: u64) -> bool {
        index % self.nshards.max(1) == self.shard
    }

    pub fn eval(&mut self) {
        self.evaluations += 1;
    }

    pub fn evals(&mut self, n: u64) {
        self.evaluations += n;
    }

    /// Registers a non-trivial case signature (a class, not the raw case).
    pub fn sig(&mut self, s: &str) {
        let h = fnv64(s.as_bytes());
        if self.signatures.insert(h) && self.sig_examples.len() < 40 {
            self.sig_examples.insert(s.to_string(), 1);
        }
    }

    pub fn sig_hash(&mut self, h: u64) {
        self.signatures.insert(h);
    }

    pub fn obs(&mut self, key: &str, n: u64) {
        *self.obs.entry(key.to_string()).or_insert(0) += n;
    }

    pub fn obs_max(&mut self, key: &str, n: u64) {
        let e = self.obs.entry(format!("max:{}", key)).or_insert(0);
        if n > *e {
            *e = n;
        }
    }

    /// Keeps up to 3 samples per key.
    pub fn sample(&mut self, key: &str, v: impl FnOnce() -> Value) {
        let e = self.samples.entry(key.to_string()).or_default();
        if e.len() < 3 {
            e.push(v());
        }
    }

    pub fn wants_sample(&self, key: &str) -> bool {
        self.samples.get(key).map(|v| v.len() < 3).unwrap_or(true)
    }

    /// Records a violation. `sig` is the specific signature
    /// (`Cxx:what-exactly`), `detail` the literal failing case.
    pub fn violation(&mut self, sig: &str, desc: &str, detail: Value) {
        let n = self.violation_sigs.entry(sig.to_string()).or_insert(0);
        *n += 1;
        if *n <= 3 && self.violations.len() < 200 {
            self.violations.push(json!({
                "sig": sig,
                "desc": desc,
                "detail": detail,
            }));
        }
    }

    pub fn violation_count(&self) -> u64 {
        self.violation_sigs.values().sum()
    }

    /// Runs a closure under catch_unwind; a panic becomes a violation with
    /// signature `<id>:panic:<file:line>` unless `expected` says otherwise.
    pub fn no_panic<T>(&mut self, what: &str, detail: impl FnOnce() -> Value, f: impl FnOnce() -> T) -> Option<T> {
        match catch(f) {
            Ok(v) => Some(v),
            Err(text) => {
                let sig = format!("{}:panic:{}:{}", self.id, what, panic_location(&text));
                self.violation(&sig, &format!("panic in {}: {}", what, text), detail());
                None
            }
        }
    }

    /// Drains hook H1: every chain that was turned into a shared chain on
    /// this thread since the last call was checked against the chain
    /// invariant inside rpki-rs; any record is a C03-type violation observed
    /// from this property's workload.
    pub fn drain_chain_hook(&mut self, context: impl FnOnce() -> Value) {
        let (count, bad) = rpki::repository::resources::verif_take_chain_observations();
        self.h1_chains += count;
        if !bad.is_empty() {
            let kinds: Vec<String> = bad.iter().map(|s| s.to_string()).collect();
            let sig = format!("{}:hook-h1:non-canonical-chain:{}", self.id, kinds[0]);
            self.violation(
                &sig,
                "hook H1 saw a resource chain violating the chain invariant",
                json!({"kinds": kinds, "context": context()}),
            );
        }
    }

    /// Overwrites the breadcrumb file with `text` (what is about to be
    /// evaluated), so that a shard that dies leaves the culprit behind.
    pub fn breadcrumb(&self, text: &str) {
        if let Some(p) = &self.out_path {
            let _ = std::fs::write(format!("{}.crumb", p), text);
        }
    }

    pub fn elapsed_s(&self) -> f64 {
        self.started.elapsed().as_secs_f64()
    }

    pub fn finish(mut self) -> Value {
        // leftover H1 observations
        self.drain_chain_hook(|| json!("end of shard"));
        let (recs, octets) = log_stats();
        self.obs("library_log_records_formatted", recs);
        self.obs("library_log_octets_formatted", octets);
        let sigs: Vec<String> = self.signatures.iter().map(|h| format!("{:016x}", h)).collect();
        let mut samples = Vec::new();
        for (k, vs) in &self.samples {
            for v in vs {
                samples.push(json!({"kind": k, "case": v}));
            }
        }
        json!({
            "id": self.id,
            "stage": format!("{:?}", self.stage).to_lowercase(),
            "shard": self.shard,
            "nshards": self.nshards,
            "seed": self.seed,
            "evaluations": self.evaluations,
            "signatures": sigs,
            "signature_examples": self.sig_examples.keys().collect::<Vec<_>>(),
            "disjoint_distinct": self.disjoint_distinct,
            "samples": samples,
            "violations": self.violations,
            "violation_counts": self.violation_sigs,
            "observations": self.obs,
            "notes": self.notes,
            "exhaustive": self.exhaustive,
            "h1_chains": self.h1_chains,
            "wall_s": self.started.elapsed().as_secs_f64(),
        })
    }
}

pub fn hex(data: &[u8]) -> String {
    let mut s = String::with_capacity(data.len() * 2);
    for b in data {
        s.push_str(&format!("{:02x}", b));
    }
    s
}

pub fn unhex(s: &str) -> Vec<u8> {
    (0..s.len() / 2)
        .map(|i| u8::from_str_radix(&s[2 * i..2 * i + 2], 16).unwrap())
        .collect()
}

//------------ hashers ---------------------------------------------------------

/// A word-at-a-time hasher of the FxHash kind (the one behind `FxHashMap`).
/// Unlike SipHash it is *not* a pure byte stream: one `write` of n octets and
/// n calls of `write_u8` mix differently. The `Hash` contract (`a == b` implies
/// equal hashes) is stated for every `Hasher`, and `Hasher` documents that no
/// write method may be assumed to be equivalent to a sequence of others, so
/// equal values have to issue the same sequence of calls. Monitors that check
/// "equal implies equal hash" use both this and `DefaultHasher`.
#[derive(Default, Clone)]
pub struct WordHasher {
    hash: u64,
}

impl WordHasher {
    const K: u64 = 0x51_7c_c1_b7_27_22_0a_95;
    #[inline]
    fn add(&mut self, w: u64) {
        self.hash = (self.hash.rotate_left(5) ^ w).wrapping_mul(Self::K);
    }
}

impl std::hash::Hasher for WordHasher {
    fn write(&mut self, mut bytes: &[u8]) {
        while bytes.len() >= 8 {
            self.add(u64::from_le_bytes(bytes[..8].try_into().unwrap()));
            bytes = &bytes[8..];
        }
        if bytes.len() >= 4 {
            self.add(u32::from_le_bytes(bytes[..4].try_into().unwrap()) as u64);
            bytes = &bytes[4..];
        }
        if bytes.len() >= 2 {
            self.add(u16::from_le_bytes(bytes[..2].try_into().unwrap()) as u64);
            bytes = &bytes[2..];
        }
        if let Some(b) = bytes.first() {
            self.add(*b as u64);
        }
    }
    fn write_u8(&mut self, i: u8) {
        self.add(i as u64)
    }
    fn write_u16(&mut self, i: u16) {
        self.add(i as u64)
    }
    fn write_u32(&mut self, i: u32) {
        self.add(i as u64)
    }
    fn write_u64(&mut self, i: u64) {
        self.add(i)
    }
    fn write_u128(&mut self, i: u128) {
        self.add(i as u64);
        self.add((i >> 64) as u64)
    }
    fn write_usize(&mut self, i: usize) {
        self.add(i as u64)
    }
    fn finish(&self) -> u64 {
        self.hash
    }
}

/// Hash of a value under SipHash (`DefaultHasher`) combined with its hash
/// under the word-at-a-time hasher: two values get the same answer only if
/// they agree under both.
pub fn hash2_of<T: std::hash::Hash + ?Sized>(t: &T) -> u64 {
    use std::hash::Hasher;
    let mut a = std::collections::hash_map::DefaultHasher::new();
    t.hash(&mut a);
    let mut b = WordHasher::default();
    t.hash(&mut b);
    a.finish() ^ b.finish().rotate_left(29).wrapping_mul(0x9e37_79b9_7f4a_7c15)
}

//------------ logging ---------------------------------------------------------

/// The library logs through the `log` facade. An application that turns on
/// debug or trace logging makes the library evaluate the arguments of every
/// `debug!` / `trace!` call (by default they are never evaluated), so code
/// inside those arguments is library behaviour a user can reach. The monitors
/// therefore run with a logger at the most verbose level that formats every
/// record (into a counter, nothing is printed). A panic while formatting
/// unwinds into the library call that logged and is reported by the monitor
/// that made the call.
struct FormattingLogger;

static LOG_RECORDS: std::sync::atomic::AtomicU64 = std::sync::atomic::AtomicU64::new(0);
static LOG_OCTETS: std::sync::atomic::AtomicU64 = std::sync::atomic::AtomicU64::new(0);

struct CountSink(u64);

impl std::fmt::Write for CountSink {
    fn write_str(&mut self, s: &str) -> std::fmt::Result {
        self.0 += s.len() as u64;
        Ok(())
    }
}

impl log::Log for FormattingLogger {
    fn enabled(&self, _: &log::Metadata) -> bool {
        true
    }
    fn log(&self, record: &log::Record) {
        use std::fmt::Write;
        let mut sink = CountSink(0);
        let _ = write!(sink, "{} {}", record.target(), record.args());
        LOG_RECORDS.fetch_add(1, std::sync::atomic::Ordering::Relaxed);
        LOG_OCTETS.fetch_add(sink.0, std::sync::atomic::Ordering::Relaxed);
    }
    fn flush(&self) {}
}

pub fn install_logger() {
    static ONCE: std::sync::Once = std::sync::Once::new();
    ONCE.call_once(|| {
        static LOGGER: FormattingLogger = FormattingLogger;
        if log::set_logger(&LOGGER).is_ok() {
            log::set_max_level(log::LevelFilter::Trace);
        }
    });
}

/// (records formatted, octets formatted) so far in this process.
pub fn log_stats() -> (u64, u64) {
    (LOG_RECORDS.load(std::sync::atomic::Ordering::Relaxed), LOG_OCTETS.load(std::sync::atomic::Ordering::Relaxed))
}
