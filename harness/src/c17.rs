//! C17 — X.509 times, validity windows and certificate serial numbers.
//!
//! Oracles (all written here, none uses chrono or the code under test):
//!  * a proleptic Gregorian calendar (`days_from_civil`, closed form for the
//!    years, month table for the rest) cross-checked against a running day
//!    counter while every day of the years 1..=9999 is enumerated;
//!  * a strict parser for the two RFC 5280 time forms (`oracle_parse`);
//!  * interval membership / intersection on i64 seconds for `Validity`;
//!  * big-integer decimal conversion, minimal DER INTEGER (`crate::der`) and
//!    big-integer comparison for `Serial`;
//!  * for the encoders written into sinks that take fewer octets than offered
//!    (part 5): harness-written DER as the reference and the law "Ok(()) only
//!    if every octet of it has arrived".
//!  * for the decoders driven through `bcder::decode::Source` implementations
//!    of the harness (part 6, `c17_source.rs`): harness-written DER whose
//!    instants / serial octets are known, and "how the octets arrive is not
//!    part of the value";
//!  * for the decimal text of serial numbers in decorated spellings (part 7,
//!    `c17_text.rs`): the number the numeral denotes.
//!
//! chrono is only used to *construct* `Time` values from an instant
//! (`DateTime::from_timestamp`) and to read the instant back
//! (`timestamp()`), which is the observation point of the property.

use crate::core::{hex, Ctx, Stage, Tier};
use crate::der;
use bcder::encode::{PrimitiveContent, Values};
use bcder::Mode;
use chrono::{DateTime, Utc};
use rpki::repository::x509::{Serial, Time, Validity};
use serde_json::json;
use std::cmp::Ordering;
use std::str::FromStr;

// part 6: the decoders driven through Source implementations of the harness
#[path = "c17_source.rs"]
mod c17_source;
// part 7: the decimal text of serial numbers through every door, canonical and decorated
#[path = "c17_text.rs"]
mod c17_text;

//============ Oracle: calendar ===============================================

fn is_leap(y: i64) -> bool {
    (y % 4 == 0 && y % 100 != 0) || y % 400 == 0
}

fn days_in_month(y: i64, m: u32) -> u32 {
    match m {
        1 | 3 | 5 | 7 | 8 | 10 | 12 => 31,
        4 | 6 | 9 | 11 => 30,
        2 => {
            if is_leap(y) {
                29
            } else {
                28
            }
        }
        _ => 0,
    }
}

/// Days between 0001-01-01 and 1970-01-01.
const EPOCH_FROM_YEAR1: i64 = 719_162;

/// Days since 1970-01-01 of a (valid) civil date, y >= 1.
fn days_from_civil(y: i64, m: u32, d: u32) -> i64 {
    let py = y - 1;
    let before_year = py * 365 + py / 4 - py / 100 + py / 400;
    let mut doy: i64 = 0;
    for mm in 1..m {
        doy += days_in_month(y, mm) as i64;
    }
    before_year + doy + (d as i64 - 1) - EPOCH_FROM_YEAR1
}

fn instant_of(y: i64, m: u32, d: u32, h: u32, mi: u32, s: u32) -> i64 {
    days_from_civil(y, m, d) * 86_400 + (h as i64) * 3600 + (mi as i64) * 60 + s as i64
}

/// Anchors known from outside this program. Returns false if the oracle
/// itself is broken (then nothing is judged).
fn oracle_selftest() -> bool {
    days_from_civil(1970, 1, 1) == 0
        && days_from_civil(2000, 1, 1) == 10_957
        && days_from_civil(2000, 3, 1) == 11_017
        && days_from_civil(1900, 3, 1) == -25_508
        && days_from_civil(1, 1, 1) == -719_162
        && days_from_civil(9999, 12, 31) == 2_932_896
        && instant_of(2038, 1, 19, 3, 14, 7) == 2_147_483_647
        && instant_of(2001, 9, 9, 1, 46, 40) == 1_000_000_000
        && instant_of(1950, 1, 1, 0, 0, 0) == -631_152_000
        && instant_of(2050, 1, 1, 0, 0, 0) == 2_524_608_000
        && !is_leap(1900)
        && is_leap(2000)
        && !is_leap(2100)
        && is_leap(4)
        && !is_leap(1)
}

//============ Oracle: strict time parser =====================================

const T_UTC: u8 = 0x17;
const T_GEN: u8 = 0x18;

#[derive(Clone, Copy, Debug, PartialEq, Eq)]
enum Reason {
    Tag,
    Length,
    Terminator,
    NonDigit(u8),
    Month,
    Day,
    Hour,
    Minute,
    Second,
}

impl Reason {
    fn text(self) -> String {
        match self {
            Reason::Tag => "not-a-time-tag".into(),
            Reason::Length => "wrong-length".into(),
            Reason::Terminator => "no-Z-terminator".into(),
            Reason::NonDigit(b) => format!("nondigit-0x{:02x}", b),
            Reason::Month => "month-out-of-range".into(),
            Reason::Day => "day-not-in-month".into(),
            Reason::Hour => "hour-out-of-range".into(),
            Reason::Minute => "minute-out-of-range".into(),
            Reason::Second => "second-out-of-range".into(),
        }
    }
}

#[derive(Clone, Copy, Debug, PartialEq, Eq)]
enum Parsed {
    /// A real calendar second in the years 1..=9999.
    Accept { instant: i64, year: i64 },
    /// Strictly formed, but the statement does not say (year 0000).
    Unspecified,
    Reject(Reason),
}

fn two(b: &[u8]) -> u32 {
    ((b[0] - b'0') as u32) * 10 + (b[1] - b'0') as u32
}

/// The statement's grammar: fixed width, all digits, 'Z', real date and time,
/// two-digit-year pivot at 50.
fn oracle_parse(tag: u8, content: &[u8]) -> Parsed {
    let ylen = match tag {
        T_UTC => 2,
        T_GEN => 4,
        _ => return Parsed::Reject(Reason::Tag),
    };
    if content.len() != ylen + 11 {
        return Parsed::Reject(Reason::Length);
    }
    if content[ylen + 10] != b'Z' {
        return Parsed::Reject(Reason::Terminator);
    }
    for &b in &content[..ylen + 10] {
        if !b.is_ascii_digit() {
            return Parsed::Reject(Reason::NonDigit(b));
        }
    }
    let year: i64 = if ylen == 2 {
        let yy = two(&content[0..2]) as i64;
        if yy >= 50 {
            1900 + yy
        } else {
            2000 + yy
        }
    } else {
        two(&content[0..2]) as i64 * 100 + two(&content[2..4]) as i64
    };
    let r = &content[ylen..];
    let (mo, d, h, mi, s) = (two(&r[0..2]), two(&r[2..4]), two(&r[4..6]), two(&r[6..8]), two(&r[8..10]));
    if !(1..=12).contains(&mo) {
        return Parsed::Reject(Reason::Month);
    }
    // day validity for year 0 is judged as for a leap year (0 % 400 == 0);
    // an impossible day is rejected whatever the year
    if d < 1 || d > days_in_month(year, mo) {
        return Parsed::Reject(Reason::Day);
    }
    if h > 23 {
        return Parsed::Reject(Reason::Hour);
    }
    if mi > 59 {
        return Parsed::Reject(Reason::Minute);
    }
    if s > 59 {
        return Parsed::Reject(Reason::Second);
    }
    if year < 1 {
        return Parsed::Unspecified;
    }
    Parsed::Accept { instant: instant_of(year, mo, d, h, mi, s), year }
}

/// Whether the form is the one the encoder must choose for that year.
fn canonical_tag(year: i64) -> u8 {
    if (1950..=2049).contains(&year) {
        T_UTC
    } else {
        T_GEN
    }
}

//============ Library access ==================================================

fn time_from_instant(instant: i64) -> Option<Time> {
    DateTime::<Utc>::from_timestamp(instant, 0).map(Time::new)
}

/// (whole seconds, sub-second nanoseconds) of a library time.
fn instant_of_time(t: &Time) -> (i64, u32) {
    (t.timestamp(), t.timestamp_subsec_nanos())
}

fn lib_take_from(bytes: &[u8]) -> Option<Time> {
    Mode::Der.decode(bytes, |cons| Time::take_from(cons)).ok()
}

fn lib_take_opt_from(bytes: &[u8]) -> Option<Time> {
    Mode::Der.decode(bytes, |cons| Time::take_opt_from(cons)).ok().flatten()
}

fn encode_into<V: Values>(v: V, out: &mut Vec<u8>) {
    out.clear();
    v.write_encoded(Mode::Der, out).expect("write to Vec");
}

fn ascii(content: &[u8]) -> String {
    content
        .iter()
        .map(|&b| if (0x20..0x7f).contains(&b) { (b as char).to_string() } else { format!("\\x{:02x}", b) })
        .collect()
}

/// Splits a short-form TLV as produced for times. None if it is not one.
fn split_short_tlv(bytes: &[u8]) -> Option<(u8, &[u8])> {
    if bytes.len() < 2 || bytes[1] >= 0x80 || bytes.len() != 2 + bytes[1] as usize {
        return None;
    }
    Some((bytes[0], &bytes[2..]))
}

//============ Part 1: encode → decode over the calendar =======================

struct Counters {
    evals: u64,
    utc: u64,
    gen: u64,
}

fn date_class(y: i64, m: u32, d: u32) -> &'static str {
    if matches!(y, 1949 | 1950 | 2049 | 2050) {
        "pivot-year"
    } else if m == 2 && d == 29 {
        "leap-day"
    } else if m == 2 && d == 28 && !is_leap(y) && y % 100 == 0 {
        "feb28-nonleap-century"
    } else if y == 1 || y == 9999 {
        "range-end-year"
    } else if m == 12 && d == 31 {
        "year-end"
    } else if d == days_in_month(y, m) {
        "month-end"
    } else if d == 1 {
        "month-start"
    } else {
        "ordinary"
    }
}

fn era(y: i64) -> &'static str {
    match y {
        1..=999 => "y0001-0999",
        1000..=1949 => "y1000-1949",
        1950..=1999 => "y1950-1999",
        2000..=2049 => "y2000-2049",
        _ => "y2050-9999",
    }
}

fn tod_class(h: u32, mi: u32, s: u32) -> &'static str {
    match (h, mi, s) {
        (0, 0, 0) => "00:00:00",
        (23, 59, 59) => "23:59:59",
        _ => "inner",
    }
}

/// One calendar second: instant → Time → encode_varied → tag, strict form,
/// instant; → take_from → same instant.
#[allow(clippy::too_many_arguments)]
fn check_second(ctx: &mut Ctx, c: &mut Counters, buf: &mut Vec<u8>, y: i64, m: u32, d: u32, h: u32, mi: u32, s: u32, days: i64, extra: bool) {
    let instant = days * 86_400 + (h * 3600 + mi * 60 + s) as i64;
    let lit = || json!({"date": format!("{:04}-{:02}-{:02}T{:02}:{:02}:{:02}Z", y, m, d, h, mi, s), "instant": instant});
    let t = match time_from_instant(instant) {
        Some(t) => t,
        None => {
            ctx.obs("instants_not_constructible", 1);
            return;
        }
    };
    encode_into(t.encode_varied(), buf);
    c.evals += 1;
    let want_tag = canonical_tag(y);
    let (tag, content) = match split_short_tlv(buf) {
        Some(x) => x,
        None => {
            ctx.violation("C17:encode:not-a-short-tlv", "encode_varied did not produce one short-form TLV", json!({"case": lit(), "der": hex(buf)}));
            return;
        }
    };
    if tag == T_UTC {
        c.utc += 1;
    } else if tag == T_GEN {
        c.gen += 1;
    }
    if tag != want_tag {
        let sig = if want_tag == T_UTC { "C17:encode:tag:expected-utctime-1950-2049" } else { "C17:encode:tag:expected-generalizedtime-outside-1950-2049" };
        ctx.violation(sig, &format!("encode_varied chose tag 0x{:02x} for year {}, expected 0x{:02x}", tag, y, want_tag), json!({"case": lit(), "der": hex(buf)}));
    }
    match oracle_parse(tag, content) {
        Parsed::Accept { instant: oi, .. } => {
            if oi != instant {
                ctx.violation(
                    "C17:encode:names-other-instant",
                    &format!("encoded text '{}' names instant {} but the value was {}", ascii(content), oi, instant),
                    json!({"case": lit(), "der": hex(buf)}),
                );
            }
        }
        other => {
            ctx.violation(
                "C17:encode:not-strict-form",
                &format!("encoded text '{}' is not a strict RFC 5280 time ({:?})", ascii(content), other),
                json!({"case": lit(), "der": hex(buf)}),
            );
        }
    }
    match lib_take_from(buf) {
        Some(back) => {
            if instant_of_time(&back) != (instant, 0) {
                ctx.violation(
                    "C17:roundtrip:instant-changed",
                    &format!("{} encodes as '{}' and decodes to instant {:?}", instant, ascii(content), instant_of_time(&back)),
                    json!({"case": lit(), "der": hex(buf)}),
                );
            }
            if back != t {
                ctx.violation("C17:roundtrip:not-equal", "decoded Time != encoded Time", json!({"case": lit(), "der": hex(buf)}));
            }
        }
        None => {
            ctx.violation(
                "C17:roundtrip:own-encoding-rejected",
                &format!("take_from rejects '{}' produced by encode_varied", ascii(content)),
                json!({"case": lit(), "der": hex(buf)}),
            );
        }
    }
    if extra {
        // the constructor from calendar fields names the same instant
        let u = Time::utc(y as i32, m, d, h, mi, s);
        c.evals += 1;
        if instant_of_time(&u) != (instant, 0) {
            ctx.violation(
                "C17:utc-constructor:other-instant",
                &format!("Time::utc gives instant {:?}, calendar says {}", instant_of_time(&u), instant),
                lit(),
            );
        }
        // optional-time decoder on the same bytes
        c.evals += 1;
        match lib_take_opt_from(buf) {
            Some(back) if instant_of_time(&back) == (instant, 0) => {}
            other => {
                ctx.violation(
                    "C17:roundtrip:take_opt_from",
                    &format!("take_opt_from gives {:?} for '{}'", other.map(|t| instant_of_time(&t)), ascii(content)),
                    json!({"case": lit(), "der": hex(buf)}),
                );
            }
        }
        // the explicit GeneralizedTime encoder (not reached by encode_varied in 1950..=2049)
        if want_tag == T_UTC {
            let mut b2 = Vec::with_capacity(17);
            encode_into(t.encode_generalized_time(), &mut b2);
            c.evals += 1;
            let ok = match split_short_tlv(&b2) {
                Some((T_GEN, cont)) => matches!(oracle_parse(T_GEN, cont), Parsed::Accept { instant: oi, .. } if oi == instant),
                _ => false,
            } && lib_take_from(&b2).map(|b| instant_of_time(&b)) == Some((instant, 0));
            if !ok {
                ctx.violation(
                    "C17:encode_generalized_time:roundtrip",
                    "encode_generalized_time does not name / decode to the same instant",
                    json!({"case": lit(), "der": hex(&b2)}),
                );
            }
        } else if (1950..=2049).contains(&(y + 100)) || (1950..=2049).contains(&(y - 100)) {
            // nothing: UTCTime of other centuries is ambiguous by design
        }
    }
}

/// Walks every day of the given years with a running day counter, checks the
/// closed-form oracle against it and calls `f` for each day.
fn for_each_day(ctx: &mut Ctx, mut f: impl FnMut(&mut Ctx, i64, u32, u32, i64)) -> bool {
    let mut running: i64 = -EPOCH_FROM_YEAR1; // 0001-01-01
    for y in 1..=9999i64 {
        for m in 1..=12u32 {
            for d in 1..=days_in_month(y, m) {
                if days_from_civil(y, m, d) != running {
                    ctx.notes.push(format!("C17: oracle calendar disagrees with itself at {y}-{m}-{d}; nothing judged"));
                    return false;
                }
                f(ctx, y, m, d, running);
                running += 1;
            }
        }
    }
    running == 2_932_897 // day after 9999-12-31
}

fn part_calendar(ctx: &mut Ctx) {
    let mut c = Counters { evals: 0, utc: 0, gen: 0 };
    let mut buf = Vec::with_capacity(20);
    let full = ctx.tier == Tier::Thorough && ctx.stage == Stage::Native;
    let nshards = ctx.nshards.max(1);
    let shard = ctx.shard;
    let seed = ctx.seed;
    // Selection of days for the reduced runs.
    let boundary_years: &[i64] = &[
        1, 2, 4, 99, 100, 101, 400, 999, 1000, 1582, 1600, 1699, 1700, 1899, 1900, 1901, 1948, 1949, 1950, 1951, 1969, 1970, 1999, 2000,
        2001, 2024, 2037, 2038, 2048, 2049, 2050, 2051, 2099, 2100, 2101, 2400, 9996, 9998, 9999,
    ];
    let stride: i64 = match (ctx.stage, ctx.tier) {
        (Stage::Native, Tier::Thorough) => 1,
        (Stage::Native, Tier::Quick) => 3,
        _ => 97,
    };
    let times: [(u32, u32, u32); 3] = [(0, 0, 0), (12, 34, 56), (23, 59, 59)];
    let walk = matches!(ctx.stage, Stage::Native | Stage::Asan);
    let ok = if walk {
        for_each_day(ctx, |ctx, y, m, d, days| {
            if (y as u64) % nshards != shard {
                return;
            }
            let boundary_year = boundary_years.contains(&y);
            if !(stride == 1 || boundary_year || days.rem_euclid(stride) == 0) {
                return;
            }
            for (i, &(h, mi, s)) in times.iter().enumerate() {
                check_second(ctx, &mut c, &mut buf, y, m, d, h, mi, s, days, i == 1 || boundary_year);
            }
            if full {
                // a fourth second of the day that depends on (seed, day)
                let mut x = seed ^ (days as u64).wrapping_mul(0x9E37_79B9_7F4A_7C15);
                let sod = (crate::core::splitmix64(&mut x) % 86_400) as u32;
                check_second(ctx, &mut c, &mut buf, y, m, d, sod / 3600, sod / 60 % 60, sod % 60, days, false);
            }
            let cls = date_class(y, m, d);
            if cls != "ordinary" || d == 15 {
                let enc = if canonical_tag(y) == T_UTC { "utctime" } else { "generalizedtime" };
                ctx.sig(&format!("roundtrip {enc} {} {cls}", era(y)));
            }
        })
    } else {
        // interpreter stages: no walk over 3.6 M days; key days of the boundary
        // years plus random days
        let mut rng = ctx.rng("miri-days");
        let mut dates: Vec<(i64, u32, u32)> = Vec::new();
        let scale = if ctx.tier == Tier::Thorough { 2 } else { 1 };
        for (i, &y) in boundary_years.iter().enumerate() {
            // pivot years always, the others thinned
            let pivot = matches!(y, 1949 | 1950 | 2049 | 2050 | 1 | 9999);
            if (i as u64) % nshards != shard || !(pivot || i % (4 / scale) == 0) {
                continue;
            }
            dates.push((y, 1, 1));
            if is_leap(y) {
                dates.push((y, 2, 29));
            } else {
                dates.push((y, 2, 28));
            }
            dates.push((y, 12, 31));
        }
        for _ in 0..ctx.stage_budget((0, 0), 0, 24 * scale as u64, 24) {
            let y = 1 + rng.below(9999) as i64;
            let m = 1 + rng.below(12) as u32;
            let d = 1 + rng.below(days_in_month(y, m) as u64) as u32;
            dates.push((y, m, d));
        }
        for (k, (y, m, d)) in dates.into_iter().enumerate() {
            let days = days_from_civil(y, m, d);
            let (h, mi, s) = times[k % 3];
            check_second(ctx, &mut c, &mut buf, y, m, d, h, mi, s, days, true);
            let enc = if canonical_tag(y) == T_UTC { "utctime" } else { "generalizedtime" };
            ctx.sig(&format!("roundtrip {enc} {} {}", era(y), date_class(y, m, d)));
        }
        true
    };
    if !ok {
        ctx.notes.push("C17: calendar walk did not end on 9999-12-31; oracle suspect, part 1 not judged".into());
        return;
    }
    if full {
        ctx.exhaustive = Some(true);
    }
    // every second of the days around the pivots, of leap days and of the range ends
    let second_days: &[(i64, u32, u32)] = &[
        (1949, 12, 31),
        (1950, 1, 1),
        (2049, 12, 31),
        (2050, 1, 1),
        (1999, 12, 31),
        (2000, 1, 1),
        (2000, 2, 29),
        (1900, 2, 28),
        (1900, 3, 1),
        (2024, 2, 29),
        (2100, 2, 28),
        (4, 2, 29),
        (1, 1, 1),
        (9999, 12, 31),
        (1969, 12, 31),
        (1970, 1, 1),
        (2038, 1, 19),
        (9996, 2, 29),
    ];
    let mut second_days: Vec<(i64, u32, u32)> = second_days.to_vec();
    {
        // further days chosen by the seed (the same list in every shard)
        let extra = match (ctx.stage, ctx.tier) {
            (Stage::Native, Tier::Thorough) => 400,
            (Stage::Native, Tier::Quick) => 14,
            _ => 2,
        };
        let mut rng = crate::core::Rng::derive(ctx.seed, &["C17", "second-days"], &[]);
        for _ in 0..extra {
            let y = match rng.below(3) {
                0 => 1950 + rng.below(100) as i64,
                _ => 1 + rng.below(9999) as i64,
            };
            let m = 1 + rng.below(12) as u32;
            let d = 1 + rng.below(days_in_month(y, m) as u64) as u32;
            second_days.push((y, m, d));
        }
    }
    let sec_stride: u32 = match (ctx.stage, ctx.tier) {
        (Stage::Native, _) => 1,
        (Stage::Asan, _) => 61,
        _ => 30011,
    };
    for (i, &(y, m, d)) in second_days.iter().enumerate() {
        if (i as u64) % nshards != shard {
            continue;
        }
        let days = days_from_civil(y, m, d);
        let mut sod = 0u32;
        while sod < 86_400 {
            let (h, mi, s) = (sod / 3600, sod / 60 % 60, sod % 60);
            check_second(ctx, &mut c, &mut buf, y, m, d, h, mi, s, days, sod % 3600 == 0);
            sod += sec_stride;
        }
        if sec_stride > 1 {
            check_second(ctx, &mut c, &mut buf, y, m, d, 23, 59, 59, days, true);
        }
        let enc = if canonical_tag(y) == T_UTC { "utctime" } else { "generalizedtime" };
        ctx.sig(&format!("every-second {enc} {:04}-{:02}-{:02} {}", y, m, d, date_class(y, m, d)));
    }
    for &(h, mi, s) in &times {
        ctx.sig(&format!("time-of-day {}", tod_class(h, mi, s)));
    }
    ctx.evals(c.evals);
    ctx.obs("encoded_as_utctime", c.utc);
    ctx.obs("encoded_as_generalizedtime", c.gen);
    if shard == 0 {
        for &(y, m, d, h, mi, s) in &[(1949i64, 12u32, 31u32, 23u32, 59u32, 59u32), (1950, 1, 1, 0, 0, 0), (2049, 12, 31, 23, 59, 59), (2050, 1, 1, 0, 0, 0), (1, 1, 1, 0, 0, 0)] {
            let instant = instant_of(y, m, d, h, mi, s);
            if let Some(t) = time_from_instant(instant) {
                encode_into(t.encode_varied(), &mut buf);
                let back = lib_take_from(&buf).map(|t| t.timestamp());
                let der = hex(&buf);
                ctx.sample("roundtrip", || json!({"date": format!("{:04}-{:02}-{:02}T{:02}:{:02}:{:02}Z", y, m, d, h, mi, s), "oracle_instant": instant, "der": der, "decoded_instant": back}));
            }
        }
    }
}

//============ Part 2: decoding near-valid strings =============================

const ALPHABET: &[u8] = b"0123456789+- Zz.:";

fn char_class(b: u8) -> &'static str {
    match b {
        b'0'..=b'9' => "digit",
        b'+' | b'-' => "sign",
        b' ' => "space",
        b'Z' => "Z",
        b'z' => "z",
        b'.' | b':' => "punct",
        0x80..=0xff => "non-ascii",
        0..=0x1f | 0x7f => "control",
        _ => "other",
    }
}

fn field_of(tag: u8, pos: usize) -> &'static str {
    let ylen = if tag == T_UTC { 2 } else { 4 };
    if pos < ylen {
        "year"
    } else {
        match (pos - ylen) / 2 {
            0 => "month",
            1 => "day",
            2 => "hour",
            3 => "minute",
            4 => "second",
            _ => "Z",
        }
    }
}

struct DecodeStats {
    evals: u64,
    accepted: u64,
    rejected: u64,
    unspecified: u64,
    valid_noncanonical_rejected: u64,
}

/// Judges one TLV against the oracle through both decoder entry points.
fn check_decode(ctx: &mut Ctx, st: &mut DecodeStats, tag: u8, content: &[u8], tlv: &[u8], class: &str) {
    let expect = oracle_parse(tag, content);
    let got = [("take_from", lib_take_from(tlv)), ("take_opt_from", lib_take_opt_from(tlv))];
    st.evals += 2;
    let lit = |got: &[(&str, Option<Time>); 2]| {
        json!({
            "tag": format!("0x{:02x}", tag),
            "content_ascii": ascii(content),
            "der": hex(tlv),
            "oracle": format!("{:?}", expect),
            "take_from": got[0].1.map(|t| t.to_rfc3339()),
            "take_opt_from": got[1].1.map(|t| t.to_rfc3339()),
            "mutation": class,
        })
    };
    let any_accept = got.iter().any(|g| g.1.is_some());
    if any_accept {
        st.accepted += 1;
    } else {
        st.rejected += 1;
    }
    match expect {
        Parsed::Reject(reason) => {
            if any_accept {
                ctx.violation(
                    &format!("C17:time-decode:accepted-invalid:{}", reason.text()),
                    &format!("time value '{}' (tag 0x{:02x}) is accepted although it is not a strict form: {}", ascii(content), tag, reason.text()),
                    lit(&got),
                );
            }
            ctx.sig(&format!("decode {} {} oracle=reject:{} lib={}", if tag == T_UTC { "utc" } else if tag == T_GEN { "gen" } else { "othertag" }, class, reason.text().split("-0x").next().unwrap_or(""), if any_accept { "accept" } else { "reject" }));
        }
        Parsed::Unspecified => {
            st.unspecified += 1;
            ctx.obs(if any_accept { "year0000_accepted" } else { "year0000_rejected" }, 1);
        }
        Parsed::Accept { instant, year } => {
            for (name, g) in &got {
                match g {
                    Some(t) => {
                        if instant_of_time(t) != (instant, 0) {
                            ctx.violation(
                                &format!("C17:time-decode:wrong-instant:{}", if tag == T_UTC { "utctime" } else { "generalizedtime" }),
                                &format!("{} decodes '{}' to instant {:?}, the calendar says {}", name, ascii(content), instant_of_time(t), instant),
                                lit(&got),
                            );
                        }
                    }
                    None => {
                        if canonical_tag(year) == tag {
                            ctx.violation(
                                &format!("C17:time-decode:rejected-valid:{}", if tag == T_UTC { "utctime" } else { "generalizedtime" }),
                                &format!("{} rejects the valid canonical time '{}'", name, ascii(content)),
                                lit(&got),
                            );
                        } else {
                            st.valid_noncanonical_rejected += 1;
                        }
                    }
                }
            }
            ctx.sig(&format!("decode {} {} oracle=accept lib={}", if tag == T_UTC { "utc" } else { "gen" }, class, if any_accept { "accept" } else { "reject" }));
        }
    }
}

fn decode_content(ctx: &mut Ctx, st: &mut DecodeStats, tag: u8, content: &[u8], class: &str) {
    let tlv = der::tlv(tag, content);
    check_decode(ctx, st, tag, content, &tlv, class);
}

/// Valid base strings (tag, content).
fn base_strings(ctx: &Ctx, n: usize) -> Vec<(u8, Vec<u8>)> {
    let mut out: Vec<(u8, Vec<u8>)> = Vec::new();
    let fixed_utc = [
        "500101000000Z", "491231235959Z", "000229120000Z", "990228235959Z", "200101000000Z", "240229000000Z", "381019031407Z", "700101000000Z",
        "691231235959Z", "101010101010Z", "121212121212Z", "310731233000Z",
    ];
    let fixed_gen = [
        "00010101000000Z", "99991231235959Z", "19491231235959Z", "20500101000000Z", "19000228235959Z", "20000229000000Z", "21000228120000Z",
        "24000229235959Z", "15821015000000Z", "10101010101010Z", "20200101000000Z", "00040229000000Z",
    ];
    for s in fixed_utc {
        out.push((T_UTC, s.as_bytes().to_vec()));
    }
    for s in fixed_gen {
        out.push((T_GEN, s.as_bytes().to_vec()));
    }
    let mut rng = ctx.rng("decode-bases");
    // the base list must be the same in every shard: derive from seed only
    let mut rng_all = crate::core::Rng::derive(ctx.seed, &["C17", "decode-bases"], &[]);
    let _ = &mut rng;
    while out.len() < n {
        let utc = rng_all.bool();
        let y: i64 = if utc { 1950 + rng_all.below(100) as i64 } else { 1 + rng_all.below(9999) as i64 };
        let m = 1 + rng_all.below(12) as u32;
        let d = match rng_all.below(4) {
            0 => days_in_month(y, m),
            1 => 1,
            _ => 1 + rng_all.below(days_in_month(y, m) as u64) as u32,
        };
        let (h, mi, s) = match rng_all.below(4) {
            0 => (23, 59, 59),
            1 => (0, 0, 0),
            _ => (rng_all.below(24) as u32, rng_all.below(60) as u32, rng_all.below(60) as u32),
        };
        let text = if utc {
            format!("{:02}{:02}{:02}{:02}{:02}{:02}Z", y % 100, m, d, h, mi, s)
        } else {
            format!("{:04}{:02}{:02}{:02}{:02}{:02}Z", y, m, d, h, mi, s)
        };
        out.push((if utc { T_UTC } else { T_GEN }, text.into_bytes()));
    }
    out.truncate(n);
    out
}

fn part_decode(ctx: &mut Ctx) {
    let mut st = DecodeStats { evals: 0, accepted: 0, rejected: 0, unspecified: 0, valid_noncanonical_rejected: 0 };
    let nshards = ctx.nshards.max(1);
    let (nbases, doubles, all_bytes): (usize, bool, bool) = match (ctx.stage, ctx.tier) {
        (Stage::Native, Tier::Thorough) => (1000, true, true),
        (Stage::Native, Tier::Quick) => (40, true, true),
        (Stage::Asan, _) => (24, true, false),
        _ => (4, false, false),
    };
    let miri_like = !matches!(ctx.stage, Stage::Native | Stage::Asan);
    let mut bases = base_strings(ctx, nbases.max(24));
    if miri_like {
        // two UTCTime and two GeneralizedTime bases from the fixed list
        let pick: &[usize] = if nshards > 4 { &[0, 12, 2, 17, 5, 20, 7, 14] } else { &[0, 12, 2, 17] };
        bases = pick.iter().map(|&i| bases[i].clone()).collect();
    }
    let thin = |k: usize, m: usize| -> bool { miri_like && k % m != 0 };
    for (bi, (tag, base)) in bases.iter().enumerate() {
        if (bi as u64) % nshards != ctx.shard {
            continue;
        }
        let tag = *tag;
        let kind = if tag == T_UTC { "utc" } else { "gen" };
        // the base itself
        decode_content(ctx, &mut st, tag, base, "valid-base");
        let n = base.len();
        let mut work = base.clone();
        // single substitutions
        for p in 0..n {
            if miri_like && p % 6 != bi % 6 {
                continue;
            }
            for &ch in ALPHABET {
                if ch == base[p] {
                    continue;
                }
                work[p] = ch;
                let class = format!("sub1 {}:{}", field_of(tag, p), char_class(ch));
                decode_content(ctx, &mut st, tag, &work, &class);
            }
            if all_bytes {
                for ch in 0..=255u8 {
                    if ch == base[p] || ALPHABET.contains(&ch) {
                        continue;
                    }
                    work[p] = ch;
                    let class = format!("sub1 {}:{}", field_of(tag, p), char_class(ch));
                    decode_content(ctx, &mut st, tag, &work, &class);
                }
            }
            work[p] = base[p];
        }
        // double substitutions
        if doubles {
            for p in 0..n {
                for q in p + 1..n {
                    for &c1 in ALPHABET {
                        if c1 == base[p] {
                            continue;
                        }
                        work[p] = c1;
                        for &c2 in ALPHABET {
                            if c2 == base[q] {
                                continue;
                            }
                            work[q] = c2;
                            let tlv = der::tlv(tag, &work);
                            // class strings are built lazily: only the (field, class) pair
                            let class = [field_of(tag, p), ":", char_class(c1), "+", field_of(tag, q), ":", char_class(c2)].concat();
                            check_decode(ctx, &mut st, tag, &work, &tlv, &format!("sub2 {class}"));
                        }
                        work[q] = base[q];
                    }
                    work[p] = base[p];
                }
            }
        }
        // length changes
        for cut in 0..n {
            if thin(cut, 3) {
                continue;
            }
            decode_content(ctx, &mut st, tag, &base[..cut], "truncated");
            let mut v = base[..cut].to_vec();
            v.push(b'Z');
            if v.len() != n {
                decode_content(ctx, &mut st, tag, &v, "truncated+Z");
            }
        }
        for p in 0..n {
            if thin(p, 3) {
                continue;
            }
            let mut v = base.clone();
            v.remove(p);
            decode_content(ctx, &mut st, tag, &v, "deleted-one");
            if miri_like {
                continue;
            }
            for &ch in ALPHABET {
                let mut v = base.clone();
                v.insert(p, ch);
                decode_content(ctx, &mut st, tag, &v, &format!("inserted-one {}", char_class(ch)));
            }
        }
        for (k, &ch) in ALPHABET.iter().enumerate() {
            if thin(k + 2, 4) {
                continue;
            }
            let mut v = base.clone();
            v.push(ch);
            decode_content(ctx, &mut st, tag, &v, &format!("appended-after-Z {}", char_class(ch)));
        }
        // other ASN.1 time shapes that RFC 5280 excludes
        let body = &base[..n - 1];
        let mut shapes: Vec<(Vec<u8>, &str)> = Vec::new();
        shapes.push(([&body[..n - 3], b"Z"].concat(), "seconds-omitted"));
        shapes.push(([body, b".0Z"].concat(), "fraction"));
        shapes.push(([body, b".000Z"].concat(), "fraction"));
        shapes.push(([body, b",5Z"].concat(), "fraction"));
        shapes.push(([body, b"+0000"].concat(), "offset"));
        shapes.push(([body, b"-0100"].concat(), "offset"));
        shapes.push(([&body[..n - 3], b"+0000"].concat(), "offset"));
        shapes.push((body.to_vec(), "no-terminator"));
        shapes.push(([body, b"z"].concat(), "lowercase-z"));
        shapes.push(([b" ", body].concat(), "leading-space"));
        shapes.push(([b"+", &body[1..], b"Z"].concat(), "plus-for-first-digit"));
        shapes.push(([b"-", &body[1..], b"Z"].concat(), "minus-for-first-digit"));
        for (v, class) in &shapes {
            decode_content(ctx, &mut st, tag, v, class);
        }
        // the same content under the other time tag and under non-time tags
        let other = if tag == T_UTC { T_GEN } else { T_UTC };
        decode_content(ctx, &mut st, other, base, &format!("{kind}-content-under-other-time-tag"));
        for (k, &t) in [der::T_IA5, der::T_PRINTABLE, der::T_UTF8, der::T_OCTETSTRING, der::T_INTEGER, 0x37, 0x38, 0x97, 0x1a].iter().enumerate() {
            if thin(k, 3) {
                continue;
            }
            decode_content(ctx, &mut st, t, base, "non-time-tag");
        }
    }
    // calendar-invalid dates: every (month, day) in 00..=99 x 00..=99 for a set of years,
    // every hour / minute / second 00..=99
    let years_gen: &[i64] = &[1, 1900, 2000, 2023, 2024, 2100, 9999, 0];
    let years_utc: &[i64] = &[1950, 2049, 2000, 1999, 2023, 2024, 1900 + 50];
    let md_step: usize = match ctx.stage {
        Stage::Native => 1,
        Stage::Asan => 3,
        _ => 997,
    };
    let mut idx = 0usize;
    for (is_utc, years) in [(false, years_gen), (true, years_utc)] {
        for &y in years {
            idx += 1;
            if (idx as u64) % nshards != ctx.shard || (miri_like && idx as u64 / nshards % 4 != 0) {
                continue;
            }
            let tag = if is_utc { T_UTC } else { T_GEN };
            let ytext = if is_utc { format!("{:02}", y % 100) } else { format!("{:04}", y) };
            let mut k = 0usize;
            for mo in 0..100u32 {
                for d in 0..100u32 {
                    k += 1;
                    if k % md_step != 0 {
                        continue;
                    }
                    let text = format!("{ytext}{:02}{:02}120000Z", mo, d);
                    let class = if (1..=12).contains(&mo) && (28..=32).contains(&d) { "calendar month-end" } else if mo == 0 || mo == 13 || d == 0 { "calendar zero-or-13" } else { "calendar grid" };
                    decode_content(ctx, &mut st, tag, text.as_bytes(), class);
                }
            }
            for v in 0..100u32 {
                if miri_like && !matches!(v, 0 | 23 | 24 | 59 | 60 | 99) {
                    continue;
                }
                for (fi, field) in ["hour", "minute", "second"].iter().enumerate() {
                    let mut hms = [12u32, 30, 30];
                    hms[fi] = v;
                    let text = format!("{ytext}0228{:02}{:02}{:02}Z", hms[0], hms[1], hms[2]);
                    let class = format!("clock {} {}", field, if v == 24 || v == 60 { "first-invalid" } else if v < 24 || (fi > 0 && v < 60) { "valid" } else { "invalid" });
                    decode_content(ctx, &mut st, tag, text.as_bytes(), &class);
                }
            }
        }
    }
    ctx.evals(st.evals);
    ctx.obs("decode_inputs_accepted", st.accepted);
    ctx.obs("decode_inputs_rejected", st.rejected);
    ctx.obs("decode_year0000_inputs", st.unspecified);
    ctx.obs("decode_valid_noncanonical_rejected", st.valid_noncanonical_rejected);
    if ctx.shard == 0 {
        for (tag, text) in [(T_UTC, "200230000000Z"), (T_UTC, "2001010000 0Z"), (T_GEN, "21000229000000Z"), (T_GEN, "20000229000000Z"), (T_UTC, "500101000000Z"), (T_UTC, "200101240000Z")] {
            let tlv = der::tlv(tag, text.as_bytes());
            let got = lib_take_from(&tlv).map(|t| t.to_rfc3339());
            let exp = format!("{:?}", oracle_parse(tag, text.as_bytes()));
            ctx.sample("decode", || json!({"tag": format!("0x{:02x}", tag), "content": text, "oracle": exp, "take_from": got}));
        }
    }
}

//============ Part 3: Validity ================================================

fn instant_pool(ctx: &Ctx, n: usize) -> Vec<i64> {
    let mut pool: Vec<i64> = Vec::new();
    let anchors = [
        instant_of(1, 1, 1, 0, 0, 0),
        instant_of(1949, 12, 31, 23, 59, 59),
        instant_of(1970, 1, 1, 0, 0, 0),
        instant_of(2020, 2, 29, 12, 0, 0),
        instant_of(2038, 1, 19, 3, 14, 7),
        instant_of(2049, 12, 31, 23, 59, 59),
        instant_of(9999, 12, 31, 23, 59, 58),
    ];
    for a in anchors {
        pool.push(a - 1);
        pool.push(a);
        pool.push(a + 1);
    }
    pool.retain(|&t| t >= instant_of(1, 1, 1, 0, 0, 0) && t <= instant_of(9999, 12, 31, 23, 59, 59));
    let mut rng = crate::core::Rng::derive(ctx.seed, &["C17", "pool"], &[]);
    while pool.len() < n {
        let base = *rng.pick(&anchors);
        let t = match rng.below(3) {
            0 => base + rng.below(5) as i64 - 2,
            1 => base + rng.below(200_000) as i64 - 100_000,
            _ => instant_of(1, 1, 1, 0, 0, 0) + rng.below(315_537_897_600) as i64,
        };
        if t >= instant_of(1, 1, 1, 0, 0, 0) && t <= instant_of(9999, 12, 31, 23, 59, 59) {
            pool.push(t);
        }
    }
    pool.sort();
    pool.dedup();
    if pool.len() > n {
        // thin out evenly so that early and late instants both stay
        let len = pool.len();
        pool = (0..n).map(|i| pool[i * len / n]).collect();
    }
    pool
}

fn rel(a: i64, b: i64) -> &'static str {
    match a.cmp(&b) {
        Ordering::Less => {
            if b - a == 1 {
                "one-before"
            } else {
                "before"
            }
        }
        Ordering::Equal => "equal",
        Ordering::Greater => {
            if a - b == 1 {
                "one-after"
            } else {
                "after"
            }
        }
    }
}

fn part_validity(ctx: &mut Ctx) {
    let (npool, nwin): (usize, usize) = match (ctx.stage, ctx.tier) {
        (Stage::Native, Tier::Thorough) => (64, 32),
        (Stage::Native, Tier::Quick) => (40, 12),
        (Stage::Asan, _) => (24, 8),
        _ => (5, 2),
    };
    let pool = instant_pool(ctx, npool);
    let times: Vec<Time> = pool.iter().map(|&t| time_from_instant(t).expect("pool instant")).collect();
    let nshards = ctx.nshards.max(1);
    let mut evals = 0u64;
    let (mut acc, mut rej) = (0u64, 0u64);
    // verify_at over all triples
    for (i, &nb) in pool.iter().enumerate() {
        if (i as u64) % nshards != ctx.shard {
            continue;
        }
        for (j, &na) in pool.iter().enumerate() {
            let v = Validity::new(times[i], times[j]);
            if v.not_before() != times[i] || v.not_after() != times[j] {
                ctx.violation("C17:validity:accessors", "Validity::new does not keep its bounds", json!({"not_before": nb, "not_after": na}));
            }
            for (k, &now) in pool.iter().enumerate() {
                let want = nb <= now && now <= na;
                let got = v.verify_at(times[k]).is_ok();
                evals += 1;
                if got {
                    acc += 1;
                } else {
                    rej += 1;
                }
                if got != want {
                    let what = if want { "rejected-inside" } else { "accepted-outside" };
                    ctx.violation(
                        &format!("C17:validity:verify_at:{}:now-{}-not_before:now-{}-not_after", what, rel(now, nb), rel(now, na)),
                        &format!("verify_at = {} but not_before <= now <= not_after is {}", got, want),
                        json!({"not_before": nb, "not_after": na, "now": now,
                               "not_before_text": times[i].to_rfc3339(), "not_after_text": times[j].to_rfc3339(), "now_text": times[k].to_rfc3339()}),
                    );
                }
                if evals % 7 == 0 || now == nb || now == na {
                    ctx.sig(&format!("verify_at now {} not_before, {} not_after, window {}", rel(now, nb), rel(now, na), if nb <= na { "non-empty" } else { "empty" }));
                }
                // the two halves on their own
                let g1 = times[i].verify_not_before(times[k]).is_ok();
                let g2 = times[j].verify_not_after(times[k]).is_ok();
                evals += 2;
                if g1 != (nb <= now) {
                    ctx.violation(&format!("C17:validity:verify_not_before:now-{}", rel(now, nb)), "verify_not_before disagrees with not_before <= now", json!({"not_before": nb, "now": now}));
                }
                if g2 != (now <= na) {
                    ctx.violation(&format!("C17:validity:verify_not_after:now-{}", rel(now, na)), "verify_not_after disagrees with now <= not_after", json!({"not_after": na, "now": now}));
                }
            }
        }
    }
    ctx.obs("verify_at_accepted", acc);
    ctx.obs("verify_at_rejected", rej);
    // evaluation instants are not whole seconds in practice: a fraction of a
    // second outside either end is outside, a fraction inside is inside
    {
        let frac = |secs: i64, nanos: u32| DateTime::<Utc>::from_timestamp(secs, nanos).map(Time::new);
        let mut sub_evals = 0u64;
        for i in 0..pool.len().min(24) {
            for j in i..pool.len().min(24) {
                let (nb, na) = (pool[i], pool[j]);
                let v = Validity::new(times[i], times[j]);
                let probes: [(&str, i64, u32, bool); 6] = [
                    ("1ms-after-not_after", na, 1_000_000, false),
                    ("999ms-after-not_after", na, 999_000_000, false),
                    ("1ns-after-not_after", na, 1, false),
                    ("1ms-before-not_before", nb - 1, 999_000_000, false),
                    ("1ms-after-not_before", nb, 1_000_000, nb < na),
                    ("1ms-before-not_after", na - 1, 999_000_000, nb < na),
                ];
                for (what, secs, nanos, want) in probes {
                    let Some(now) = frac(secs, nanos) else { continue };
                    let got = v.verify_at(now).is_ok();
                    sub_evals += 1;
                    if got != want {
                        ctx.violation(
                            &format!("C17:validity:verify_at:sub-second:{}", what),
                            &format!("verify_at = {} at an instant {} (window {}..{}), expected {}", got, what, nb, na, want),
                            json!({"not_before": nb, "not_after": na, "now_seconds": secs, "now_nanos": nanos}),
                        );
                    }
                    ctx.sig(&format!("verify_at sub-second {} window {}", what, if nb < na { "non-empty" } else { "instant" }));
                }
            }
        }
        ctx.evals(sub_evals);
    }
    // trim over all pairs of windows built from a sub-pool, probed with the whole pool
    let step = (pool.len() / nwin).max(1);
    let sub: Vec<usize> = (0..pool.len()).step_by(step).take(nwin).collect();
    let mut windows: Vec<(usize, usize)> = Vec::new();
    for &a in &sub {
        for &b in &sub {
            windows.push((a, b));
        }
    }
    let mut buf = Vec::new();
    for (wi, &(a1, b1)) in windows.iter().enumerate() {
        if (wi as u64) % nshards != ctx.shard {
            continue;
        }
        let w1 = Validity::new(times[a1], times[b1]);
        // DER round trip of the window itself
        encode_into(w1.encode(), &mut buf);
        evals += 1;
        match Mode::Der.decode(buf.as_slice(), Validity::take_from) {
            Ok(back) if back == w1 => {}
            other => {
                ctx.violation(
                    "C17:validity:der-roundtrip",
                    "Validity::encode -> take_from does not give the same window",
                    json!({"not_before": pool[a1], "not_after": pool[b1], "der": hex(&buf), "decoded": format!("{:?}", other.ok())}),
                );
            }
        }
        for &(a2, b2) in &windows {
            let w2 = Validity::new(times[a2], times[b2]);
            let t = w1.trim(w2);
            let (lo, hi) = (pool[a1].max(pool[a2]), pool[b1].min(pool[b2]));
            let nonempty = lo <= hi;
            evals += 1;
            if nonempty {
                // a non-empty intersection has exactly these bounds
                let got = (t.not_before().timestamp(), t.not_after().timestamp());
                if got != (lo, hi) {
                    ctx.violation(
                        "C17:validity:trim:bounds",
                        &format!("trim gives [{}, {}], the intersection is [{}, {}]", got.0, got.1, lo, hi),
                        json!({"a": [pool[a1], pool[b1]], "b": [pool[a2], pool[b2]]}),
                    );
                }
            }
            for (k, &now) in pool.iter().enumerate() {
                let want = pool[a1] <= now && now <= pool[b1] && pool[a2] <= now && now <= pool[b2];
                let got = t.verify_at(times[k]).is_ok();
                evals += 1;
                if got != want {
                    ctx.violation(
                        &format!("C17:validity:trim:membership:{}", if want { "lost-common-instant" } else { "gained-instant" }),
                        &format!("instant {} is {} both windows but trim().verify_at says {}", now, if want { "in" } else { "not in" }, got),
                        json!({"a": [pool[a1], pool[b1]], "b": [pool[a2], pool[b2]], "now": now}),
                    );
                }
            }
            let shape = if pool[a1] > pool[b1] || pool[a2] > pool[b2] {
                "an-operand-empty"
            } else if !nonempty {
                "disjoint"
            } else if lo == hi {
                "touching-one-second"
            } else if (lo, hi) == (pool[a1], pool[b1]) || (lo, hi) == (pool[a2], pool[b2]) {
                "nested"
            } else {
                "overlapping"
            };
            ctx.sig(&format!("trim {shape}"));
        }
    }
    ctx.evals(evals);
    if ctx.shard == 0 && pool.len() >= 3 {
        let v = Validity::new(times[1], times[2]);
        ctx.sample("verify_at", || json!({"not_before": pool[1], "not_after": pool[2], "now": pool[2], "expected": true, "observed": v.verify_at(times[2]).is_ok()}));
        ctx.sample("verify_at", || json!({"not_before": pool[1], "not_after": pool[1], "now": pool[2], "expected": false, "observed": Validity::new(times[1], times[1]).verify_at(times[2]).is_ok()}));
    }
}

//============ Part 4: Serial ==================================================

/// Decimal text of an unsigned big-endian integer ("0" for zero).
fn big_decimal(bytes: &[u8]) -> String {
    // limbs base 2^32, most significant first
    let mut limbs: Vec<u32> = Vec::new();
    let pad = (4 - bytes.len() % 4) % 4;
    let mut padded = vec![0u8; pad];
    padded.extend_from_slice(bytes);
    for c in padded.chunks(4) {
        limbs.push(u32::from_be_bytes([c[0], c[1], c[2], c[3]]));
    }
    let mut groups: Vec<u32> = Vec::new(); // base 10^9, least significant first
    loop {
        let mut rem: u64 = 0;
        let mut all_zero = true;
        for l in limbs.iter_mut() {
            let cur = (rem << 32) | *l as u64;
            *l = (cur / 1_000_000_000) as u32;
            rem = cur % 1_000_000_000;
            if *l != 0 {
                all_zero = false;
            }
        }
        groups.push(rem as u32);
        if all_zero {
            break;
        }
    }
    let mut s = format!("{}", groups.pop().unwrap());
    while let Some(g) = groups.pop() {
        s.push_str(&format!("{:09}", g));
    }
    s
}

/// Big-integer comparison independent of byte-wise array comparison: by
/// significant length first, then by 64-bit words.
fn big_cmp(a: &[u8; 20], b: &[u8; 20]) -> Ordering {
    fn parts(x: &[u8; 20]) -> (u32, u64, u64) {
        (
            u32::from_be_bytes([x[0], x[1], x[2], x[3]]),
            u64::from_be_bytes([x[4], x[5], x[6], x[7], x[8], x[9], x[10], x[11]]),
            u64::from_be_bytes([x[12], x[13], x[14], x[15], x[16], x[17], x[18], x[19]]),
        )
    }
    let (a, b) = (parts(a), parts(b));
    if a.0 != b.0 {
        return if a.0 < b.0 { Ordering::Less } else { Ordering::Greater };
    }
    if a.1 != b.1 {
        return if a.1 < b.1 { Ordering::Less } else { Ordering::Greater };
    }
    if a.2 != b.2 {
        return if a.2 < b.2 { Ordering::Less } else { Ordering::Greater };
    }
    Ordering::Equal
}

fn serial_values(ctx: &Ctx, random: usize) -> Vec<[u8; 20]> {
    let mut out: Vec<[u8; 20]> = Vec::new();
    let mut push = |v: [u8; 20]| out.push(v);
    push([0; 20]);
    // every significant length with boundary leading octets and fills
    for len in 1..=20usize {
        for &lead in &[0x01u8, 0x0a, 0x3f, 0x40, 0x7f, 0x80, 0x81, 0xbf, 0xc0, 0xff] {
            for fill in 0..4 {
                let mut v = [0u8; 20];
                v[20 - len] = lead;
                for (k, b) in v.iter_mut().enumerate().skip(20 - len + 1) {
                    *b = match fill {
                        0 => 0x00,
                        1 => 0xff,
                        2 => {
                            if k == 19 {
                                0x01
                            } else {
                                0x00
                            }
                        }
                        _ => 0x80,
                    };
                }
                push(v);
            }
        }
    }
    // 2^k and 2^k - 1
    for k in 0..160usize {
        let mut v = [0u8; 20];
        v[19 - k / 8] = 1 << (k % 8);
        push(v);
        let mut w = [0u8; 20];
        for (i, b) in w.iter_mut().enumerate() {
            let bit_hi = (19 - i) * 8; // lowest bit index of this octet
            *b = if bit_hi + 8 <= k {
                0xff
            } else if bit_hi < k {
                (1u16 << (k - bit_hi)) as u8 - 1
            } else {
                0
            };
        }
        push(w);
    }
    // 10^k - 1, 10^k, 10^k + 1 (decimal length boundaries), by repeated multiplication
    let mut p = [0u8; 20];
    p[19] = 1;
    for _k in 0..48 {
        let mut minus = p;
        for i in (0..20).rev() {
            if minus[i] == 0 {
                minus[i] = 0xff;
            } else {
                minus[i] -= 1;
                break;
            }
        }
        let mut plus = p;
        for i in (0..20).rev() {
            if plus[i] == 0xff {
                plus[i] = 0;
            } else {
                plus[i] += 1;
                break;
            }
        }
        push(minus);
        push(p);
        push(plus);
        // p *= 10
        let mut carry: u16 = 0;
        let mut overflow = false;
        for i in (0..20).rev() {
            let x = p[i] as u16 * 10 + carry;
            p[i] = x as u8;
            carry = x >> 8;
        }
        if carry != 0 {
            overflow = true;
        }
        if overflow {
            break;
        }
    }
    {
        let mut seen = std::collections::HashSet::new();
        out.retain(|v| seen.insert(*v));
    }
    let mut rng = ctx.rng("serials");
    for i in 0..random {
        let mut v = [0u8; 20];
        let len = 1 + rng.usize_below(20);
        let r = rng.bytes(len);
        v[20 - len..].copy_from_slice(&r);
        if i % 4 != 0 {
            v[0] &= 0x7f;
        }
        if i % 5 == 0 {
            // runs of 00 / ff
            let a = rng.usize_below(20);
            let b = a + rng.usize_below(20 - a);
            let fillb = if rng.bool() { 0x00 } else { 0xff };
            for x in &mut v[a..=b] {
                *x = fillb;
            }
        }
        out.push(v);
    }
    out
}

/// A hand-picked boundary list for the interpreter stage (building the big
/// list alone would take the whole budget there), plus random values.
fn serial_values_small(ctx: &Ctx, random: usize) -> Vec<[u8; 20]> {
    fn at(pairs: &[(usize, u8)]) -> [u8; 20] {
        let mut v = [0u8; 20];
        for &(i, b) in pairs {
            v[i] = b;
        }
        v
    }
    let mut out = vec![
        [0u8; 20],
        at(&[(19, 1)]),
        at(&[(19, 9)]),
        at(&[(19, 10)]),
        at(&[(19, 0x7f)]),
        at(&[(19, 0x80)]),
        at(&[(19, 0xff)]),
        at(&[(18, 1)]),
        at(&[(18, 0x80)]),
        at(&[(11, 1)]),                                   // 2^64
        at(&[(12, 0x8a), (13, 0xc7), (14, 0x23), (15, 0x04), (16, 0x89), (17, 0xe8)]), // 10^19
        at(&[(4, 0x80)]),                                 // 2^127
        at(&[(0, 0x01)]),                                 // 2^152
        at(&[(0, 0x40)]),
        at(&[(0, 0x80)]),                                 // not representable
    ];
    let mut max = [0xffu8; 20];
    max[0] = 0x7f;
    out.push(max); // 2^159 - 1: 48 decimal digits
    let mut w = [0xffu8; 20];
    w[..12].fill(0);
    out.push(w); // 2^64 - 1
    let mut rng = ctx.rng("serials");
    for _ in 0..random {
        let mut v = [0u8; 20];
        let len = 1 + rng.usize_below(20);
        let r = rng.bytes(len);
        v[20 - len..].copy_from_slice(&r);
        v[0] &= 0x7f;
        out.push(v);
    }
    out
}

fn serial_class(v: &[u8; 20]) -> String {
    let first = v.iter().position(|&b| b != 0);
    match first {
        None => "zero".into(),
        Some(i) => format!("len{} lead-{}", 20 - i, if v[i] & 0x80 != 0 { "high-bit" } else if v[i] >= 0x40 { "0x40-0x7f" } else { "low" }),
    }
}

fn part_serial(ctx: &mut Ctx) {
    let random = ctx.stage_budget((60_000, 10_000_000), 20_000, if ctx.tier == Tier::Thorough { 64 } else { 24 }, 0) as usize;
    let nshards = ctx.nshards.max(1);
    let values = if ctx.is_miri() { serial_values_small(ctx, random) } else { serial_values(ctx, random) };
    let mut evals = 0u64;
    let (mut n_ok, mut n_top) = (0u64, 0u64);
    let mut built: Vec<([u8; 20], Serial)> = Vec::new();
    let mut buf = Vec::new();
    let boundary_count = values.len() - random.min(values.len());
    for (idx, v) in values.iter().enumerate() {
        // boundary values are split by index, random ones are already per shard
        if idx < boundary_count && (idx as u64) % nshards != ctx.shard {
            continue;
        }
        let lit = |extra: serde_json::Value| json!({"octets": hex(v), "observed": extra});
        let from_array = Serial::from_array(*v);
        evals += 1;
        if v[0] & 0x80 != 0 {
            // not representable as a 20-octet positive INTEGER content: rejection expected, not demanded
            n_top += 1;
            ctx.obs(if from_array.is_err() { "serial_high_bit_rejected" } else { "serial_high_bit_accepted" }, 1);
            continue;
        }
        let s = match from_array {
            Ok(s) => s,
            Err(_) => {
                ctx.violation("C17:serial:from_array-rejects-valid", "a 20-octet value with the top bit clear is rejected", lit(json!(null)));
                continue;
            }
        };
        n_ok += 1;
        ctx.sig(&format!("serial {}", serial_class(v)));
        if s.into_array() != *v {
            ctx.violation("C17:serial:into_array", "into_array differs from the octets given", lit(json!(hex(&s.into_array()))));
        }
        // from_slice with minimal and padded slices
        let first = v.iter().position(|&b| b != 0).unwrap_or(19);
        for start in [first, first.saturating_sub(1), 0] {
            evals += 1;
            match Serial::from_slice(&v[start..]) {
                Ok(x) if x == s => {}
                Err(_) if start != first => ctx.obs("serial_from_slice_padded_rejected", 1),
                other => {
                    ctx.violation("C17:serial:from_slice", "from_slice of the same number gives another value", lit(json!({"slice_from": start, "got": format!("{:?}", other.ok())})));
                }
            }
        }
        // decimal text
        let want_dec = big_decimal(v);
        let shown = s.to_string();
        let as_string: String = s.into();
        evals += 2;
        let is_zero = v.iter().all(|&b| b == 0);
        if shown != as_string {
            ctx.violation("C17:serial:display-vs-string", "Display and String::from differ", lit(json!({"display": shown, "string": as_string})));
        }
        if is_zero {
            ctx.obs(if shown.is_empty() { "serial_zero_displays_as_empty_string" } else { "serial_zero_displays_as_0" }, 1);
            if !(shown.is_empty() || shown == "0") {
                ctx.violation("C17:serial:decimal-text", "decimal text of zero is neither '0' nor empty", lit(json!(shown)));
            }
        } else if shown != want_dec {
            ctx.violation(
                "C17:serial:decimal-text",
                &format!("decimal text is '{}', the number is {}", shown, want_dec),
                lit(json!({"display": shown, "oracle": want_dec})),
            );
        }
        for text in [&shown, &want_dec] {
            evals += 1;
            match Serial::from_str(text) {
                Ok(x) if x == s => {}
                other => {
                    ctx.violation(
                        "C17:serial:decimal-roundtrip",
                        &format!("from_str('{}') gives {:?}, expected the serial it was printed from", text, other.as_ref().ok().map(|x| hex(&x.into_array()))),
                        lit(json!(text)),
                    );
                }
            }
        }
        // serde uses the decimal text, too
        if idx % 7 == 0 {
            evals += 1;
            let j = serde_json::to_string(&s).unwrap_or_default();
            match serde_json::from_str::<Serial>(&j) {
                Ok(x) if x == s => {}
                other => {
                    ctx.violation("C17:serial:serde-roundtrip", "serde round trip changes the serial", lit(json!({"json": j, "got": format!("{:?}", other.ok())})));
                }
            }
        }
        // minimal DER INTEGER
        let want_der = der::uint_be(v);
        encode_into(s.encode(), &mut buf);
        evals += 2;
        if buf != want_der {
            let what = if buf.len() > want_der.len() { "not-minimal" } else if buf.len() < want_der.len() { "too-short" } else { "other-octets" };
            ctx.violation(
                &format!("C17:serial:der-integer:{}", what),
                &format!("DER is {}, minimal INTEGER is {}", hex(&buf), hex(&want_der)),
                lit(json!({"der": hex(&buf), "oracle": hex(&want_der)})),
            );
        }
        match Mode::Der.decode(want_der.as_slice(), Serial::take_from) {
            Ok(x) if x == s => {}
            other => {
                ctx.violation(
                    "C17:serial:der-decode",
                    "decoding the minimal INTEGER does not give the serial",
                    lit(json!({"der": hex(&want_der), "got": format!("{:?}", other.ok())})),
                );
            }
        }
        // integer constructors
        if v[..4].iter().all(|&b| b == 0) {
            let mut w = [0u8; 16];
            w.copy_from_slice(&v[4..]);
            evals += 1;
            if Serial::from(u128::from_be_bytes(w)) != s {
                ctx.violation("C17:serial:from-u128", "From<u128> gives another serial", lit(json!(null)));
            }
            if v[..12].iter().all(|&b| b == 0) {
                let mut w = [0u8; 8];
                w.copy_from_slice(&v[12..]);
                evals += 1;
                if Serial::from(u64::from_be_bytes(w)) != s {
                    ctx.violation("C17:serial:from-u64", "From<u64> gives another serial", lit(json!(null)));
                }
            }
        }
        built.push((*v, s));
    }
    // order: neighbours in numeric order, and random pairs
    let mut sorted = built.clone();
    sorted.sort_by(|a, b| big_cmp(&a.0, &b.0));
    let check_pair = |ctx: &mut Ctx, a: &([u8; 20], Serial), b: &([u8; 20], Serial)| {
        let want = big_cmp(&a.0, &b.0);
        let got = a.1.cmp(&b.1);
        if got != want || a.1.partial_cmp(&b.1) != Some(want) || (a.1 == b.1) != (want == Ordering::Equal) {
            ctx.violation(
                "C17:serial:order",
                &format!("cmp gives {:?}, numerically it is {:?}", got, want),
                json!({"a": hex(&a.0), "b": hex(&b.0)}),
            );
        }
        // decimal text order agrees once the texts are compared as numbers (length, then digits)
        let (da, db) = (big_decimal(&a.0), big_decimal(&b.0));
        let dec_order = da.len().cmp(&db.len()).then_with(|| da.cmp(&db));
        if dec_order != want {
            ctx.notes.push(format!("C17: oracle decimal order disagrees with oracle big_cmp for {} / {}", hex(&a.0), hex(&b.0)));
        }
    };
    for w in sorted.windows(2) {
        check_pair(ctx, &w[0], &w[1]);
        check_pair(ctx, &w[1], &w[0]);
        evals += 2;
    }
    let mut rng = ctx.rng("serial-pairs");
    if !built.is_empty() {
        let pairs = ctx.stage_budget((100_000, 10_000_000), 20_000, if ctx.tier == Tier::Thorough { 96 } else { 40 }, 0);
        for i in 0..pairs {
            let a = built[rng.usize_below(built.len())];
            let b = built[rng.usize_below(built.len())];
            check_pair(ctx, &a, &b);
            evals += 1;
            if i < 200 {
                ctx.sig(&format!("order {} vs {}", serial_class(&a.0), serial_class(&b.0)));
            }
        }
    }
    // digit strings the type cannot hold must not wrap silently; what else is
    // accepted is recorded, not judged
    if ctx.shard == 0 {
        let too_big = [
            "730750818665451459101842416358141509827966271488",  // 2^159
            "1461501637330902918203684832716283019655932542976", // 2^160
            "1461501637330902918203684832716283019655932542975", // 2^160 - 1
            "1000000000000000000000000000000000000000000000000", // 10^48
            "9999999999999999999999999999999999999999999999999",
            "730750818665451459101842416358141509827966271487", // 2^159 - 1: fits
            "00000000000000000000000000000000000000000000000000000007",
        ];
        for text in too_big {
            evals += 1;
            if let Ok(x) = Serial::from_str(text) {
                let back = big_decimal(&x.into_array());
                let canon = text.trim_start_matches('0');
                if back != canon {
                    ctx.violation(
                        "C17:serial:from_str-wrong-value",
                        &format!("from_str('{}') yields {}", text, back),
                        json!({"text": text, "value_octets": hex(&x.into_array())}),
                    );
                }
                ctx.obs("serial_from_str_large_or_padded_accepted", 1);
            } else {
                ctx.obs("serial_from_str_large_or_padded_rejected", 1);
            }
        }
        for text in ["", "+5", "-1", " 5", "5 ", "0x10", "1e3", "١٢"] {
            match Serial::from_str(text) {
                Ok(_) => ctx.obs("serial_from_str_nondecimal_accepted", 1),
                Err(_) => ctx.obs("serial_from_str_nondecimal_rejected", 1),
            }
        }
        let s = Serial::from(0x80u64);
        encode_into(s.encode(), &mut buf);
        let d = hex(&buf);
        ctx.sample("serial", || json!({"value": 128, "decimal": s.to_string(), "der": d, "oracle_der": hex(&der::uint_be(&[0x80]))}));
        let big = Serial::from_str("730750818665451459101842416358141509827966271487");
        ctx.sample("serial", || json!({"text": "2^159-1", "parsed_octets": big.ok().map(|x| hex(&x.into_array()))}));
    }
    ctx.evals(evals);
    ctx.obs("serial_values_checked", n_ok);
    ctx.obs("serial_values_with_high_bit", n_top);
}

//============ Part 5: the encoders into sinks that take fewer octets than offered

/// What a full sink answers.
#[derive(Clone, Copy, PartialEq, Eq, Debug)]
enum Edge {
    /// `Err(..)`, for good
    Error,
    /// `Ok(0)`, for good (what a fixed slice does)
    Zero,
}

/// An `io::Write` of the harness. Every `write` takes at most as many octets
/// as the next entry of `pattern` (cycled) allows; there is room for `room`
/// octets altogether; call number `fail_call` is answered with an error once
/// (the sink goes on accepting afterwards); every `interrupt_every`-th call is
/// answered with `ErrorKind::Interrupted` (which `write_all` retries).
struct Sink {
    out: Vec<u8>,
    pattern: Vec<usize>,
    room: usize,
    partial_at_edge: bool,
    at_edge: Edge,
    fail_call: Option<usize>,
    interrupt_every: usize,
    calls: usize,
    /// calls answered with a hard error or with Ok(0)
    refused: u64,
    /// calls that took fewer octets than offered
    short: u64,
}

impl Sink {
    fn new(pattern: Vec<usize>) -> Self {
        Sink { out: Vec::new(), pattern, room: usize::MAX, partial_at_edge: true, at_edge: Edge::Error, fail_call: None, interrupt_every: 0, calls: 0, refused: 0, short: 0 }
    }

    fn with_room(pattern: Vec<usize>, room: usize, partial_at_edge: bool, at_edge: Edge) -> Self {
        Sink { room, partial_at_edge, at_edge, ..Sink::new(pattern) }
    }

    fn spec(&self) -> serde_json::Value {
        let per_call: Vec<serde_json::Value> = self.pattern.iter().map(|&k| if k == usize::MAX { json!("everything offered") } else { json!(k) }).collect();
        json!({
            "octets_taken_per_call": per_call,
            "room": if self.room == usize::MAX { json!("unbounded") } else { json!(self.room) },
            "takes_the_part_that_fits_at_the_edge": self.partial_at_edge,
            "answer_when_full": format!("{:?}", self.at_edge),
            "call_answered_with_an_error_once": self.fail_call,
            "interrupted_every_nth_call": self.interrupt_every,
            "calls_seen": self.calls,
            "calls_refused": self.refused,
            "calls_taken_short": self.short,
        })
    }
}

impl std::io::Write for Sink {
    fn write(&mut self, buf: &[u8]) -> std::io::Result<usize> {
        if buf.is_empty() {
            return Ok(0);
        }
        let c = self.calls;
        self.calls += 1;
        if self.interrupt_every > 0 && c % self.interrupt_every == self.interrupt_every - 1 {
            return Err(std::io::Error::new(std::io::ErrorKind::Interrupted, "try again"));
        }
        if self.fail_call == Some(c) {
            self.refused += 1;
            return Err(std::io::Error::other("sink failed (this call only)"));
        }
        let lim = self.pattern[c % self.pattern.len()].max(1);
        let mut n = buf.len().min(lim);
        let left = self.room.saturating_sub(self.out.len());
        if left == 0 || (n > left && !self.partial_at_edge) {
            self.refused += 1;
            return match self.at_edge {
                Edge::Error => Err(std::io::Error::other("sink is full")),
                Edge::Zero => Ok(0),
            };
        }
        n = n.min(left);
        if n < buf.len() {
            self.short += 1;
        }
        self.out.extend_from_slice(&buf[..n]);
        Ok(n)
    }

    fn flush(&mut self) -> std::io::Result<()> {
        // no second chance to notice a failure
        Ok(())
    }
}

#[derive(Default)]
struct SinkStats {
    runs: u64,
    ok_complete: u64,
    err_after_refusal: u64,
    err_nothing_refused: u64,
    err_complete: u64,
    refusal_in_header: u64,
    refusal_in_content: u64,
    max_len: u64,
    by_kind: std::collections::BTreeMap<&'static str, u64>,
    by_encoder: std::collections::BTreeMap<&'static str, u64>,
}

/// For every offset of a DER value: which element it belongs to and whether
/// it is a header (tag / length) or a content octet.
fn region_labels(der_bytes: &[u8], whole_value: bool) -> Vec<String> {
    let mut labels = vec!["content".to_string(); der_bytes.len()];
    if !whole_value {
        return labels;
    }
    fn go(n: &der::Node, path: &str, labels: &mut [String]) {
        for l in labels.iter_mut().take(n.content_start).skip(n.start) {
            *l = format!("{path}header");
        }
        if n.children.is_empty() {
            for l in labels.iter_mut().take(n.content_end).skip(n.content_start) {
                *l = format!("{path}content");
            }
        }
        for (i, c) in n.children.iter().enumerate() {
            go(c, &format!("{path}{i}."), labels);
        }
    }
    if let Some(root) = der::parse(der_bytes) {
        go(&root, "", &mut labels);
    }
    labels
}

/// The law of this part: an encoder that reports success has delivered
/// exactly the octets it delivers into a `Vec`. What it reports when the sink
/// made trouble is an error of some kind; an error although the sink took
/// everything (slowly) is left open and counted.
#[allow(clippy::too_many_arguments)]
fn judge_sink(
    ctx: &mut Ctx,
    st: &mut SinkStats,
    enc: &'static str,
    kind: &'static str,
    lit: &dyn Fn() -> serde_json::Value,
    spec: &dyn Fn() -> serde_json::Value,
    expected: &[u8],
    res: Option<std::io::Result<()>>,
    arrived: &[u8],
    refused: bool,
) {
    st.runs += 1;
    *st.by_kind.entry(kind).or_insert(0) += 1;
    match res {
        None => {}
        Some(Ok(())) if arrived == expected => st.ok_complete += 1,
        Some(Ok(())) => {
            let what = match arrived.len().cmp(&expected.len()) {
                Ordering::Less => "fewer-octets",
                Ordering::Equal => "other-octets",
                Ordering::Greater => "more-octets",
            };
            let at = arrived.iter().zip(expected.iter()).position(|(a, b)| a != b).unwrap_or(arrived.len().min(expected.len()));
            // two families of sinks: those that only ever take part of what is offered (nothing is
            // refused; the count returned by `write` matters) and those that refuse at some point
            // (an error or Ok(0) comes back; it must reach the caller)
            let family = match kind {
                "short-writes" | "short-writes-varying" | "bufwriter-over-short-writes" | "interrupting-sink" => "partial-writes",
                _ => "refusing-sink",
            };
            ctx.violation(
                &format!("C17:sink:{enc}:{family}:ok-with-{what}"),
                &format!(
                    "{enc} written through write_encoded into a sink ({kind}) returned Ok(()) although {} octets arrived where a Vec receives {} (first difference at offset {at}): the value on the other side is not the DER of this value",
                    arrived.len(),
                    expected.len()
                ),
                json!({"value": lit(), "encoder": enc, "sink_kind": kind, "sink": spec(), "result": "Ok(())",
                       "octets_into_a_vec": hex(expected), "octets_arrived": hex(arrived), "first_difference_at": at}),
            );
        }
        Some(Err(e)) => {
            if arrived == expected {
                st.err_complete += 1;
            } else if refused {
                st.err_after_refusal += 1;
            } else {
                st.err_nothing_refused += 1;
                let text = e.to_string();
                ctx.sample("sink-error-although-nothing-was-refused", || json!({"value": lit(), "encoder": enc, "sink_kind": kind, "sink": spec(), "error": text}));
            }
        }
    }
}

/// `Ctx::no_panic` for a closure that borrows what the detail wants to show:
/// the closure has been run under `core::catch` already.
fn guarded<T>(ctx: &mut Ctx, what: &str, outcome: Result<T, String>, detail: impl FnOnce() -> serde_json::Value) -> Option<T> {
    match outcome {
        Ok(v) => Some(v),
        Err(text) => {
            let sig = format!("C17:panic:{}:{}", what, crate::core::panic_location(&text));
            ctx.violation(&sig, &format!("panic in {}: {}", what, text), detail());
            None
        }
    }
}

fn dedup_sorted(mut v: Vec<usize>) -> Vec<usize> {
    v.sort_unstable();
    v.dedup();
    v
}

/// One value through one encoder into every sink of the part.
/// `whole_value`: the output is a complete TLV (false for content octets only).
#[allow(clippy::too_many_arguments)]
fn sink_sweep<V: Values>(
    ctx: &mut Ctx,
    st: &mut SinkStats,
    rng: &mut crate::core::Rng,
    enc: &'static str,
    lit: &dyn Fn() -> serde_json::Value,
    v: &V,
    oracle: Option<&[u8]>,
    whole_value: bool,
    dense: bool,
) {
    let what = format!("write_encoded:{enc}");
    // the reference: the same encoder into a Vec
    let mut reference: Vec<u8> = Vec::new();
    ctx.eval();
    match ctx.no_panic(&what, || json!({"value": lit(), "encoder": enc, "sink": "Vec<u8>"}), || v.write_encoded(Mode::Der, &mut reference)) {
        Some(Ok(())) => {}
        Some(Err(e)) => {
            ctx.violation(&format!("C17:sink:{enc}:vec:error"), "encoding into a Vec returns an error", json!({"value": lit(), "encoder": enc, "error": e.to_string()}));
            return;
        }
        None => return,
    }
    if let Some(o) = oracle {
        if reference != o {
            // parts 1, 3 and 4 report this under their own signatures; the sinks are not judged against a wrong reference
            ctx.violation(
                &format!("C17:sink:{enc}:vec:not-the-der-of-the-value"),
                &format!("{enc} writes {} into a Vec, the DER of the value is {}", hex(&reference), hex(o)),
                json!({"value": lit(), "encoder": enc, "octets_into_a_vec": hex(&reference), "oracle": hex(o)}),
            );
            return;
        }
    }
    let expected = reference.as_slice();
    let n = expected.len();
    *st.by_encoder.entry(enc).or_insert(0) += 1;
    st.max_len = st.max_len.max(n as u64);
    let labels = region_labels(expected, whole_value);
    let every = usize::MAX;

    // (A) a sink that never refuses and takes k octets per call, (B) seed-chosen patterns
    let ks: Vec<usize> = if dense { (1..=n + 1).collect() } else { dedup_sorted(vec![1, n.saturating_sub(1).max(1)]) };
    let mut patterns: Vec<Vec<usize>> = ks.iter().map(|&k| vec![k]).collect();
    for _ in 0..if dense { 4 } else { 1 } {
        let len = 2 + rng.usize_below(3);
        patterns.push((0..len).map(|_| 1 + rng.usize_below(n.max(1))).collect());
    }
    if dense {
        patterns.push(vec![every, 1]);
        patterns.push(vec![1, every]);
    }
    for pattern in patterns {
        let kind = if pattern.len() == 1 { "short-writes" } else { "short-writes-varying" };
        let mut sink = Sink::new(pattern);
        let res = guarded(ctx, &what, crate::core::catch(|| v.write_encoded(Mode::Der, &mut sink)), || json!({"value": lit(), "encoder": enc, "sink": sink.spec()}));
        let cut = if sink.short > 0 { "some-calls-taken-short" } else { "no-call-taken-short" };
        ctx.sig(&format!("sink {enc} {kind} {cut} -> {}", if matches!(res, Some(Ok(()))) { "ok" } else { "err" }));
        judge_sink(ctx, st, enc, kind, lit, &|| sink.spec(), expected, res, &sink.out, sink.refused > 0);
    }

    // (C) sinks with room for `room` octets that refuse everything after that
    let rooms: Vec<usize> = if dense { (0..=n).collect() } else { dedup_sorted(vec![0, 1, 2.min(n), n / 2, n.saturating_sub(1), n]) };
    let variants: &[(usize, bool, Edge)] = if dense {
        &[(usize::MAX, false, Edge::Error), (usize::MAX, true, Edge::Error), (1, true, Edge::Error), (3, true, Edge::Error), (usize::MAX, true, Edge::Zero), (2, false, Edge::Zero)]
    } else {
        &[(usize::MAX, false, Edge::Error), (2, true, Edge::Zero)]
    };
    for &room in &rooms {
        for (vi, &(per_call, partial, edge)) in variants.iter().enumerate() {
            if !dense && vi == 1 && room != n / 2 {
                continue;
            }
            let kind = if edge == Edge::Error { "failing-sink" } else { "sink-answering-zero" };
            let mut sink = Sink::with_room(vec![per_call], room, partial, edge);
            let res = guarded(ctx, &what, crate::core::catch(|| v.write_encoded(Mode::Der, &mut sink)), || json!({"value": lit(), "encoder": enc, "sink": sink.spec()}));
            if room < n {
                let region = labels[room].as_str();
                if region.ends_with("header") {
                    st.refusal_in_header += 1;
                } else {
                    st.refusal_in_content += 1;
                }
                ctx.sig(&format!("sink {enc} {kind} refuses-in {region} -> {}", if matches!(res, Some(Ok(()))) { "ok" } else { "err" }));
            } else {
                ctx.sig(&format!("sink {enc} {kind} room-for-everything -> {}", if matches!(res, Some(Ok(()))) { "ok" } else { "err" }));
            }
            judge_sink(ctx, st, enc, kind, lit, &|| sink.spec(), expected, res, &sink.out, sink.refused > 0);
        }
    }

    // (D) a sink that answers one call with an error and then carries on
    for per_call in if dense { vec![usize::MAX, 2] } else { vec![usize::MAX] } {
        let mut probe = Sink::new(vec![per_call]);
        let calls = match crate::core::catch(|| v.write_encoded(Mode::Der, &mut probe)) {
            Ok(_) => probe.calls,
            Err(_) => 0,
        };
        let which: Vec<usize> = if dense { (0..calls).collect() } else { dedup_sorted(vec![0, calls.saturating_sub(1)]).into_iter().filter(|c| *c < calls).collect() };
        for c in which {
            let mut sink = Sink::new(vec![per_call]);
            sink.fail_call = Some(c);
            let res = guarded(ctx, &what, crate::core::catch(|| v.write_encoded(Mode::Der, &mut sink)), || json!({"value": lit(), "encoder": enc, "sink": sink.spec()}));
            let region = labels.get(sink.out.len().min(n.saturating_sub(1))).map(|s| s.as_str()).unwrap_or("content");
            ctx.sig(&format!("sink {enc} error-on-one-call in {region} -> {}", if matches!(res, Some(Ok(()))) { "ok" } else { "err" }));
            judge_sink(ctx, st, enc, "error-on-one-call", lit, &|| sink.spec(), expected, res, &sink.out, sink.refused > 0);
        }
    }

    // (E) fixed slices and (F) cursors over fixed slices of every size up to a little more than needed
    let sizes: Vec<usize> = if dense { (0..=n + 2).collect() } else { dedup_sorted(vec![0, n.saturating_sub(1), n]) };
    for &size in &sizes {
        let fit = if size < n { "too-small" } else if size == n { "exact" } else { "larger" };
        {
            let mut buf = vec![0xa5u8; size];
            let mut target: &mut [u8] = &mut buf[..];
            let res = ctx.no_panic(&what, || json!({"value": lit(), "encoder": enc, "sink": format!("&mut [u8] of {size} octets")}), || v.write_encoded(Mode::Der, &mut target));
            let written = size - target.len();
            ctx.sig(&format!("sink {enc} fixed-slice {fit} -> {}", if matches!(res, Some(Ok(()))) { "ok" } else { "err" }));
            judge_sink(ctx, st, enc, "fixed-slice", lit, &|| json!({"kind": "&mut [u8]", "octets_of_room": size, "octets_written": written}), expected, res, &buf[..written], size < n);
        }
        {
            let mut buf = vec![0xa5u8; size];
            let mut cur = std::io::Cursor::new(&mut buf[..]);
            let res = ctx.no_panic(&what, || json!({"value": lit(), "encoder": enc, "sink": format!("Cursor<&mut [u8]> of {size} octets")}), || v.write_encoded(Mode::Der, &mut cur));
            let written = (cur.position() as usize).min(size);
            ctx.sig(&format!("sink {enc} cursor-over-slice {fit} -> {}", if matches!(res, Some(Ok(()))) { "ok" } else { "err" }));
            judge_sink(ctx, st, enc, "cursor-over-slice", lit, &|| json!({"kind": "Cursor<&mut [u8]>", "octets_of_room": size, "octets_written": written}), expected, res, &buf[..written], size < n);
        }
    }

    // (G) std's BufWriter (hands large writes through, with the short count) over a short-writing sink
    let bufs: &[(usize, usize)] = if dense { &[(1, 1), (4, 3), (8, 5), (16, 7)] } else { &[(4, 3)] };
    for &(cap, k) in bufs {
        let mut bw = std::io::BufWriter::with_capacity(cap, Sink::new(vec![k]));
        let res = ctx.no_panic(&what, || json!({"value": lit(), "encoder": enc, "sink": format!("BufWriter({cap}) over {k} octets per call")}), || v.write_encoded(Mode::Der, &mut bw));
        let flushed = std::io::Write::flush(&mut bw).is_ok();
        let inner = bw.get_ref();
        if flushed {
            ctx.sig(&format!("sink {enc} bufwriter cap{cap} -> {}", if matches!(res, Some(Ok(()))) { "ok" } else { "err" }));
            judge_sink(ctx, st, enc, "bufwriter-over-short-writes", lit, &|| json!({"kind": "std::io::BufWriter", "capacity": cap, "inner": inner.spec()}), expected, res, &inner.out, inner.refused > 0);
        }
    }

    // (H) sinks that answer some calls with ErrorKind::Interrupted
    let ints: &[(usize, usize)] = if dense { &[(2, usize::MAX), (3, 1), (2, 5)] } else { &[(2, 3)] };
    for &(nth, per_call) in ints {
        let mut sink = Sink::new(vec![per_call]);
        sink.interrupt_every = nth;
        let res = guarded(ctx, &what, crate::core::catch(|| v.write_encoded(Mode::Der, &mut sink)), || json!({"value": lit(), "encoder": enc, "sink": sink.spec()}));
        ctx.sig(&format!("sink {enc} interrupting -> {}", if matches!(res, Some(Ok(()))) { "ok" } else { "err" }));
        // an encoder may give up on Interrupted (then it says so); that counts as trouble made by the sink
        judge_sink(ctx, st, enc, "interrupting-sink", lit, &|| sink.spec(), expected, res, &sink.out, true);
    }
}

/// The content octets of a serial alone (`PrimitiveContent::write_encoded`),
/// as an enclosing encoder calls it after having written tag and length.
struct SerialContent(Serial);

impl Values for SerialContent {
    fn encoded_len(&self, mode: Mode) -> usize {
        PrimitiveContent::encoded_len(&self.0, mode)
    }

    fn write_encoded<W: std::io::Write>(&self, mode: Mode, target: &mut W) -> Result<(), std::io::Error> {
        PrimitiveContent::write_encoded(&self.0, mode, target)
    }
}

fn time_text(four_digit_year: bool, y: i64, m: u32, d: u32, h: u32, mi: u32, s: u32) -> String {
    if four_digit_year {
        format!("{:04}{:02}{:02}{:02}{:02}{:02}Z", y, m, d, h, mi, s)
    } else {
        format!("{:02}{:02}{:02}{:02}{:02}{:02}Z", y % 100, m, d, h, mi, s)
    }
}

/// The DER the statement asks for: UTCTime for 1950-2049, GeneralizedTime otherwise.
fn oracle_time_der(y: i64, m: u32, d: u32, h: u32, mi: u32, s: u32) -> Vec<u8> {
    let tag = canonical_tag(y);
    der::tlv(tag, time_text(tag == T_GEN, y, m, d, h, mi, s).as_bytes())
}

type Civil = (i64, u32, u32, u32, u32, u32);

fn civil_text(c: Civil) -> String {
    format!("{:04}-{:02}-{:02}T{:02}:{:02}:{:02}Z", c.0, c.1, c.2, c.3, c.4, c.5)
}

fn civil_time(ctx: &mut Ctx, c: Civil) -> Option<(i64, Time)> {
    let instant = instant_of(c.0, c.1, c.2, c.3, c.4, c.5);
    match time_from_instant(instant) {
        Some(t) => Some((instant, t)),
        None => {
            ctx.obs("instants_not_constructible", 1);
            None
        }
    }
}

const SINK_VARIED: u8 = 1;
const SINK_GENERALIZED: u8 = 2;
const SINK_UTC: u8 = 4;

/// One second through the time encoders selected by `which`.
fn sink_time(ctx: &mut Ctx, st: &mut SinkStats, rng: &mut crate::core::Rng, c: Civil, which: u8, dense: bool) {
    let Some((instant, t)) = civil_time(ctx, c) else { return };
    let (y, m, d, h, mi, s) = c;
    let date = civil_text(c);
    let lit = || json!({"date": date, "instant": instant});
    let utc_year = canonical_tag(y) == T_UTC;
    if which & SINK_VARIED != 0 {
        let canon = oracle_time_der(y, m, d, h, mi, s);
        let enc = if utc_year { "encode_varied(utctime)" } else { "encode_varied(generalizedtime)" };
        sink_sweep(ctx, st, rng, enc, &lit, &t.encode_varied(), Some(&canon), true, dense);
    }
    if which & SINK_GENERALIZED != 0 {
        let gen = der::tlv(T_GEN, time_text(true, y, m, d, h, mi, s).as_bytes());
        sink_sweep(ctx, st, rng, "encode_generalized_time", &lit, &t.encode_generalized_time(), Some(&gen), true, dense);
    }
    if which & SINK_UTC != 0 {
        // outside 1950-2049 the two-digit form is ambiguous by design: only its independence of the sink is judged there
        let utc = der::tlv(T_UTC, time_text(false, y, m, d, h, mi, s).as_bytes());
        sink_sweep(ctx, st, rng, "encode_utc_time", &lit, &t.encode_utc_time(), if utc_year { Some(&utc) } else { None }, true, dense);
    }
}

/// The window of two seconds (ordered): two time writers inside one element.
fn sink_validity(ctx: &mut Ctx, st: &mut SinkStats, rng: &mut crate::core::Rng, a: Civil, b: Civil, dense: bool) {
    let (Some((ai, at)), Some((bi, bt))) = (civil_time(ctx, a), civil_time(ctx, b)) else { return };
    let ((nbc, nbi, nbt), (nac, nai, nat)) = if ai <= bi { ((a, ai, at), (b, bi, bt)) } else { ((b, bi, bt), (a, ai, at)) };
    let forms = format!("{}+{}", if canonical_tag(nbc.0) == T_UTC { "utc" } else { "gen" }, if canonical_tag(nac.0) == T_UTC { "utc" } else { "gen" });
    let lit = || json!({"not_before": civil_text(nbc), "not_after": civil_text(nac), "not_before_instant": nbi, "not_after_instant": nai, "forms": forms});
    let want = der::seq(&[&oracle_time_der(nbc.0, nbc.1, nbc.2, nbc.3, nbc.4, nbc.5), &oracle_time_der(nac.0, nac.1, nac.2, nac.3, nac.4, nac.5)]);
    sink_sweep(ctx, st, rng, "Validity::encode", &lit, &Validity::new(nbt, nat).encode(), Some(&want), true, dense);
}

/// A CRL entry: the serial writer and a time writer inside one element.
fn sink_crl_entry(ctx: &mut Ctx, st: &mut SinkStats, rng: &mut crate::core::Rng, sv: &[u8; 20], c: Civil, dense: bool) {
    use rpki::repository::crl::CrlEntry;
    let Ok(ser) = Serial::from_array(*sv) else { return };
    let Some((instant, t)) = civil_time(ctx, c) else { return };
    let lit = || json!({"serial_octets": hex(sv), "revocation_date": civil_text(c), "instant": instant});
    let want = der::seq(&[&der::uint_be(sv), &oracle_time_der(c.0, c.1, c.2, c.3, c.4, c.5)]);
    sink_sweep(ctx, st, rng, "CrlEntry::encode", &lit, &CrlEntry::new(ser, t).encode(), Some(&want), true, dense);
}

const SINK_SERIAL_VALUE: u8 = 1;
const SINK_SERIAL_CONTENT: u8 = 2;

fn sink_serial(ctx: &mut Ctx, st: &mut SinkStats, rng: &mut crate::core::Rng, v: &[u8; 20], which: u8, dense: bool) -> bool {
    let Ok(s) = Serial::from_array(*v) else { return false };
    let lit = || json!({"serial_octets": hex(v), "serial_decimal": big_decimal(v)});
    let want = der::uint_be(v);
    if which & SINK_SERIAL_VALUE != 0 {
        sink_sweep(ctx, st, rng, "Serial::encode", &lit, &s.encode(), Some(&want), true, dense);
    }
    if which & SINK_SERIAL_CONTENT != 0 {
        sink_sweep(ctx, st, rng, "Serial::write_encoded(content)", &lit, &SerialContent(s), Some(&want[2..]), false, dense);
    }
    true
}

fn serial_with(len: usize, lead: u8) -> [u8; 20] {
    let mut v = [0u8; 20];
    if len == 0 {
        return v;
    }
    v[20 - len] = lead;
    for (k, b) in v.iter_mut().enumerate().skip(20 - len + 1) {
        *b = (k as u8).wrapping_mul(37) | 1;
    }
    v
}

fn part_sinks(ctx: &mut Ctx) {
    let dense = matches!(ctx.stage, Stage::Native | Stage::Asan);
    let nshards = ctx.nshards.max(1);
    let mut st = SinkStats::default();
    let mut rng = ctx.rng("sinks");
    let st = &mut st;
    let rng = &mut rng;

    if dense {
        // serials: every significant length class, pad octet needed or not, then seed-chosen ones
        let mut fixed: Vec<[u8; 20]> = vec![[0u8; 20]];
        for len in [1usize, 2, 8, 9, 16, 19, 20] {
            for lead in [0x01u8, 0x7f, 0x80, 0xff] {
                if len == 20 && lead >= 0x80 {
                    continue;
                }
                fixed.push(serial_with(len, lead));
            }
        }
        let mut serials: Vec<[u8; 20]> = fixed.into_iter().enumerate().filter(|(i, _)| (*i as u64) % nshards == ctx.shard).map(|(_, v)| v).collect();
        for _ in 0..ctx.stage_budget((3_000, 40_000), 160, 0, 0) {
            let mut v = [0u8; 20];
            let len = 1 + rng.usize_below(20);
            let r = rng.bytes(len);
            v[20 - len..].copy_from_slice(&r);
            v[0] &= 0x7f;
            serials.push(v);
        }
        for v in &serials {
            sink_serial(ctx, st, rng, v, SINK_SERIAL_VALUE | SINK_SERIAL_CONTENT, dense);
        }

        // times: the pivots, the range ends, short and long years, then seed-chosen seconds
        let fixed: &[Civil] = &[
            (1, 1, 1, 0, 0, 0),
            (999, 12, 31, 23, 59, 59),
            (1000, 1, 1, 0, 0, 0),
            (1949, 12, 31, 23, 59, 59),
            (1950, 1, 1, 0, 0, 0),
            (1999, 12, 31, 23, 59, 59),
            (2000, 2, 29, 12, 30, 31),
            (2024, 6, 15, 7, 8, 9),
            (2049, 12, 31, 23, 59, 59),
            (2050, 1, 1, 0, 0, 0),
            (2100, 2, 28, 1, 2, 3),
            (9999, 12, 31, 23, 59, 59),
        ];
        let mut civils: Vec<Civil> = fixed.iter().enumerate().filter(|(i, _)| (*i as u64) % nshards == ctx.shard).map(|(_, c)| *c).collect();
        for _ in 0..ctx.stage_budget((6_000, 120_000), 240, 0, 0) {
            let y = match rng.below(4) {
                0 | 1 => 1950 + rng.below(100) as i64,
                2 => *rng.pick(&[1i64, 9, 99, 999, 1949, 2050, 9999]),
                _ => 1 + rng.below(9999) as i64,
            };
            let m = 1 + rng.below(12) as u32;
            let d = 1 + rng.below(days_in_month(y, m) as u64) as u32;
            civils.push((y, m, d, rng.below(24) as u32, rng.below(60) as u32, rng.below(60) as u32));
        }
        let mut prev: Option<Civil> = None;
        for (idx, &c) in civils.iter().enumerate() {
            sink_time(ctx, st, rng, c, SINK_VARIED | SINK_GENERALIZED | SINK_UTC, dense);
            if let Some(p) = prev {
                sink_validity(ctx, st, rng, p, c, dense);
            }
            if !serials.is_empty() {
                sink_crl_entry(ctx, st, rng, &serials[idx % serials.len()], c, dense);
            }
            prev = Some(c);
        }
    } else {
        // interpreter stages: eight sweeps in all (one per encoder), thinned, dealt out to the shards
        for k in 0..8u64 {
            if k % nshards != ctx.shard {
                continue;
            }
            match k {
                0 => sink_time(ctx, st, rng, (2049, 12, 31, 23, 59, 59), SINK_VARIED, dense),
                1 => sink_time(ctx, st, rng, (2050, 1, 1, 0, 0, 0), SINK_VARIED, dense),
                2 => sink_time(ctx, st, rng, (1950, 1, 1, 0, 0, 0), SINK_UTC, dense),
                3 => sink_time(ctx, st, rng, (999, 12, 31, 23, 59, 59), SINK_GENERALIZED, dense),
                4 => sink_validity(ctx, st, rng, (1949, 12, 31, 23, 59, 59), (2024, 2, 29, 12, 0, 0), dense),
                5 => sink_crl_entry(ctx, st, rng, &serial_with(9, 0x80), (2024, 6, 15, 7, 8, 9), dense),
                6 => {
                    sink_serial(ctx, st, rng, &serial_with(20, 0x7f), SINK_SERIAL_VALUE, dense);
                }
                _ => {
                    sink_serial(ctx, st, rng, &serial_with(1, 0x80), SINK_SERIAL_CONTENT, dense);
                }
            }
        }
    }

    ctx.evals(st.runs);
    ctx.obs("sink_runs", st.runs);
    for (k, n) in &st.by_kind {
        ctx.obs(&format!("sink_runs:{k}"), *n);
    }
    for (k, n) in &st.by_encoder {
        ctx.obs(&format!("sink_values:{k}"), *n);
    }
    ctx.obs("sink_ok_and_every_octet_arrived", st.ok_complete);
    ctx.obs("sink_error_reported_after_the_sink_refused", st.err_after_refusal);
    ctx.obs("sink_error_although_every_octet_arrived", st.err_complete);
    ctx.obs("sink_error_although_nothing_was_refused", st.err_nothing_refused);
    ctx.obs("sink_refusal_at_a_tag_or_length_octet", st.refusal_in_header);
    ctx.obs("sink_refusal_at_a_content_octet", st.refusal_in_content);
    ctx.obs_max("sink_longest_encoding", st.max_len);
    if st.runs == 0 {
        ctx.notes.push("C17: the sink workload did not run in this shard".into());
    }
    if ctx.shard == 0 && dense {
        if let Some(t) = time_from_instant(instant_of(2024, 6, 15, 7, 8, 9)) {
            let mut sink = Sink::with_room(vec![4], 9, true, Edge::Error);
            let res = t.encode_varied().write_encoded(Mode::Der, &mut sink).map_err(|e| e.to_string());
            ctx.sample("sink", || json!({"date": "2024-06-15T07:08:09Z", "encoder": "encode_varied", "sink": sink.spec(), "result": format!("{:?}", res), "octets_arrived": hex(&sink.out)}));
            let mut sink = Sink::new(vec![1]);
            let res = t.encode_varied().write_encoded(Mode::Der, &mut sink).map_err(|e| e.to_string());
            ctx.sample("sink", || json!({"date": "2024-06-15T07:08:09Z", "encoder": "encode_varied", "sink": sink.spec(), "result": format!("{:?}", res), "octets_arrived": hex(&sink.out)}));
        }
    }
}

//============ run =============================================================

pub fn run(ctx: &mut Ctx) {
    if !oracle_selftest() {
        ctx.notes.push("C17: oracle self-test failed (calendar anchors); nothing judged".into());
        return;
    }
    // C17_TIMING=1 adds the wall time of each part to the observations (for sizing the workloads only)
    let timing = std::env::var_os("C17_TIMING").is_some();
    let parts: [(&str, fn(&mut Ctx)); 7] = [
        ("calendar", part_calendar),
        ("decode", part_decode),
        ("validity", part_validity),
        ("serial", part_serial),
        ("sinks", part_sinks),
        ("sources", c17_source::part_sources),
        ("serial text", c17_text::part_serial_text),
    ];
    for (name, part) in parts {
        ctx.breadcrumb(&format!("C17 {name}"));
        let t0 = ctx.elapsed_s();
        part(ctx);
        if timing {
            ctx.obs(&format!("timing_ms:{name}"), ((ctx.elapsed_s() - t0) * 1000.0) as u64);
        }
    }
}
